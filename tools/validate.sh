#!/bin/sh
# regenerate the manifest and validate manifest + all evidence files against the schemas
cd "$(dirname "$0")/.." || exit 2
/venv/bin/python tools/mkmanifest.py 2>&1 | grep -v "conda"
python3-vt - <<'PY'
import json, jsonschema, glob
jsonschema.validate(json.load(open('/verif/MANIFEST.json')), json.load(open('/root/.vp/MANIFEST.schema.json')))
es = json.load(open('/root/.vp/EVIDENCE.schema.json'))
for f in sorted(glob.glob('/verif/evidence/*.json')):
    jsonschema.validate(json.load(open(f)), es)
print('manifest + %d evidence files valid' % len(glob.glob('/verif/evidence/*.json')))
PY
