#!/bin/sh
# usage: seed_verify.sh <seed-id> <worktree>
# Stores the seeded change of <worktree> under /verif/seeded/<seed-id>/ and confirms the demonstration both ways
# (exit 1 with the change, exit 0 without) in that scratch worktree.  Never touches /repo.
set -u
id=$1; wt=$2
out=/verif/seeded/$id
mkdir -p "$out"
git -C "$wt" diff -- bempp_cl > "$out/patch.diff"
cp "$wt/DEMO/demo.py" "$out/demo.py"
[ -f "$wt/DEMO/NOTES.md" ] && cp "$wt/DEMO/NOTES.md" "$out/NOTES.md"
log=$out/verify.log
: > "$log"
echo "== with the change ($(date -u +%FT%TZ))" >> "$log"
( cd "$wt" && PYTHONPATH="$wt" timeout 7200 /venv/bin/python DEMO/demo.py ) > "$out/demo_with_change.txt" 2>&1
rc1=$?
echo "exit=$rc1" >> "$log"
git -C "$wt" apply -R "$out/patch.diff"
echo "== without the change ($(date -u +%FT%TZ))" >> "$log"
( cd "$wt" && PYTHONPATH="$wt" timeout 7200 /venv/bin/python DEMO/demo.py ) > "$out/demo_without_change.txt" 2>&1
rc0=$?
echo "exit=$rc0" >> "$log"
git -C "$wt" apply "$out/patch.diff"
tail -c 1500 "$out/demo_with_change.txt" > "$out/demo_with_change.tail.txt"; mv "$out/demo_with_change.tail.txt" "$out/demo_with_change.txt"
tail -c 1500 "$out/demo_without_change.txt" > "$out/demo_without_change.tail.txt"; mv "$out/demo_without_change.tail.txt" "$out/demo_without_change.txt"
echo "RESULT $id with_change=$rc1 without_change=$rc0" | tee -a "$log"
