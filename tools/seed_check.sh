#!/bin/sh
# usage: seed_check.sh <patch file> <Cxx> [<Cyy> ...]
# Runs the named checks against a scratch copy of /repo's bempp_cl tree with the patch applied (same effect as
# `git -C /repo apply <patch>; ./check ...; git -C /repo checkout -- .`, without touching /repo; used while a test run
# is in progress there).  Nothing is kept.
set -u
patch=$1; shift
tmp=$(mktemp -d /tmp/vsc_XXXXXX)
cp -r /repo/bempp_cl "$tmp/bempp_cl"
( cd "$tmp" && patch -p1 -s < "$patch" ) || { echo "patch does not apply"; rm -rf "$tmp"; exit 2; }
cd /verif
for p in "$@"; do
  VERIF_REPO="$tmp" VERIF_OUT="$tmp/out" /venv/bin/python -B -m sa.run "$p" --tier quick 2>&1 | grep -E "^VIOLATION|^OK|^ANALYSIS|  report:" | cut -c1-400
done
rm -rf "$tmp"
