#!/usr/bin/env python3
"""Mutation scan: machine-generated single-site changes inside the line ranges the properties are anchored in.

usage: mutscan.py [--props C01,C05] [--file REL] [--max N] [--jobs 16] [--out FILE]

For every property the `where` ranges of its anchors (properties.jsonl) name the code that carries it.  This tool
generates syntactic mutants inside those ranges (role swap test<->trial, +/- flip, comparison flip, index swap,
integer constant +1, `+=` -> `=`), applies each to a scratch copy of /repo's bempp_cl tree and runs the quick checks of the
properties whose ranges contain the site.  It is a *measurement* of the checks (which generated changes go unreported),
not a check itself: nothing in MANIFEST.json calls it and its verdicts need triage, because many generated mutants
do not change behaviour.  Results: /verif/selftest/mutscan.json (+ a text table on stdout).
"""
import argparse
import ast
import json
import os
import re
import shutil
import subprocess
import sys
import tempfile
from concurrent.futures import ProcessPoolExecutor

VERIF = os.path.dirname(os.path.dirname(os.path.abspath(__file__)))
REPO = os.environ.get("VERIF_REPO", "/repo")


def anchor_ranges():
    """{rel: [(lo, hi, prop)]} from the `where` strings of properties.jsonl."""
    out = {}
    for line in open(os.path.join(VERIF, "properties.jsonl")):
        d = json.loads(line)
        a = d.get("anchors", {})
        for group in ("state", "mechanism"):
            for item in a.get(group, []) or []:
                w = item.get("where", "")
                cur = None
                for part in re.split(r",\s*", w):
                    m = re.match(r"(?:(\S+?):)?(\d+)(?:-(\d+))?", part.strip())
                    if not m:
                        continue
                    if m.group(1):
                        cur = m.group(1)
                    if cur is None:
                        continue
                    lo = int(m.group(2))
                    hi = int(m.group(3) or lo)
                    out.setdefault(cur, []).append((lo, hi, d["id"]))
    return out


def _swap_role(name):
    for a, b in (("test", "trial"), ("trial", "test"), ("Test", "Trial"), ("Trial", "Test")):
        if a in name:
            return name.replace(a, b, 1)
    return None


def mutants_of(rel, src):
    tree = ast.parse(src)
    lines = src.splitlines(keepends=True)
    offs = [0]
    for ln in lines:
        offs.append(offs[-1] + len(ln.encode()))
    bsrc = src.encode()

    def pos(n):
        return offs[n.lineno - 1] + n.col_offset, offs[n.end_lineno - 1] + n.end_col_offset

    out = []

    def add(kind, a, b, new, line):
        out.append({"file": rel, "kind": kind, "line": line, "a": a, "b": b, "old": bsrc[a:b].decode(), "new": new})

    for fn in ast.walk(tree):
        if not isinstance(fn, (ast.FunctionDef, ast.AsyncFunctionDef)):
            continue
        names = {n.id for n in ast.walk(fn) if isinstance(n, ast.Name)} | {n.attr for n in ast.walk(fn) if isinstance(n, ast.Attribute)} | {a.arg for a in fn.args.args}
        inner = {id(x) for sub in ast.walk(fn) if isinstance(sub, (ast.FunctionDef, ast.AsyncFunctionDef)) and sub is not fn for x in ast.walk(sub)}
        for n in ast.walk(fn):
            if id(n) in inner or n is fn:
                continue
            if isinstance(n, ast.Name) and isinstance(n.ctx, ast.Load):
                sw = _swap_role(n.id)
                if sw and sw in names:
                    a, b = pos(n)
                    add("role", a, b, sw, n.lineno)
            elif isinstance(n, ast.Attribute) and isinstance(n.ctx, ast.Load):
                sw = _swap_role(n.attr)
                if sw and sw in names:
                    a, b = pos(n)
                    add("role-attr", b - len(n.attr.encode()), b, sw, n.end_lineno)
            elif isinstance(n, ast.BinOp) and isinstance(n.op, (ast.Add, ast.Sub)):
                a = pos(n.left)[1]
                b = pos(n.right)[0]
                gap = bsrc[a:b].decode()
                ch = "+" if isinstance(n.op, ast.Add) else "-"
                if gap.count(ch) == 1 and "#" not in gap:
                    i = a + gap.index(ch)
                    add("sign", i, i + 1, "-" if ch == "+" else "+", n.left.end_lineno)
            elif isinstance(n, ast.UnaryOp) and isinstance(n.op, ast.USub) and not isinstance(n.operand, ast.Constant):
                a, b = pos(n)
                if bsrc[a:a + 1] == b"-":
                    add("neg", a, a + 1, "", n.lineno)
            elif isinstance(n, ast.Compare) and len(n.ops) == 1:
                a = pos(n.left)[1]
                b = pos(n.comparators[0])[0]
                gap = bsrc[a:b].decode()
                table = {ast.Eq: ("==", "!="), ast.NotEq: ("!=", "=="), ast.Lt: ("<", "<="), ast.LtE: ("<=", "<"), ast.Gt: (">", ">="), ast.GtE: (">=", ">")}
                t = table.get(type(n.ops[0]))
                if t and gap.count(t[0]) == 1 and "#" not in gap:
                    i = a + gap.index(t[0])
                    add("cmp", i, i + len(t[0]), t[1], n.lineno)
            elif isinstance(n, ast.Subscript):
                s = n.slice
                if isinstance(s, ast.Tuple) and len(s.elts) == 2 and all(isinstance(e, (ast.Name, ast.Constant, ast.BinOp, ast.Subscript)) for e in s.elts):
                    (a0, b0), (a1, b1) = pos(s.elts[0]), pos(s.elts[1])
                    t0, t1 = bsrc[a0:b0].decode(), bsrc[a1:b1].decode()
                    if t0 != t1:
                        add("idx-swap", a0, b1, t1 + bsrc[b0:a1].decode() + t0, n.lineno)
                for e in (s.elts if isinstance(s, ast.Tuple) else [s]):
                    if isinstance(e, ast.Constant) and isinstance(e.value, int) and not isinstance(e.value, bool):
                        a, b = pos(e)
                        add("const", a, b, str(e.value + 1 if e.value < 2 else e.value - 1), e.lineno)
            elif isinstance(n, ast.AugAssign) and isinstance(n.op, (ast.Add, ast.Sub)):
                a = pos(n.target)[1]
                b = pos(n.value)[0]
                gap = bsrc[a:b].decode()
                ch = "+=" if isinstance(n.op, ast.Add) else "-="
                if gap.count(ch) == 1:
                    i = a + gap.index(ch)
                    add("aug-sign", i, i + 2, "-=" if ch == "+=" else "+=", n.lineno)
                    add("aug-drop", i, i + 2, "=", n.lineno)
            elif isinstance(n, ast.Constant) and isinstance(n.value, float) and n.value not in (0.0,):
                a, b = pos(n)
                add("float", a, b, repr(n.value * 2), n.lineno)
    return out


def run_one(job):
    m, props = job
    scratch = tempfile.mkdtemp(prefix="vms_")
    try:
        shutil.copytree(os.path.join(REPO, "bempp_cl"), os.path.join(scratch, "bempp_cl"), ignore=shutil.ignore_patterns("__pycache__", "*.npz", "*.npy", "*.msh"))
        p = os.path.join(scratch, m["file"])
        b = open(p, "rb").read()
        nb = b[: m["a"]] + m["new"].encode() + b[m["b"]:]
        try:
            ast.parse(nb.decode())
        except SyntaxError:
            return dict(m, status="does-not-parse")
        open(p, "wb").write(nb)
        env = dict(os.environ, VERIF_REPO=scratch, VERIF_OUT=os.path.join(scratch, "out"))
        res = {}
        for pr in props:
            r = subprocess.run(["/venv/bin/python", "-B", "-m", "sa.run", pr, "--tier", "quick"], cwd=VERIF, env=env, capture_output=True, text=True)
            rep = [l.strip()[:200] for l in r.stdout.splitlines() if l.startswith(("  report:", "ANALYSIS-ERROR"))][:1]
            res[pr] = {"exit": r.returncode, "report": rep}
        codes = [v["exit"] for v in res.values()]
        status = "caught" if 1 in codes else ("analysis-error" if 2 in codes else "missed")
        return dict(m, status=status, results=res)
    finally:
        shutil.rmtree(scratch, ignore_errors=True)


def main():
    ap = argparse.ArgumentParser()
    ap.add_argument("--props", default="")
    ap.add_argument("--file", default="")
    ap.add_argument("--kinds", default="")
    ap.add_argument("--force", default="", help="run these properties on every mutant (in addition to the anchored ones)")
    ap.add_argument("--lines", default="", help="lo-hi: restrict to this line range")
    ap.add_argument("--max", type=int, default=0)
    ap.add_argument("--retry", default="", help="a previous result file: run only the mutants it lists as missed")
    ap.add_argument("--jobs", type=int, default=16)
    ap.add_argument("--out", default=os.path.join(VERIF, "selftest", "mutscan.json"))
    a = ap.parse_args()
    want = set(filter(None, a.props.split(",")))
    ranges = anchor_ranges()
    jobs = []
    for rel, rs in sorted(ranges.items()):
        if a.file and rel != a.file:
            continue
        path = os.path.join(REPO, rel)
        if not rel.endswith(".py") or not os.path.exists(path):
            continue
        src = open(path, newline="").read()  # byte offsets below must match the file as stored (CRLF files exist)
        for m in mutants_of(rel, src):
            if a.kinds and m["kind"] not in a.kinds.split(","):
                continue
            props = sorted({p for lo, hi, p in rs if lo <= m["line"] <= hi and (not want or p in want)})
            if a.lines:
                l0, l1 = map(int, a.lines.split("-"))
                if not l0 <= m["line"] <= l1:
                    continue
            if a.force and props:
                props = sorted(set(props) | set(a.force.split(",")))
            if props:
                jobs.append((m, props))
    if a.retry:
        prev = {(r["file"], r["a"], r["b"], r["new"]) for r in json.load(open(a.retry))["results"] if r["status"] == "missed"}
        jobs = [(m, p) for m, p in jobs if (m["file"], m["a"], m["b"], m["new"]) in prev]
    if a.max and len(jobs) > a.max:
        step = len(jobs) / a.max
        jobs = [jobs[int(i * step)] for i in range(a.max)]
    print("mutants: %d" % len(jobs), flush=True)
    with ProcessPoolExecutor(a.jobs) as ex:
        results = list(ex.map(run_one, jobs, chunksize=1))
    for r, (m, props) in zip(results, jobs):
        r["props"] = props
    tally = {}
    for r in results:
        tally[r["status"]] = tally.get(r["status"], 0) + 1
    json.dump({"tally": tally, "results": results}, open(a.out, "w"), indent=0)
    for r in results:
        if r["status"] == "missed":
            print("MISSED %-9s %s:%d  `%s` -> `%s`  [%s]" % (r["kind"], r["file"], r["line"], r["old"][:40], r["new"][:40], ",".join(r["props"])))
    print("TALLY", tally)


if __name__ == "__main__":
    main()
