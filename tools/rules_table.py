#!/usr/bin/env python3
"""Print a markdown table of every rule of every property from the evidence files (for DESIGN.md section 10)."""
import glob
import json

for f in sorted(glob.glob("/verif/evidence/C*.json")):
    e = json.load(open(f))
    print("\n**%s** (%d rule instances)\n" % (e["property_id"], e["coverage"]["obligations"]))
    print("| rule | instances | decides |")
    print("|---|---|---|")
    for r in e["coverage"]["rules"]:
        print("| %s | %d | %s |" % (r["rule"], r["instances"], r["description"].replace("|", "/")))
