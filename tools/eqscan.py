#!/usr/bin/env python3
"""Equivalence scan: machine-generated behaviour-preserving rewrites inside the anchored ranges.

usage: eqscan.py [--file REL] [--kinds rename,cmpflip,ifinvert,ternary,commute,augexpand] [--per-function N] [--jobs 16] [--out FILE]

For every function that overlaps an anchored range of properties.jsonl the tool generates rewrites that cannot change
behaviour and runs the quick checks of the properties anchored there on a scratch copy with ONE rewrite applied.  Every
check must stay silent (exit 0).  Exit 1 is a false alarm of the checker; exit 2 (cannot analyse) is reported
separately as brittleness.  Like mutscan.py this is a measurement of the machinery, not a check of the repository.

kinds
  rename     alpha-renaming of a local (assigned in the function, not a parameter, not global / nonlocal, not used by a
             nested scope): every occurrence gets the suffix _r
  cmpflip    `a == b` -> `b == a`, `a < b` -> `b > a`, ... (single comparisons with == != < <= > >=)
  ifinvert   `if c: A else: B` -> `if not (c): B else: A` (statements with a plain else branch)
  ternary    `x if c else y` -> `y if not (c) else x`
  commute    `a * b` -> `b * a`, `a + b` -> `b + a`; only inside numba-jitted functions (numeric operands: IEEE
             multiplication and addition commute exactly; the grouping of longer chains is kept)
  augexpand  `t[i] += e` -> `t[i] = t[i] + (e)` (likewise -=, *=); subscript targets only, inside jitted functions
  idiom      `x ** 2` <-> `x * x`, `a.dot(b)` -> `a @ b`, `x.T` -> `x.transpose()`, `e / 2` -> `0.5 * e` (the numeric ones
             inside jitted functions only)
  crename    like rename, for locals captured by a nested function (renamed in the closure as well)
  temp       a call or binary sub-expression of an assignment / return is computed into a new local on the line before
             (not taken from under a lambda, comprehension, conditional expression or and/or)
  hoist      like temp, but the new local is computed two statements earlier (before the preceding simple statement,
             which must not write anything the sub-expression reads)
  kwarg      the last positional argument of a call to a plain function of the same module is passed by keyword
"""
import argparse
import ast
import json
import os
import shutil
import subprocess
import sys
import tempfile
from concurrent.futures import ProcessPoolExecutor

sys.path.insert(0, os.path.dirname(os.path.abspath(__file__)))
import mutscan  # noqa: E402

VERIF = mutscan.VERIF
REPO = mutscan.REPO
KINDS = ("rename", "crename", "cmpflip", "ifinvert", "ternary", "commute", "augexpand", "idiom", "temp", "hoist", "kwarg")
FLIP = {ast.Eq: "==", ast.NotEq: "!=", ast.Lt: ">", ast.LtE: ">=", ast.Gt: "<", ast.GtE: "<="}
AUG = {ast.Add: "+", ast.Sub: "-", ast.Mult: "*"}


NEGOP = {ast.Eq: "!=", ast.NotEq: "==", ast.Is: "is not", ast.IsNot: "is", ast.In: "not in", ast.NotIn: "in", ast.Lt: ">=", ast.GtE: "<", ast.Gt: "<=", ast.LtE: ">"}


def negated(test, seg):
    """Source of the negation of `test`, the way a developer would spell it."""
    if isinstance(test, ast.UnaryOp) and isinstance(test.op, ast.Not):
        return seg(test.operand)
    if isinstance(test, ast.Compare) and len(test.ops) == 1 and type(test.ops[0]) in NEGOP:
        return "%s %s %s" % (seg(test.left), NEGOP[type(test.ops[0])], seg(test.comparators[0]))
    if isinstance(test, (ast.Name, ast.Attribute, ast.Call, ast.Subscript)):
        return "not " + seg(test)
    return "not (" + seg(test) + ")"


def _jitted(fn):
    return any("jit" in ast.unparse(d) for d in fn.decorator_list)


def rewrites(rel, src, per_function, kinds):
    tree = ast.parse(src)
    lines = src.splitlines(keepends=True)
    offs = [0]
    for ln in lines:
        offs.append(offs[-1] + len(ln.encode()))
    bsrc = src.encode()

    def pos(n):
        return offs[n.lineno - 1] + n.col_offset, offs[n.end_lineno - 1] + n.end_col_offset

    def seg(n):
        a, b = pos(n)
        return bsrc[a:b].decode()

    out = []
    all_names = {n.id for n in ast.walk(tree) if isinstance(n, ast.Name)} | {a.arg for f in ast.walk(tree) if isinstance(f, (ast.FunctionDef, ast.Lambda)) for a in f.args.args}
    for fn in ast.walk(tree):
        if not isinstance(fn, ast.FunctionDef):
            continue
        nested = [x for x in ast.walk(fn) if isinstance(x, (ast.FunctionDef, ast.Lambda, ast.ListComp, ast.DictComp, ast.SetComp, ast.GeneratorExp)) and x is not fn]
        inner_nodes = {id(y) for x in nested if isinstance(x, ast.FunctionDef) for y in ast.walk(x)}
        base = {"file": rel, "function": fn.name, "line": fn.lineno, "end": fn.end_lineno}
        per_kind = {k: [] for k in KINDS}
        if "rename" in kinds or "crename" in kinds:
            scope_nodes = {id(y) for x in nested for y in ast.walk(x)}
            params = {a.arg for a in fn.args.posonlyargs + fn.args.args + fn.args.kwonlyargs} | ({fn.args.vararg.arg} if fn.args.vararg else set()) | ({fn.args.kwarg.arg} if fn.args.kwarg else set())
            declared = {n for s in ast.walk(fn) if isinstance(s, (ast.Global, ast.Nonlocal)) for n in s.names}
            stored = []
            for n in ast.walk(fn):
                if isinstance(n, ast.Name) and isinstance(n.ctx, ast.Store) and id(n) not in scope_nodes and n.id not in params and n.id not in declared and n.id not in stored:
                    stored.append(n.id)
            inner_used = {y.id for x in nested for y in ast.walk(x) if isinstance(y, ast.Name)}
            for v in [v for v in stored if "rename" in kinds and v not in inner_used and v + "_r" not in all_names and not v.startswith("_")]:
                sites = [n for n in ast.walk(fn) if isinstance(n, ast.Name) and n.id == v and id(n) not in scope_nodes]
                edits = sorted({pos(n) + (v + "_r",) for n in sites}, reverse=True)
                per_kind["rename"].append(dict(base, kind="rename", what=v, edits=edits))
            if "crename" in kinds:
                # locals captured by closures: renamed in the function and in every nested scope, provided no nested scope
                # binds the name itself (parameter, store, comprehension target)
                rebound = set()
                for x in nested:
                    if isinstance(x, (ast.FunctionDef, ast.Lambda)):
                        rebound |= {a.arg for a in x.args.posonlyargs + x.args.args + x.args.kwonlyargs}
                    rebound |= {y.id for y in ast.walk(x) if isinstance(y, ast.Name) and isinstance(y.ctx, ast.Store)}
                for v in [v for v in stored if v in inner_used and v not in rebound and v + "_r" not in all_names and not v.startswith("_")]:
                    sites = [n for n in ast.walk(fn) if isinstance(n, ast.Name) and n.id == v]
                    edits = sorted({pos(n) + (v + "_r",) for n in sites}, reverse=True)
                    per_kind["crename"].append(dict(base, kind="crename", what=v, edits=edits))
        jit = _jitted(fn)
        for n in ast.walk(fn):
            if id(n) in inner_nodes:
                continue
            if "cmpflip" in kinds and isinstance(n, ast.Compare) and len(n.ops) == 1 and type(n.ops[0]) in FLIP:
                new = "%s %s %s" % (seg(n.comparators[0]), FLIP[type(n.ops[0])], seg(n.left))
                per_kind["cmpflip"].append(dict(base, kind="cmpflip", what="%d: %s" % (n.lineno, seg(n)[:50]), edits=[pos(n) + (new,)]))
            if "ternary" in kinds and isinstance(n, ast.IfExp):
                new = "%s if %s else %s" % (seg(n.orelse) if not isinstance(n.orelse, ast.IfExp) else "(" + seg(n.orelse) + ")", negated(n.test, seg), seg(n.body))
                per_kind["ternary"].append(dict(base, kind="ternary", what="%d: %s" % (n.lineno, seg(n)[:50]), edits=[pos(n) + (new,)]))
            if "ifinvert" in kinds and isinstance(n, ast.If) and n.orelse and not (len(n.orelse) == 1 and isinstance(n.orelse[0], ast.If) and n.orelse[0].col_offset == n.col_offset) \
                    and n.body[0].lineno > n.test.end_lineno and n.orelse[0].col_offset == n.body[0].col_offset:
                head = lines[n.lineno - 1]
                if not head.lstrip().startswith("if "):
                    continue  # an `elif`: the statement is part of a chain
                ind = head[: len(head) - len(head.lstrip())]
                nl = "\r\n" if head.endswith("\r\n") else "\n"
                body = "".join(lines[n.body[0].lineno - 1: n.body[-1].end_lineno])
                orelse = "".join(lines[n.orelse[0].lineno - 1: n.orelse[-1].end_lineno])
                if not body.endswith(("\n", "\r\n")) or not orelse.endswith(("\n", "\r\n")):
                    continue
                new = ind + "if " + negated(n.test, seg) + ":" + nl + orelse + ind + "else:" + nl + body
                a, b = offs[n.lineno - 1], offs[n.orelse[-1].end_lineno]
                per_kind["ifinvert"].append(dict(base, kind="ifinvert", what="%d: if %s" % (n.lineno, seg(n.test)[:50]), edits=[(a, b, new)]))
            if "commute" in kinds and jit and isinstance(n, ast.BinOp) and isinstance(n.op, (ast.Mult, ast.Add)) \
                    and not any(isinstance(x, (ast.List, ast.Tuple, ast.JoinedStr)) or (isinstance(x, ast.Constant) and isinstance(x.value, str)) for x in (n.left, n.right)):
                new = "(%s) %s (%s)" % (seg(n.right), "*" if isinstance(n.op, ast.Mult) else "+", seg(n.left))
                per_kind["commute"].append(dict(base, kind="commute", what="%d: %s" % (n.lineno, seg(n)[:50]), edits=[pos(n) + (new,)]))
            if "augexpand" in kinds and jit and isinstance(n, ast.AugAssign) and isinstance(n.target, ast.Subscript) and type(n.op) in AUG:
                new = "%s = %s %s (%s)" % (seg(n.target), seg(n.target), AUG[type(n.op)], seg(n.value))
                per_kind["augexpand"].append(dict(base, kind="augexpand", what="%d: %s" % (n.lineno, seg(n)[:50]), edits=[pos(n) + (new,)]))
            if "idiom" in kinds:
                new = None
                # x ** 2 <-> x * x (pure operand), a.dot(b) <-> a @ b, x.T <-> x.transpose(), e / 2 <-> 0.5 * e, inside jitted functions
                if jit and isinstance(n, ast.BinOp) and isinstance(n.op, ast.Pow) and isinstance(n.right, ast.Constant) and n.right.value == 2 and isinstance(n.left, (ast.Name, ast.Subscript, ast.Attribute)) \
                        and not any(isinstance(y, ast.Call) for y in ast.walk(n.left)):
                    new = "(%s * %s)" % (seg(n.left), seg(n.left))
                elif jit and isinstance(n, ast.BinOp) and isinstance(n.op, ast.Mult) and isinstance(n.left, (ast.Name, ast.Subscript)) and ast.dump(n.left) == ast.dump(n.right) \
                        and not any(isinstance(y, ast.Call) for y in ast.walk(n.left)):
                    new = "(%s) ** 2" % seg(n.left)
                elif isinstance(n, ast.Call) and isinstance(n.func, ast.Attribute) and n.func.attr == "dot" and len(n.args) == 1 and not n.keywords and not (isinstance(n.func.value, ast.Name) and n.func.value.id in ("np", "_np", "numpy", "self")):
                    new = "((%s) @ (%s))" % (seg(n.func.value), seg(n.args[0]))
                elif jit and isinstance(n, ast.Attribute) and n.attr == "T" and isinstance(n.ctx, ast.Load):
                    new = "(%s).transpose()" % seg(n.value)
                elif jit and isinstance(n, ast.BinOp) and isinstance(n.op, ast.Div) and isinstance(n.right, ast.Constant) and n.right.value in (2, 2.0):
                    new = "(0.5 * (%s))" % seg(n.left)
                if new is not None:
                    per_kind["idiom"].append(dict(base, kind="idiom", what="%d: %s" % (n.lineno, seg(n)[:50]), edits=[pos(n) + (new,)]))
        if "temp" in kinds or "kwarg" in kinds or "hoist" in kinds:
            guarded = set()
            for x in ast.walk(fn):
                if isinstance(x, (ast.Lambda, ast.ListComp, ast.DictComp, ast.SetComp, ast.GeneratorExp, ast.IfExp, ast.BoolOp, ast.FunctionDef)) and x is not fn:
                    guarded |= {id(y) for y in ast.walk(x) if y is not x}
        if "temp" in kinds:
            for st in ast.walk(fn):
                if id(st) in inner_nodes or not isinstance(st, (ast.Assign, ast.AugAssign, ast.Return)) or st.value is None:
                    continue
                line = lines[st.lineno - 1]
                if line[: st.col_offset].strip():
                    continue  # not at the start of its line (`if c: x = ...`)
                subs = [x for x in ast.walk(st.value) if x is not st.value and isinstance(x, (ast.Call, ast.BinOp)) and id(x) not in guarded]
                if not subs:
                    continue
                x = subs[0]
                nl = "\r\n" if line.endswith("\r\n") else "\n"
                a0 = offs[st.lineno - 1]
                ins = line[: st.col_offset] + "tmp_eq_r = (" + seg(x) + ")" + nl
                per_kind["temp"].append(dict(base, kind="temp", what="%d: %s" % (st.lineno, seg(x)[:50]), edits=[pos(x) + ("tmp_eq_r",), (a0, a0, ins)]))
        if "hoist" in kinds:
            blocks = [fn.body] + [getattr(s, f) for s in ast.walk(fn) if id(s) not in inner_nodes and s is not fn for f in ("body", "orelse") if isinstance(getattr(s, f, None), list) and getattr(s, f) and isinstance(getattr(s, f)[0], ast.stmt) and not isinstance(s, (ast.FunctionDef, ast.ClassDef))]
            for body in blocks:
                for i in range(1, len(body)):
                    prev, st = body[i - 1], body[i]
                    if not isinstance(st, (ast.Assign, ast.AugAssign, ast.Return)) or st.value is None or not isinstance(prev, (ast.Assign, ast.AugAssign, ast.Expr)):
                        continue
                    line, pline = lines[st.lineno - 1], lines[prev.lineno - 1]
                    if line[: st.col_offset].strip() or pline[: prev.col_offset].strip():
                        continue
                    written = {n.id for n in ast.walk(prev) if isinstance(n, ast.Name) and isinstance(n.ctx, ast.Store)} | {n.value.id for n in ast.walk(prev) if isinstance(n, ast.Subscript) and isinstance(n.ctx, ast.Store) and isinstance(n.value, ast.Name)}
                    if isinstance(prev, ast.Expr):
                        written |= {n.id for n in ast.walk(prev) if isinstance(n, ast.Name)}  # a call statement may mutate what it mentions
                    subs = [x for x in ast.walk(st.value) if x is not st.value and isinstance(x, (ast.Call, ast.BinOp)) and id(x) not in guarded
                            and not ({n.id for n in ast.walk(x) if isinstance(n, ast.Name)} & written)]
                    if not subs:
                        continue
                    x = subs[0]
                    nl = "\r\n" if pline.endswith("\r\n") else "\n"
                    a0 = offs[prev.lineno - 1]
                    ins = pline[: prev.col_offset] + "tmp_eq_r = (" + seg(x) + ")" + nl
                    per_kind["hoist"].append(dict(base, kind="hoist", what="%d: %s" % (st.lineno, seg(x)[:50]), edits=[pos(x) + ("tmp_eq_r",), (a0, a0, ins)]))
        if "kwarg" in kinds:
            local_fns = {f.name: f for f in tree.body if isinstance(f, ast.FunctionDef)}
            for c in ast.walk(fn):
                if id(c) in inner_nodes or not (isinstance(c, ast.Call) and isinstance(c.func, ast.Name) and c.func.id in local_fns and c.args and not c.keywords):
                    continue
                callee = local_fns[c.func.id]
                ps = [a.arg for a in callee.args.posonlyargs + callee.args.args]
                if callee.args.vararg or callee.args.posonlyargs or len(c.args) > len(ps) or any(isinstance(a, ast.Starred) for a in c.args):
                    continue
                last = c.args[-1]
                per_kind["kwarg"].append(dict(base, kind="kwarg", what="%d: %s(..., %s=...)" % (c.lineno, c.func.id, ps[len(c.args) - 1]), edits=[pos(last) + (ps[len(c.args) - 1] + "=" + seg(last),)]))
        for k, cands in per_kind.items():
            step = max(1, len(cands) // per_function) if cands else 1
            out.extend(cands[::step][:per_function])
    return out


def run_one(job):
    m, props = job
    scratch = tempfile.mkdtemp(prefix="veq_")
    try:
        shutil.copytree(os.path.join(REPO, "bempp_cl"), os.path.join(scratch, "bempp_cl"), ignore=shutil.ignore_patterns("__pycache__", "*.npz", "*.npy", "*.msh"))
        p = os.path.join(scratch, m["file"])
        b = open(p, "rb").read()
        for a, e, new in sorted(m["edits"], reverse=True):
            b = b[:a] + new.encode() + b[e:]
        try:
            ast.parse(b.decode())
        except SyntaxError:
            return dict(m, edits=len(m["edits"]), status="does-not-parse")
        open(p, "wb").write(b)
        env = dict(os.environ, VERIF_REPO=scratch, VERIF_OUT=os.path.join(scratch, "out"))
        res = {}
        for pr in props:
            r = subprocess.run(["/venv/bin/python", "-B", "-m", "sa.run", pr, "--tier", "quick"], cwd=VERIF, env=env, capture_output=True, text=True)
            last = [l for l in r.stdout.splitlines() if l.startswith(("VIOLATION", "ANALYSIS-ERROR", "  report:"))][:1]
            res[pr] = {"exit": r.returncode, "line": last[0][:300] if last else ""}
        codes = [v["exit"] for v in res.values()]
        status = "false-alarm" if 1 in codes else ("cannot-analyse" if 2 in codes else "silent")
        return dict(m, edits=len(m["edits"]), status=status, results=res)
    finally:
        shutil.rmtree(scratch, ignore_errors=True)


def main():
    ap = argparse.ArgumentParser()
    ap.add_argument("--file", default="")
    ap.add_argument("--kinds", default=",".join(KINDS))
    ap.add_argument("--per-function", type=int, default=1)
    ap.add_argument("--jobs", type=int, default=16)
    ap.add_argument("--out", default=os.path.join(VERIF, "selftest", "eqscan.json"))
    a = ap.parse_args()
    kinds = set(a.kinds.split(","))
    ranges = mutscan.anchor_ranges()
    jobs = []
    for rel, rs in sorted(ranges.items()):
        if a.file and rel != a.file:
            continue
        path = os.path.join(REPO, rel)
        if not rel.endswith(".py") or not os.path.exists(path):
            continue
        src = open(path, newline="").read()
        for m in rewrites(rel, src, a.per_function, kinds):
            props = sorted({p for lo, hi, p in rs if lo <= m["end"] and m["line"] <= hi})
            if props:
                jobs.append((m, props))
    print("rewrites: %d" % len(jobs), flush=True)
    with ProcessPoolExecutor(a.jobs) as ex:
        results = list(ex.map(run_one, jobs, chunksize=1))
    tally = {}
    for r in results:
        key = "%s/%s" % (r["kind"], r["status"])
        tally[key] = tally.get(key, 0) + 1
    json.dump({"tally": tally, "results": results}, open(a.out, "w"), indent=0)
    for r in results:
        if r["status"] != "silent":
            bad = [(p, v["exit"], v["line"]) for p, v in r.get("results", {}).items() if v["exit"]]
            print("%-14s %-9s %s::%s `%s`  %s" % (r["status"].upper(), r["kind"], r["file"], r["function"], r["what"], bad[:2]))
    print("TALLY", json.dumps(tally, sort_keys=True))


if __name__ == "__main__":
    main()
