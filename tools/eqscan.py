#!/usr/bin/env python3
"""Equivalence scan: machine-generated behaviour-preserving rewrites inside the anchored ranges.

usage: eqscan.py [--file REL] [--per-function N] [--jobs 16] [--out FILE]

For every function that overlaps an anchored range of properties.jsonl, up to N local variables are renamed consistently
(alpha-renaming: a name that is assigned in the function, is not a parameter, is not declared global / nonlocal and is not
referenced by a nested function).  The rewrite cannot change behaviour; every check of the properties anchored there
must stay silent (exit 0).  Exit 1 is a false alarm of the checker; exit 2 (cannot analyse) is reported separately as
brittleness.  Like mutscan.py this is a measurement of the machinery, not a check of the repository.
"""
import argparse
import ast
import json
import os
import shutil
import subprocess
import sys
import tempfile
from concurrent.futures import ProcessPoolExecutor

sys.path.insert(0, os.path.dirname(os.path.abspath(__file__)))
import mutscan  # noqa: E402

VERIF = mutscan.VERIF
REPO = mutscan.REPO


def renames(rel, src, per_function):
    tree = ast.parse(src)
    lines = src.splitlines(keepends=True)
    offs = [0]
    for ln in lines:
        offs.append(offs[-1] + len(ln.encode()))
    out = []
    all_names = {n.id for n in ast.walk(tree) if isinstance(n, ast.Name)} | {a.arg for f in ast.walk(tree) if isinstance(f, (ast.FunctionDef, ast.Lambda)) for a in f.args.args}
    for fn in ast.walk(tree):
        if not isinstance(fn, ast.FunctionDef):
            continue
        nested = [x for x in ast.walk(fn) if isinstance(x, (ast.FunctionDef, ast.Lambda, ast.ListComp, ast.DictComp, ast.SetComp, ast.GeneratorExp)) and x is not fn]
        inner_nodes = {id(y) for x in nested for y in ast.walk(x)}
        params = {a.arg for a in fn.args.posonlyargs + fn.args.args + fn.args.kwonlyargs} | ({fn.args.vararg.arg} if fn.args.vararg else set()) | ({fn.args.kwarg.arg} if fn.args.kwarg else set())
        declared = {n for s in ast.walk(fn) if isinstance(s, (ast.Global, ast.Nonlocal)) for n in s.names}
        stored = []
        for n in ast.walk(fn):
            if isinstance(n, ast.Name) and isinstance(n.ctx, ast.Store) and id(n) not in inner_nodes and n.id not in params and n.id not in declared and n.id not in stored:
                stored.append(n.id)
        inner_used = {y.id for x in nested for y in ast.walk(x) if isinstance(y, ast.Name)}
        cands = [v for v in stored if v not in inner_used and v + "_r" not in all_names and not v.startswith("_")]
        step = max(1, len(cands) // per_function) if cands else 1
        for v in cands[::step][:per_function]:
            sites = [n for n in ast.walk(fn) if isinstance(n, ast.Name) and n.id == v and id(n) not in inner_nodes]
            edits = sorted({(offs[n.lineno - 1] + n.col_offset, offs[n.end_lineno - 1] + n.end_col_offset) for n in sites}, reverse=True)
            out.append({"file": rel, "function": fn.name, "line": fn.lineno, "end": fn.end_lineno, "name": v, "edits": edits})
    return out


def run_one(job):
    m, props = job
    scratch = tempfile.mkdtemp(prefix="veq_")
    try:
        shutil.copytree(os.path.join(REPO, "bempp_cl"), os.path.join(scratch, "bempp_cl"), ignore=shutil.ignore_patterns("__pycache__", "*.npz", "*.npy", "*.msh"))
        p = os.path.join(scratch, m["file"])
        b = open(p, "rb").read()
        for a, e in m["edits"]:
            b = b[:a] + (m["name"] + "_r").encode() + b[e:]
        try:
            ast.parse(b.decode())
        except SyntaxError:
            return dict(m, status="does-not-parse")
        open(p, "wb").write(b)
        env = dict(os.environ, VERIF_REPO=scratch, VERIF_OUT=os.path.join(scratch, "out"))
        res = {}
        for pr in props:
            r = subprocess.run(["/venv/bin/python", "-B", "-m", "sa.run", pr, "--tier", "quick"], cwd=VERIF, env=env, capture_output=True, text=True)
            last = [l for l in r.stdout.splitlines() if l.startswith(("VIOLATION", "ANALYSIS-ERROR", "  report:"))][:1]
            res[pr] = {"exit": r.returncode, "line": last[0][:240] if last else ""}
        codes = [v["exit"] for v in res.values()]
        status = "false-alarm" if 1 in codes else ("cannot-analyse" if 2 in codes else "silent")
        return dict(m, edits=len(m["edits"]), status=status, results=res)
    finally:
        shutil.rmtree(scratch, ignore_errors=True)


def main():
    ap = argparse.ArgumentParser()
    ap.add_argument("--file", default="")
    ap.add_argument("--per-function", type=int, default=1)
    ap.add_argument("--jobs", type=int, default=16)
    ap.add_argument("--out", default=os.path.join(VERIF, "selftest", "eqscan.json"))
    a = ap.parse_args()
    ranges = mutscan.anchor_ranges()
    jobs = []
    for rel, rs in sorted(ranges.items()):
        if a.file and rel != a.file:
            continue
        path = os.path.join(REPO, rel)
        if not rel.endswith(".py") or not os.path.exists(path):
            continue
        src = open(path, newline="").read()
        for m in renames(rel, src, a.per_function):
            props = sorted({p for lo, hi, p in rs if lo <= m["end"] and m["line"] <= hi})
            if props:
                jobs.append((m, props))
    print("rewrites: %d" % len(jobs), flush=True)
    with ProcessPoolExecutor(a.jobs) as ex:
        results = list(ex.map(run_one, jobs, chunksize=1))
    tally = {}
    for r in results:
        tally[r["status"]] = tally.get(r["status"], 0) + 1
    json.dump({"tally": tally, "results": results}, open(a.out, "w"), indent=0)
    for r in results:
        if r["status"] != "silent":
            bad = [(p, v["exit"], v["line"]) for p, v in r.get("results", {}).items() if v["exit"]]
            print("%-14s %s::%s rename `%s`  %s" % (r["status"].upper(), r["file"], r["function"], r["name"], bad[:2]))
    print("TALLY", tally)


if __name__ == "__main__":
    main()
