#!/bin/sh
# usage: seed_tests.sh <seed-id> <worktree> <pytest node ids ...>
# Runs the named baseline tests in the scratch worktree WITH the seeded change applied (they must still pass).
set -u
id=$1; wt=$2; shift 2
out=/verif/seeded/$id
( cd "$wt" && PYTHONPATH="$wt" timeout 14400 /venv/bin/python -m pytest -q -p no:cacheprovider --timeout=7200 "$@" ) > "$out/tests_with_change.full.txt" 2>&1
rc=$?
tail -n 6 "$out/tests_with_change.full.txt" | cut -c1-300 > "$out/tests_with_change.txt"
rm -f "$out/tests_with_change.full.txt"
echo "TESTS $id exit=$rc: $*" | tee -a "$out/verify.log"
