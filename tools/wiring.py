#!/usr/bin/env python3
"""Which functions does a property's anchored code REACH (calls, constructors, properties; depth <= 3) that a rule of some
OTHER property reads - while no rule of this property does?

usage: wiring.py [--depth 3] [Cxx ...]

Seeded round 5 missed six of eight changes, and five of the six were reported at once by the check of another property:
the rule existed, it was attached to the property whose anchored range contains the code, and the statement of the
property under test depends on the same code two calls away (make_localised_space, barycentric_refinement, the DUAL1
tables, GridFunction.grid_coefficients).  This tool lists such (property, function, owner properties) triples so that
the wiring can be reviewed before a seed finds it.  Like tools/unread.py it is a reading list, not a check: nothing in
MANIFEST.json calls it.  The call graph is by name: same-module calls, `self.m()`, imported functions and classes
(constructor -> __init__), and attribute names that are defined as a method / property in exactly one class of the package.
"""
import ast
import importlib
import os
import sys

VERIF = os.path.dirname(os.path.dirname(os.path.abspath(__file__)))
sys.path.insert(0, VERIF)
sys.path.insert(0, os.path.join(VERIF, "tools"))
import mutscan  # noqa: E402
from sa import core, src  # noqa: E402


def load():
    repo = src.Repo(core.REPO)
    mods = {rel: repo.mod(rel) for rel in repo.py_files("bempp_cl")}
    fns = {}
    by_method = {}
    for rel, m in mods.items():
        for q, f in m.functions.items():
            if "<" in q:
                continue
            fns[(rel, q)] = f
            if "." in q:
                by_method.setdefault(q.split(".", 1)[1], []).append((rel, q))
    return mods, fns, by_method


def resolve(mods, rel, dotted):
    if dotted.startswith("."):
        lvl = len(dotted) - len(dotted.lstrip("."))
        base = rel.split("/")[:-1]
        parts = base[: len(base) - (lvl - 1)] + [x for x in dotted.lstrip(".").split(".") if x]
    else:
        parts = dotted.split(".")
    for k in (len(parts), len(parts) - 1):
        if k > 0:
            for f in ("/".join(parts[:k]) + ".py", "/".join(parts[:k]) + "/__init__.py"):
                if f in mods:
                    return f, parts[k:]
    return None, None


def edges(mods, fns, by_method):
    out = {}
    for (rel, q), f in fns.items():
        m = mods[rel]
        al = dict(m.aliases)
        for n in ast.walk(f):
            if isinstance(n, ast.ImportFrom):
                for a in n.names:
                    al[a.asname or a.name] = ("." * n.level) + (n.module or "") + "." + a.name
            elif isinstance(n, ast.Import):
                for a in n.names:
                    al[a.asname or a.name.split(".")[0]] = a.name
        tgt = set()

        def add(r2, name):
            m2 = mods[r2]
            if name in m2.functions:
                tgt.add((r2, name))
            elif name in m2.classes and (name + ".__init__") in m2.functions:
                tgt.add((r2, name + ".__init__"))

        for n in ast.walk(f):
            if isinstance(n, ast.Call) and isinstance(n.func, ast.Name):
                if n.func.id in m.functions or n.func.id in m.classes:
                    add(rel, n.func.id)
                elif n.func.id in al:
                    r2, rest = resolve(mods, rel, al[n.func.id])
                    if r2 and len(rest) == 1:
                        add(r2, rest[0])
            elif isinstance(n, ast.Attribute):
                txt = src.unparse(n)
                head = txt.split(".")[0]
                if isinstance(n.value, ast.Name) and n.value.id == "self" and "." in q and (q.split(".")[0] + "." + n.attr) in m.functions:
                    tgt.add((rel, q.split(".")[0] + "." + n.attr))
                elif head in al and head not in m.functions:
                    r2, rest = resolve(mods, rel, al[head] + txt[len(head):])
                    if r2 and len(rest) == 1:
                        add(r2, rest[0])
                elif len(by_method.get(n.attr, ())) == 1 and not n.attr.startswith("__"):
                    tgt.add(by_method[n.attr][0])
        out[(rel, q)] = tgt - {(rel, q)}
    return out


def anchored(prop, fns):
    out = set()
    for rel, rs in mutscan.anchor_ranges().items():
        mine = [(lo, hi) for lo, hi, p in rs if p == prop]
        for (r2, q), f in fns.items():
            if r2 == rel and any(lo <= f.end_lineno and f.lineno <= hi for lo, hi in mine):
                out.add((r2, q))
    return out


def main():
    args = sys.argv[1:]
    depth = 3
    if "--depth" in args:
        depth = int(args[args.index("--depth") + 1])
        del args[args.index("--depth"): args.index("--depth") + 2]
    props = [a.upper() for a in args] or ["C%02d" % i for i in range(1, 21)]
    mods, fns, by_method = load()
    E = edges(mods, fns, by_method)
    fetched = {}
    for prop in ["C%02d" % i for i in range(1, 21)]:
        src.FETCHED.clear()
        mod = importlib.import_module("sa.props." + prop.lower())
        try:
            mod.run(core.Ctx(prop, "quick", 0))
        except core.AnalysisError as e:
            print("%s: analysis error %s" % (prop, e))
        fetched[prop] = set(src.FETCHED) | {(rel, q.split(".<")[0]) for rel, q in src.FETCHED}
    owners = {}
    for p, fs in fetched.items():
        for k in fs:
            owners.setdefault(k, set()).add(p)
    for prop in props:
        seen = {k: 0 for k in anchored(prop, fns)}
        frontier = set(seen)
        for d in range(1, depth + 1):
            nxt = set()
            for k in frontier:
                for t in E.get(k, ()):
                    if t not in seen:
                        seen[t] = d
                        nxt.add(t)
            frontier = nxt
        cand = sorted((seen[k], k, sorted(owners[k])) for k in seen if k in owners and k not in fetched[prop])
        print("%s: reaches %d functions within %d calls; %d of them are read by rules of other properties only" % (prop, len(seen), depth, len(cand)))
        for d, (rel, q), own in cand:
            n = fns[(rel, q)].end_lineno - fns[(rel, q)].lineno + 1
            if n >= 4:
                print("   depth %d  %s::%s (%d lines)  read by %s" % (d, rel.replace("bempp_cl/", ""), q, n, " ".join(own)))


if __name__ == "__main__":
    main()
