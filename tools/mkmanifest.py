#!/usr/bin/env python3
"""Regenerate MANIFEST.json from the metadata in sa/props/*.py."""
import importlib, json, os, sys
ROOT = os.path.dirname(os.path.dirname(os.path.abspath(__file__)))
sys.path.insert(0, ROOT)
PENDING = {}
NA_REASON = {}
checks, na = [], []
for i in range(1, 21):
    pid = "C%02d" % i
    path = os.path.join(ROOT, "sa", "props", pid.lower() + ".py")
    if os.path.exists(path):
        m = importlib.import_module("sa.props." + pid.lower())
        checks.append({
            "property_id": pid,
            "quick_cmd": "./check %s --tier quick" % pid,
            "thorough_cmd": "./check %s --tier thorough" % pid,
            "evidence_file": "evidence/%s.json" % pid,
            "replay_cmd_template": "./check %s --replay {path}" % pid,
            "engine": "sa",
            "level_claimed": {"category": m.LEVEL, "text": m.LEVEL_TEXT, "design_ref": "DESIGN.md section 3, %s" % pid},
            "level_note": m.LEVEL_NOTE,
            "technique": m.TECHNIQUE,
        })
    else:
        na.append({"property_id": pid, "reason": NA_REASON.get(pid, "static check designed (DESIGN.md section 3) but not built yet; not claimed until it runs clean")})
man = {
    "version": 1,
    "setup_cmd": "true",
    "hooks": {
        "guard": "BEMPP_CL_VERIF",
        "enable": "none needed: every check parses /repo's working tree (ast / C-subset parser); nothing is executed or instrumented",
        "baseline_off_cmd": "cd /repo && /venv/bin/python -m pytest -ra -q -p no:cacheprovider --timeout=900 --continue-on-collection-errors",
        "source_commits": [],
        "add_only": True,
    },
    "engines": [
        {"name": "sa", "path": "sa/", "serves_properties": [c["property_id"] for c in checks],
         "kind_free_text": "repository-specific static analysis: source model, symbolic normal-form extractor (KEX), index/role typing, prange effect analysis, literal-table lints, class-protocol lints, global-state effect analysis; stdlib only"},
    ],
    "checks": checks,
    "not_applicable": na,
    "notes": "Static analysis only; see DESIGN.md. Exit 2 + ANALYSIS-ERROR means an anchor vanished or a construct is outside the analysable subset (never a verdict). The rules are total, so quick and thorough decide the same clauses; thorough widens the exhaustive sweeps where there are any and additionally measures the check's discriminating power on the current tree (the property's mutants of sa/selftest.py must be reported, its behaviour-preserving rewrites must stay silent; recorded in the evidence under mutation_adequacy, informational; plus a deterministic sample of 48 machine-generated mutants inside the property's anchored line ranges, recorded under generated_mutant_sample).",
}
json.dump(man, open(os.path.join(ROOT, "MANIFEST.json"), "w"), indent=1)
print("checks:", [c["property_id"] for c in checks], "n/a:", len(na))
