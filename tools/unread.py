#!/usr/bin/env python3
"""Which functions inside (or called from) the anchored ranges of a property does no rule of that property fetch by name?

usage: unread.py [Cxx ...]

Every miss of the seeded rounds was in a function no rule read (l2_norm, make_localised_space, Grid.__eq__, the BC fan
helpers, the potential evaluator closure).  This tool lists such functions before a seed finds them: for each property
it runs the check in-process, records every `Module.fn(name)` the rules performed (sa.src.FETCHED), and compares with
the functions that overlap the property's anchored line ranges plus their same-module callees (one level).  A listed
function is not necessarily unread (rules that sweep all functions of a package - the lints - do not fetch by name),
and not every listed function carries a clause; it is a reading list, not a verdict.
"""
import ast
import importlib
import os
import sys

VERIF = os.path.dirname(os.path.dirname(os.path.abspath(__file__)))
sys.path.insert(0, VERIF)
sys.path.insert(0, os.path.join(VERIF, "tools"))
import mutscan  # noqa: E402
from sa import core, src  # noqa: E402


def anchored_functions(prop):
    out = {}
    for rel, rs in mutscan.anchor_ranges().items():
        mine = [(lo, hi) for lo, hi, p in rs if p == prop]
        path = os.path.join(core.REPO, rel)
        if not mine or not rel.endswith(".py") or not os.path.exists(path):
            continue
        tree = ast.parse(open(path).read())
        top = {}
        for n in tree.body:
            if isinstance(n, ast.FunctionDef):
                top[n.name] = n
            elif isinstance(n, ast.ClassDef):
                for s in n.body:
                    if isinstance(s, ast.FunctionDef):
                        top[n.name + "." + s.name] = s
        hit = {q for q, f in top.items() if any(lo <= f.end_lineno and f.lineno <= hi for lo, hi in mine)}
        callees = set()
        for q in hit:
            for c in ast.walk(top[q]):
                if isinstance(c, ast.Call) and isinstance(c.func, ast.Name) and c.func.id in top:
                    callees.add(c.func.id)
                if isinstance(c, ast.Call) and isinstance(c.func, ast.Attribute) and isinstance(c.func.value, ast.Name) and c.func.value.id == "self" and "." in q:
                    m = q.split(".")[0] + "." + c.func.attr
                    if m in top:
                        callees.add(m)
        for q in hit | callees:
            out[(rel, q)] = ("anchored" if q in hit else "callee", top[q].lineno, top[q].end_lineno - top[q].lineno + 1)
    return out


def main():
    props = [a.upper() for a in sys.argv[1:]] or ["C%02d" % i for i in range(1, 21)]
    for prop in props:
        src.FETCHED.clear()
        mod = importlib.import_module("sa.props." + prop.lower())
        ctx = core.Ctx(prop, "quick", 0)
        try:
            mod.run(ctx)
        except core.AnalysisError as e:
            print("%s: analysis error %s" % (prop, e))
            continue
        want = anchored_functions(prop)
        fetched = set(src.FETCHED) | {(rel, q.split(".<")[0]) for rel, q in src.FETCHED}
        miss = sorted((k, v) for k, v in want.items() if k not in fetched and not k[1].split(".")[-1].startswith("__repr"))
        print("%s: %d anchored / called functions, %d not fetched by name" % (prop, len(want), len(miss)))
        for (rel, q), (kind, line, n) in miss:
            if n >= 4:
                print("   %-8s %s::%s (line %d, %d lines)" % (kind, rel.replace("bempp_cl/", ""), q, line, n))


if __name__ == "__main__":
    main()
