"""C14: `+` and unary `-` of the concrete discrete operator classes (dense, sparse, diagonal).

These classes override __add__ / __neg__ of the base class to stay in their own representation:
`Dense(self.to_dense() + other.to_dense())`.  The term is read by abstract execution of the method for an operand of the
same class (dispatch.select) and evaluated in the non-commutative term algebra: the representation accessors are
additive morphisms, the class constructor wraps a representation.  Expected: A + B and -A.
"""

import ast

from . import dispatch
from .core import AnalysisError
from .proto import NC
from .src import arg_names, unparse

DO = "bempp_cl/api/assembly/discrete_boundary_operator.py"
REPS = ("to_dense", "to_sparse", "get_diagonal", "A", "_impl", "_values")


def _path_term(st, env, cls, o, A, B):
    """Term returned by the method `st` on the path the inputs `env` select, with the straight-line locals of that path
    folded in: `t = X.to_dense().copy(); t += Y.to_dense(); return Cls(t)` denotes X + Y.  None: the path raises or
    returns nothing."""
    effs = dispatch.effects(st.body, env, "%s.%s" % (cls, st.name))
    loc = {}
    ex = lambda txt: ast.parse(txt, mode="eval").body
    for e in effs:
        if e[0] == "set" and isinstance(e[2], str):
            try:
                loc[e[1]] = _term(ex(e[2]), cls, o, A, B, loc)
            except (AnalysisError, SyntaxError):
                loc.pop(e[1], None)
        elif e[0] == "set":
            loc.pop(e[1], None)
        elif e[0] == "aug" and e[1] in loc and e[2] in ("Add", "Sub"):
            v = _term(ex(e[3]), cls, o, A, B, loc)
            loc[e[1]] = loc[e[1]] + v if e[2] == "Add" else loc[e[1]] - v
        elif e[0] == "aug" and e[1] in loc and e[2] in ("Mult", "MatMult"):
            loc[e[1]] = loc[e[1]] * _term(ex(e[3]), cls, o, A, B, loc)
        elif e[0] == "aug":
            loc.pop(e[1], None)
        elif e[0] == "return":
            return None if e[1] is None else _term(ex(e[1]), cls, o, A, B, loc)
        elif e[0] == "raise":
            return None
        elif e[0] in ("store", "loop"):
            raise AnalysisError("%s.%s: the selected path stores into an object or loops before it returns: %s" % (cls, st.name, str(e)[:80]))
    return None


def _term(n, cls, o, A, B, loc=None):
    if isinstance(n, ast.Name) and loc and n.id in loc:
        return loc[n.id]
    if isinstance(n, ast.Call) and isinstance(n.func, ast.Attribute) and n.func.attr in ("copy", "astype") and (n.func.attr == "astype" or not n.args):
        return _term(n.func.value, cls, o, A, B, loc)  # the same matrix in fresh storage / another precision
    if isinstance(n, ast.Call) and unparse(n.func).split(".")[-1] in ("asarray", "ascontiguousarray", "array", "asanyarray") and len(n.args) == 1:
        return _term(n.args[0], cls, o, A, B, loc)
    if isinstance(n, ast.Constant) and isinstance(n.value, (int, float)) and not isinstance(n.value, bool) and n.value == int(n.value):
        return NC.const(int(n.value))
    if isinstance(n, ast.UnaryOp) and isinstance(n.op, ast.USub):
        return NC.const(-1) * _term(n.operand, cls, o, A, B, loc)
    if isinstance(n, ast.BinOp) and isinstance(n.op, (ast.Add, ast.Sub)):
        l, r = _term(n.left, cls, o, A, B, loc), _term(n.right, cls, o, A, B, loc)
        return l + r if isinstance(n.op, ast.Add) else l - r
    if isinstance(n, ast.Call):
        f = n.func
        if isinstance(f, ast.Name) and f.id == cls and len(n.args) == 1 and not n.keywords:
            return _term(n.args[0], cls, o, A, B, loc)
        if isinstance(f, ast.Attribute) and f.attr in REPS and not n.args and isinstance(f.value, ast.Name) and f.value.id in ("self", o):
            return A if f.value.id == "self" else B
    if isinstance(n, ast.Attribute) and n.attr in REPS and isinstance(n.value, ast.Name) and n.value.id in ("self", o):
        return A if n.value.id == "self" else B
    if isinstance(n, ast.BinOp) and isinstance(n.op, (ast.Mult, ast.MatMult)):
        return _term(n.left, cls, o, A, B, loc) * _term(n.right, cls, o, A, B, loc)
    if isinstance(n, ast.Name) and n.id == o and B is not None and not any(w for (_, w) in B.t):
        return B  # the other operand is a scalar in this world
    if isinstance(n, ast.Call) and isinstance(n.func, ast.Attribute) and n.func.attr == "type" and len(n.args) == 1 and unparse(n.func.value).split("(")[0].split(".")[-1] == "dtype":
        return _term(n.args[0], cls, o, A, B, loc)  # np.dtype("float32").type(s): the scalar s in another precision
    raise AnalysisError("%s: expression outside the term subset: %s" % (cls, unparse(n)[:60]))


def subclass_products(ctx):
    """dot / __mul__ / __rmul__ of the dense, sparse and diagonal operators for an operand of the same class and for a
    scalar (every dtype branch): the representation of the result is the product, operands in order."""
    r = ctx.rule("DUNDER-SUBCLASS-MUL", "dense / sparse / diagonal discrete operators: A * B, A.dot(B) (same class) build the operator of the product of the representations (A first); s * A, A * s, A.dot(s) the scaled one, "
                 "in single and double precision and for real and complex scalars", 12)
    from . import roles

    m = ctx.repo.mod(DO)
    A, Bop, s_ = NC.op("A"), NC.op("B"), NC.scalar("s")
    n = 0
    for cname, cnode in m.classes.items():
        if cname.startswith("_"):
            continue
        meths = {st.name: st for st in cnode.body if isinstance(st, ast.FunctionDef)}
        for mname in ("__mul__", "dot", "__rmul__", "__matmul__"):
            st = meths.get(mname)
            if st is None or len(arg_names(st)) < 2:
                continue
            o = arg_names(st)[1]
            worlds = []
            if mname != "__rmul__":
                worlds.append(("operator of the same class", Bop, {"isinstance(%s, %s)" % (o, cname): True, "_np.isscalar(%s)" % o: False, "np.isscalar(%s)" % o: False}))
            for dt in ("float32", "float64", "complex64", "complex128"):
                for cx in (False, True):
                    worlds.append(("scalar (%s operator, %s scalar)" % (dt, "complex" if cx else "real"), s_,
                                   {"isinstance(%s, %s)" % (o, cname): False, "_np.isscalar(%s)" % o: True, "np.isscalar(%s)" % o: True, "_np.iscomplexobj(%s)" % o: cx, "np.iscomplexobj(%s)" % o: cx,
                                    "self._impl.dtype": dt, "self.dtype": dt, "self.get_diagonal().dtype": dt, "self._values.dtype": dt}))
            for wname, other, env in worlds:
                try:
                    kind, node = dispatch.select(st, env)
                except AnalysisError:
                    continue  # a test this world does not decide (e.g. another dtype attribute): not judged
                if kind != "return" or node is None:
                    continue
                node = roles.inline(node, roles.Defs(st))
                txt = unparse(node).replace(" ", "")
                if txt.startswith("super()") or txt == "NotImplemented":
                    continue  # delegated to the generic combinators (rules DUNDER-ALGEBRA / HOMOMORPHISM)
                if txt in ("self.dot(%s)" % o, "self.__mul__(%s)" % o, "self.__matmul__(%s)" % o):
                    continue  # forwarded to a sibling method judged on its own
                want = A * other if other is Bop else s_ * A
                got = _term(node, cname, o, A, other)  # (an expression outside the term subset: cannot analyse, not a verdict)
                ok, msg = got == want, "%s.%s for a %s builds %r, the expression denotes %r" % (cname, mname, wname, got, want)
                n += 1
                r.check(ok, "%s.%s: %s" % (cname, mname, wname), DO, "%s.%s" % (cname, mname), st.lineno, "%s.%s %s" % (cname, mname, wname), msg)
    if n < 12:
        raise AnalysisError("only %d product branches of the discrete operator subclasses were judged" % n)


def subclass_dunders(ctx):
    r = ctx.rule("DUNDER-SUBCLASS", "dense / sparse / diagonal discrete operators: A + B (same class) and -A build the operator whose representation is the sum / the negative of the operands' representations", 6)
    m = ctx.repo.mod(DO)
    A, B = NC.op("A"), NC.op("B")
    n = 0
    for cname, cnode in m.classes.items():
        for st in cnode.body:
            if not (isinstance(st, ast.FunctionDef) and st.name in ("__add__", "__neg__", "__sub__")):
                continue
            if cname.startswith("_DiscreteOperatorBase"):
                continue
            pa = arg_names(st)
            o = pa[1] if len(pa) > 1 else "‹none›"
            env = {"isinstance(%s, %s)" % (o, cname): True, "self.shape": (3, 3), "%s.shape" % o: (3, 3)}
            want = {"__add__": A + B, "__sub__": A - B, "__neg__": NC.const(-1) * A}[st.name]
            ok, msg = False, "%s.%s raises or returns nothing for an operand of its own class and equal shape" % (cname, st.name)
            got = _path_term(st, env, cname, o, A, B)  # (an expression outside the term subset: cannot analyse, not a verdict)
            if got is not None:
                ok, msg = got == want, "%s.%s builds %r, the expression denotes %r" % (cname, st.name, got, want)
            n += 1
            r.check(ok, "%s.%s" % (cname, st.name), DO, "%s.%s" % (cname, st.name), st.lineno, "%s.%s term" % (cname, st.name), msg)
    if n < 6:
        raise AnalysisError("only %d overriding __add__/__neg__ methods found in the discrete operator classes" % n)
    complex_flags(ctx, m)
    bad = ast.parse("def __neg__(self):\n    return DenseDiscreteBoundaryOperator(self.to_dense())").body[0]
    k, node = dispatch.select(bad, {})
    r.must_fire(_term(node, "DenseDiscreteBoundaryOperator", "x", A, B) != NC.const(-1) * A, "negation that returns the operator itself")


def complex_flags(ctx, m):
    """dtype-derived flags that select the real-on-complex path, over the finite domain of dtypes."""
    r = ctx.rule("COMPLEX-FLAGS", "flags and dtypes derived from operand dtypes: the matvec-only operator splits complex vectors exactly when its own dtype is real; a rank-one operator is complex exactly when a factor is", 8)
    fn = m.fn("GenericDiscreteBoundaryOperator.__init__")
    flag = [s for s in fn.body if isinstance(s, ast.Assign) and unparse(s.targets[0]) == "self._is_complex"]
    mv = m.fn("GenericDiscreteBoundaryOperator._matvec")
    if len(flag) != 1:
        raise AnalysisError("GenericDiscreteBoundaryOperator.__init__: self._is_complex is not assigned once")
    for dt in ("float32", "float64", "complex64", "complex128"):
        try:
            v = bool(dispatch.value(flag[0].value, {"self.dtype": dt, "evaluator.dtype": dt}))
        except dispatch.Unknown as u:
            raise AnalysisError("GenericDiscreteBoundaryOperator._is_complex is not decided by the dtype name: %s" % u)
        # what _matvec does with a complex vector under this flag value
        kind, node = dispatch.select(mv, {"self._is_complex": v, "_np.iscomplexobj(x)": True, "np.iscomplexobj(x)": True})
        split = node is not None and "real(" in unparse(node) and "imag(" in unparse(node)
        want_split = not dt.startswith("complex")
        r.check(split == want_split, "GenericDiscreteBoundaryOperator dtype %s, complex vector" % dt, DO, "GenericDiscreteBoundaryOperator._matvec", mv.lineno, "real-on-complex split for dtype " + dt,
                "an operator of dtype %s applied to a complex vector %s real and imaginary parts (flag _is_complex = %s)" % (dt, "does not split into" if want_split else "splits into", v))
    fn = m.fn("DiscreteRankOneOperator.__init__")
    body = [s for s in fn.body if not (isinstance(s, ast.Expr) and isinstance(s.value, ast.Constant))]
    pa = arg_names(fn)
    for a in ("float64", "complex128"):
        for b in ("float64", "complex128"):
            effs = dispatch.effects(body, {"%s.dtype" % pa[1]: a, "%s.dtype" % pa[2]: b}, "DiscreteRankOneOperator.__init__")
            sets = {e[1]: e[2] for e in effs if e[0] == "set"}
            sup = [e for e in effs if e[0] == "call" and "__init__" in e[1]]
            got = None
            if sup:
                arg0 = ast.parse(sup[0][1], mode="eval").body.args[0]
                got = sets.get(unparse(arg0), unparse(arg0).strip("'\""))
            want = "complex128" if "complex128" in (a, b) else "float64"
            r.check(got == want, "DiscreteRankOneOperator dtypes (%s, %s)" % (a, b), DO, "DiscreteRankOneOperator.__init__", fn.lineno, "rank-one dtype for (%s, %s)" % (a, b),
                    "factors of dtype %s and %s give an operator of dtype %s, expected %s" % (a, b, got, want))


def real_on_complex(ctx):
    """A real operator applied to a complex vector / matrix acts on real and imaginary part: whatever the operator's
    precision, the complex operand must not be cast to the operator's real dtype as a whole."""
    r = ctx.rule("REAL-ON-COMPLEX", "dense / sparse _matmat: for a real operator (single or double precision) and a complex operand the executed path casts only real(x) / imag(x) to the operator's dtype, never x itself (a cast of a complex array to a real dtype drops the imaginary part)", 4)
    m = ctx.repo.mod(DO)
    n = 0
    for cname, dts in (("DenseDiscreteBoundaryOperator", ("float32", "float64")), ("SparseDiscreteBoundaryOperator", ("float64",)), ("GenericDiscreteBoundaryOperator", ("float32", "float64"))):
        for mname in ("_matmat", "_matvec"):
            if not m.has_fn("%s.%s" % (cname, mname)):
                continue
            fn = m.fn("%s.%s" % (cname, mname))
            x = arg_names(fn)[1]
            for dt in dts:
                env = {"self.dtype": dt, "self._impl.dtype": dt, "self._dtype": dt, "self._is_complex": False}
                for np_ in ("_np", "np"):
                    env["%s.iscomplexobj(%s)" % (np_, x)] = True
                    for t_ in ("float32", "float64", "complex64", "complex128"):  # the spellings of a dtype constant
                        env["%s.%s" % (np_, t_)] = t_
                        env["%s.dtype('%s')" % (np_, t_)] = t_
                    for rep in ("self.to_dense()", "self.to_sparse()", "self._impl", "self.A"):
                        env["%s.iscomplexobj(%s)" % (np_, rep)] = False
                try:
                    kind, node = dispatch.select(fn, env)
                except AnalysisError as e:
                    raise AnalysisError("%s.%s: the path for a real operator and a complex operand is not decided: %s" % (cname, mname, e))
                if kind != "return" or node is None:
                    continue
                lossy = []
                for c in ast.walk(node):
                    if isinstance(c, ast.Call) and isinstance(c.func, ast.Attribute) and c.func.attr == "astype" and c.args and unparse(c.args[0]).replace(" ", "") in ("self.dtype", "self._dtype", "self._impl.dtype", repr(dt), '"%s"' % dt):
                        recv = c.func.value
                        parts = [y for y in ast.walk(recv) if isinstance(y, ast.Call) and unparse(y.func).split(".")[-1] in ("real", "imag")]
                        inside = {id(z) for p in parts for z in ast.walk(p)}
                        if any(isinstance(z, ast.Name) and z.id == x and id(z) not in inside for z in ast.walk(recv)):
                            lossy.append(unparse(c)[:60])
                n += 1
                r.check(not lossy, "%s.%s, %s operator" % (cname, mname, dt), DO, "%s.%s" % (cname, mname), fn.lineno, "complex operand of a real %s operator" % dt,
                        "for a real operator of dtype %s and a complex operand the method returns `%s`: %s casts the complex operand to the real dtype, its imaginary part is dropped" % (dt, unparse(node)[:80], lossy))
    if n < 4:
        raise AnalysisError("real-on-complex: only %d (class, dtype) paths judged" % n)


def _tc(n, cls):
    """(base text, transposed?, conjugated?) of a representation expression: attribute / method chains over one base
    with .T (the loader's spelling of .transpose()) and .conjugate() / .conj() toggling the two flags."""
    t = c = False
    while True:
        if isinstance(n, ast.Call) and isinstance(n.func, ast.Name) and n.func.id == cls and len(n.args) == 1 and not n.keywords:
            n = n.args[0]
        elif isinstance(n, ast.Attribute) and n.attr == "T":
            t, n = not t, n.value
        elif isinstance(n, ast.Attribute) and n.attr == "H":
            t, c, n = not t, not c, n.value
        elif isinstance(n, ast.Call) and isinstance(n.func, ast.Attribute) and n.func.attr in ("conjugate", "conj") and not n.args:
            c, n = not c, n.func.value
        elif isinstance(n, ast.Call) and unparse(n.func).split(".")[-1] in ("conj", "conjugate") and len(n.args) == 1:
            c, n = not c, n.args[0]
        else:
            return unparse(n).replace(" ", ""), t, c


def transpose_adjoint(ctx):
    """_transpose / _adjoint of the discrete operators, and the transposed boundary operator."""
    from . import roles

    r = ctx.rule("TRANSPOSE-ADJOINT", "discrete operators: _transpose builds the operator of the transposed representation, _adjoint of the conjugate transposed one (diagonal: conjugate; rank one: factors exchanged / exchanged and conjugated); "
                 "the transposed boundary operator exchanges domain and dual space and toggles the transposition flag, which _assemble honours", 9)
    m = ctx.repo.mod(DO)
    reps = {"DenseDiscreteBoundaryOperator": ("self.to_dense()", "self._impl", "self.A"), "SparseDiscreteBoundaryOperator": ("self.to_sparse()", "self._impl", "self.A"),
            "DiagonalOperator": ("self.get_diagonal()", "self._values")}
    for cname, bases in reps.items():
        for meth, want_c in (("_transpose", False), ("_adjoint", True)):
            fn = m.fn("%s.%s" % (cname, meth))
            rets = [s for s in ast.walk(fn) if isinstance(s, ast.Return) and s.value is not None]
            ok, why = None, "no single return"
            if len(rets) == 1:
                v = roles.inline(rets[0].value, roles.Defs(fn))
                if cname == "DiagonalOperator" and unparse(v) == "self" and not want_c:
                    ok, why = True, ""
                else:
                    base, t, c = _tc(v, cname)
                    wrapped = isinstance(v, ast.Call) and isinstance(v.func, ast.Name) and v.func.id == cname
                    want_t = None if cname == "DiagonalOperator" else True
                    ok = wrapped and base in bases and (want_t is None or t == want_t) and c == want_c
                    why = "%s.%s returns `%s` = %s%s of `%s`%s; expected %s" % (cname, meth, unparse(v)[:70], "transposed " if t else "", "conjugate" if c else "unconjugated", base,
                                                                                 "" if wrapped else " (not wrapped in %s)" % cname, "the conjugate transposed representation" if want_c else "the transposed representation")
            r.check(ok, "%s.%s" % (cname, meth), DO, "%s.%s" % (cname, meth), fn.lineno, "%s.%s" % (cname, meth), why)
    # rank one: u v^T -> v u^T, conj(v) conj(u)^T
    init = m.fn("DiscreteRankOneOperator.__init__")
    pa = arg_names(init)[1:3]  # (column, row)
    slots = {}
    for s in ast.walk(init):
        if isinstance(s, ast.Assign) and isinstance(s.targets[0], ast.Attribute) and unparse(s.targets[0].value) == "self":
            b, _, _ = _tc(s.value.func.value if isinstance(s.value, ast.Call) and isinstance(s.value.func, ast.Attribute) and s.value.func.attr in ("ravel", "flatten") else s.value, "‹none›")
            if b in pa:
                slots["self." + s.targets[0].attr] = b
    for meth, want_c in (("_transpose", False), ("_adjoint", True)):
        fn = m.fn("DiscreteRankOneOperator." + meth)
        rets = [s for s in ast.walk(fn) if isinstance(s, ast.Return) and s.value is not None]
        ok, why = None, "no single return of DiscreteRankOneOperator(column, row)"
        if len(rets) == 1 and isinstance(rets[0].value, ast.Call) and unparse(rets[0].value.func) == "DiscreteRankOneOperator" and len(rets[0].value.args) == 2 and not rets[0].value.keywords:
            got = [_tc(roles.inline(a, roles.Defs(fn)), "‹none›") for a in rets[0].value.args]
            ok = [slots.get(g[0]) for g in got] == [pa[1], pa[0]] and all(g[2] == want_c for g in got)
            why = "DiscreteRankOneOperator.%s builds (column, row) = (%s%s, %s%s); expected (%srow, %scolumn) of the operator" % (
                meth, "conj " if got[0][2] else "", slots.get(got[0][0], got[0][0]), "conj " if got[1][2] else "", slots.get(got[1][0], got[1][0]), "conj " if want_c else "", "conj " if want_c else "")
        r.check(ok, "DiscreteRankOneOperator." + meth, DO, "DiscreteRankOneOperator." + meth, fn.lineno, "rank-one " + meth, why)
    # the transposed boundary operator
    BOP = "bempp_cl/api/assembly/boundary_operator.py"
    bm = ctx.repo.mod(BOP)
    ft = bm.fn("BoundaryOperatorWithAssembler._transpose")
    init = bm.fn("BoundaryOperatorWithAssembler.__init__")
    ip = arg_names(init)[1:]
    rng = arg_names(ft)[1]
    rets = [s for s in ast.walk(ft) if isinstance(s, ast.Return) and s.value is not None]
    ok, why = None, "no single return of BoundaryOperatorWithAssembler(...)"
    if len(rets) == 1 and isinstance(rets[0].value, ast.Call) and unparse(rets[0].value.func) == "BoundaryOperatorWithAssembler":
        c = rets[0].value
        got = dict(zip(ip, [unparse(a).replace(" ", "") for a in c.args]))
        got.update({k.arg: unparse(k.value).replace(" ", "") for k in c.keywords})
        flag = got.get(ip[5]) if len(ip) > 5 else None
        spaces_ok = got.get(ip[0]) in ("self._dual_to_range", "self.dual_to_range") and got.get(ip[2]) in ("self._domain", "self.domain") and got.get(ip[1]) == rng
        same = got.get(ip[3]) in ("self._assembler", "self.assembler") and got.get(ip[4]) in ("self._operator_descriptor", "self.descriptor")
        flag_ok = flag in ("notself.transpose_", "(notself.transpose_)")
        ok = spaces_ok and same and flag_ok
        why = ("the transposed operator is built with %s: spaces exchanged %s, same assembler / descriptor %s, transposition flag `%s` (expected `not self.transpose_`: with a constant True the transposed operator of a transposed "
               "operator announces the original spaces but assembles the transposed matrix)" % (got, spaces_ok, same, flag))
    r.check(ok, "BoundaryOperatorWithAssembler._transpose", BOP, "BoundaryOperatorWithAssembler._transpose", ft.lineno, "transposed boundary operator", why)
    fa = bm.fn("BoundaryOperatorWithAssembler._assemble")
    base = "self.assembler.assemble(self.descriptor)"
    res = {}
    for flag in (True, False):
        kind, node = dispatch.select(fa, {"self.transpose_": flag})
        res[flag] = unparse(node).replace(" ", "") if kind == "return" and node is not None else None
    alts = {base, "self._assembler.assemble(self._operator_descriptor)", "self.assembler.assemble(self._operator_descriptor)", "self._assembler.assemble(self.descriptor)"}
    oka = res[False] in alts and res[True] in {a + ".T" for a in alts}
    r.check(oka, "BoundaryOperatorWithAssembler._assemble", BOP, "BoundaryOperatorWithAssembler._assemble", fa.lineno, "assembly of a transposed operator",
            "with the flag set _assemble returns `%s`, without it `%s`; expected the assembled operator transposed / as it is" % (res[True], res[False]))


def blocked_to_dense(ctx):
    """BlockedDiscreteOperator.to_dense: vstack over block rows i of hstack over block columns j of block (i, j)."""
    from . import roles

    BL = "bempp_cl/api/assembly/blocked_operator.py"
    r = ctx.rule("BLOCK-DENSE", "blocked discrete operator: to_dense stacks block (i, j) at block row i, block column j (vstack of hstack over all rows / columns)", 1)
    fn = ctx.repo.mod(BL).fn("BlockedDiscreteOperator.to_dense")
    defs = roles.Defs(fn)
    ret = [s for s in ast.walk(fn) if isinstance(s, ast.Return)]
    ok, why = None, "not of the form vstack(rows) with rows built per block row"
    if len(ret) == 1 and isinstance(ret[0].value, ast.Call) and unparse(ret[0].value.func).split(".")[-1] == "vstack" and len(ret[0].value.args) == 1 and isinstance(ret[0].value.args[0], ast.Name):
        rows = ret[0].value.args[0].id
        loops = [s for s in fn.body if isinstance(s, ast.For) and isinstance(s.target, ast.Name) and unparse(s.iter).replace(" ", "") == "range(self._ndims[0])"]
        if len(loops) == 1:
            I = loops[0].target.id
            apps = [n for n in ast.walk(loops[0]) if isinstance(n, ast.Call) and unparse(n.func) == rows + ".append" and len(n.args) == 1]
            if len(apps) == 1 and isinstance(apps[0].args[0], ast.Call) and unparse(apps[0].args[0].func).split(".")[-1] == "hstack":
                row = apps[0].args[0].args[0]
                rowdef = row
                if isinstance(row, ast.Name):
                    d = defs.lookup(row.id, apps[0].lineno)
                    rowdef = d[1] if d and d[0] == "expr" else None
                if isinstance(rowdef, ast.ListComp) and len(rowdef.generators) == 1 and isinstance(rowdef.generators[0].target, ast.Name) and not rowdef.generators[0].ifs:
                    J = rowdef.generators[0].target.id
                    it_ok = unparse(rowdef.generators[0].iter).replace(" ", "") == "range(self._ndims[1])"
                    el = unparse(rowdef.elt).replace(" ", "")
                    el_ok = el in ("self[%s,%s].to_dense()" % (I, J), "self._operators[%s,%s].to_dense()" % (I, J))
                    ok = it_ok and el_ok
                    why = "row %s: columns over `%s` (expected range(self._ndims[1])), element `%s` (expected block [%s, %s].to_dense())" % (I, unparse(rowdef.generators[0].iter), unparse(rowdef.elt), I, J)
    r.check(ok, "BlockedDiscreteOperator.to_dense", BL, "BlockedDiscreteOperator.to_dense", fn.lineno, "blocked to_dense layout", why)


def zero_operator(ctx):
    """C14: the zero boundary operator is the neutral element of the in-place sums a blocked operator uses for its empty
    blocks (`blocked[i, j] += A`, `blocked[i, j] -= A` hand a fresh ZeroBoundaryOperator to `__iadd__` / `__isub__`):
    0 + A is A, 0 - A is -A, for compatible spaces; incompatible spaces raise."""
    from .proto import NCEval

    BOP = "bempp_cl/api/assembly/boundary_operator.py"
    m = ctx.repo.mod(BOP)
    r = ctx.rule("ZERO-OPERATOR", "ZeroBoundaryOperator: `Z += A` denotes A and `Z -= A` denotes -A for compatible spaces (the empty blocks of a blocked operator are filled through them); incompatible spaces are rejected", 4)
    Bt = NC.op("B")
    for meth, want in (("__iadd__", Bt), ("__isub__", NC.const(-1) * Bt)):
        fn = m.fn("ZeroBoundaryOperator." + meth)
        o = arg_names(fn)[1]
        same = {"self.domain": "d", "%s.domain" % o: "d", "self.range": "r", "%s.range" % o: "r", "self.dual_to_range": "t", "%s.dual_to_range" % o: "t",
                "self._domain": "d", "self._range": "r", "self._dual_to_range": "t"}
        kind, node = dispatch.select(fn, same)
        ok, msg = False, "%s raises or returns nothing for compatible spaces" % meth
        if kind == "return" and node is not None:
            got = NCEval({o: Bt}).ev(node)  # (an expression the algebra cannot read: cannot analyse)
            ok, msg = got == want, "ZeroBoundaryOperator.%s returns `%s`, which denotes %r; 0 %s A is %r" % (meth, unparse(node)[:40], got, "+" if meth == "__iadd__" else "-", want)
        r.check(ok, meth + " (compatible spaces)", BOP, "ZeroBoundaryOperator." + meth, fn.lineno, "ZeroBoundaryOperator." + meth, msg)
        for which in ("domain", "range", "dual_to_range"):
            env = dict(same)
            env["%s.%s" % (o, which)] = "other"
            try:
                kind2, _ = dispatch.select(fn, env)
            except AnalysisError:
                kind2 = "?"
            if which == "domain":
                r.check(kind2 == "raise", meth + " (different domain)", BOP, "ZeroBoundaryOperator." + meth, fn.lineno, "ZeroBoundaryOperator.%s guard" % meth,
                        "an operand with a different domain space is not rejected by %s" % meth)
