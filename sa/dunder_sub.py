"""C14: `+` and unary `-` of the concrete discrete operator classes (dense, sparse, diagonal).

These classes override __add__ / __neg__ of the base class to stay in their own representation:
`Dense(self.to_dense() + other.to_dense())`.  The term is read by abstract execution of the method for an operand of the
same class (dispatch.select) and evaluated in the non-commutative term algebra: the representation accessors are
additive morphisms, the class constructor wraps a representation.  Expected: A + B and -A.
"""

import ast

from . import dispatch
from .core import AnalysisError
from .proto import NC
from .src import arg_names, unparse

DO = "bempp_cl/api/assembly/discrete_boundary_operator.py"
REPS = ("to_dense", "to_sparse", "get_diagonal", "A")


def _term(n, cls, o, A, B):
    if isinstance(n, ast.UnaryOp) and isinstance(n.op, ast.USub):
        return NC.const(-1) * _term(n.operand, cls, o, A, B)
    if isinstance(n, ast.BinOp) and isinstance(n.op, (ast.Add, ast.Sub)):
        l, r = _term(n.left, cls, o, A, B), _term(n.right, cls, o, A, B)
        return l + r if isinstance(n.op, ast.Add) else l - r
    if isinstance(n, ast.Call):
        f = n.func
        if isinstance(f, ast.Name) and f.id == cls and len(n.args) == 1 and not n.keywords:
            return _term(n.args[0], cls, o, A, B)
        if isinstance(f, ast.Attribute) and f.attr in REPS and not n.args and isinstance(f.value, ast.Name) and f.value.id in ("self", o):
            return A if f.value.id == "self" else B
    if isinstance(n, ast.Attribute) and n.attr in REPS and isinstance(n.value, ast.Name) and n.value.id in ("self", o):
        return A if n.value.id == "self" else B
    raise AnalysisError("%s: expression outside the term subset: %s" % (cls, unparse(n)[:60]))


def subclass_dunders(ctx):
    r = ctx.rule("DUNDER-SUBCLASS", "dense / sparse / diagonal discrete operators: A + B (same class) and -A build the operator whose representation is the sum / the negative of the operands' representations", 6)
    m = ctx.repo.mod(DO)
    A, B = NC.op("A"), NC.op("B")
    n = 0
    for cname, cnode in m.classes.items():
        for st in cnode.body:
            if not (isinstance(st, ast.FunctionDef) and st.name in ("__add__", "__neg__", "__sub__")):
                continue
            if cname.startswith("_DiscreteOperatorBase"):
                continue
            pa = arg_names(st)
            o = pa[1] if len(pa) > 1 else "‹none›"
            env = {"isinstance(%s, %s)" % (o, cname): True, "self.shape": (3, 3), "%s.shape" % o: (3, 3)}
            kind, node = dispatch.select(st, env)
            want = {"__add__": A + B, "__sub__": A - B, "__neg__": NC.const(-1) * A}[st.name]
            ok, msg = False, "%s.%s raises for an operand of its own class and equal shape" % (cname, st.name)
            if kind == "return" and node is not None:
                try:
                    from . import roles

                    got = _term(roles.inline(node, roles.Defs(st)), cname, o, A, B)
                    ok, msg = got == want, "%s.%s builds %r, the expression denotes %r" % (cname, st.name, got, want)
                except AnalysisError as e:
                    ok, msg = False, str(e)
            n += 1
            r.check(ok, "%s.%s" % (cname, st.name), DO, "%s.%s" % (cname, st.name), st.lineno, "%s.%s term" % (cname, st.name), msg)
    if n < 6:
        raise AnalysisError("only %d overriding __add__/__neg__ methods found in the discrete operator classes" % n)
    complex_flags(ctx, m)
    bad = ast.parse("def __neg__(self):\n    return DenseDiscreteBoundaryOperator(self.to_dense())").body[0]
    k, node = dispatch.select(bad, {})
    r.must_fire(_term(node, "DenseDiscreteBoundaryOperator", "x", A, B) != NC.const(-1) * A, "negation that returns the operator itself")


def complex_flags(ctx, m):
    """dtype-derived flags that select the real-on-complex path, over the finite domain of dtypes."""
    r = ctx.rule("COMPLEX-FLAGS", "flags and dtypes derived from operand dtypes: the matvec-only operator splits complex vectors exactly when its own dtype is real; a rank-one operator is complex exactly when a factor is", 8)
    fn = m.fn("GenericDiscreteBoundaryOperator.__init__")
    flag = [s for s in fn.body if isinstance(s, ast.Assign) and unparse(s.targets[0]) == "self._is_complex"]
    mv = m.fn("GenericDiscreteBoundaryOperator._matvec")
    if len(flag) != 1:
        raise AnalysisError("GenericDiscreteBoundaryOperator.__init__: self._is_complex is not assigned once")
    for dt in ("float32", "float64", "complex64", "complex128"):
        try:
            v = bool(dispatch.value(flag[0].value, {"self.dtype": dt, "evaluator.dtype": dt}))
        except dispatch.Unknown as u:
            raise AnalysisError("GenericDiscreteBoundaryOperator._is_complex is not decided by the dtype name: %s" % u)
        # what _matvec does with a complex vector under this flag value
        kind, node = dispatch.select(mv, {"self._is_complex": v, "_np.iscomplexobj(x)": True, "np.iscomplexobj(x)": True})
        split = node is not None and "real(" in unparse(node) and "imag(" in unparse(node)
        want_split = not dt.startswith("complex")
        r.check(split == want_split, "GenericDiscreteBoundaryOperator dtype %s, complex vector" % dt, DO, "GenericDiscreteBoundaryOperator._matvec", mv.lineno, "real-on-complex split for dtype " + dt,
                "an operator of dtype %s applied to a complex vector %s real and imaginary parts (flag _is_complex = %s)" % (dt, "does not split into" if want_split else "splits into", v))
    fn = m.fn("DiscreteRankOneOperator.__init__")
    body = [s for s in fn.body if not (isinstance(s, ast.Expr) and isinstance(s.value, ast.Constant))]
    pa = arg_names(fn)
    for a in ("float64", "complex128"):
        for b in ("float64", "complex128"):
            effs = dispatch.effects(body, {"%s.dtype" % pa[1]: a, "%s.dtype" % pa[2]: b}, "DiscreteRankOneOperator.__init__")
            sets = {e[1]: e[2] for e in effs if e[0] == "set"}
            sup = [e for e in effs if e[0] == "call" and "__init__" in e[1]]
            got = None
            if sup:
                arg0 = ast.parse(sup[0][1], mode="eval").body.args[0]
                got = sets.get(unparse(arg0), unparse(arg0).strip("'\""))
            want = "complex128" if "complex128" in (a, b) else "float64"
            r.check(got == want, "DiscreteRankOneOperator dtypes (%s, %s)" % (a, b), DO, "DiscreteRankOneOperator.__init__", fn.lineno, "rank-one dtype for (%s, %s)" % (a, b),
                    "factors of dtype %s and %s give an operator of dtype %s, expected %s" % (a, b, got, want))


def blocked_to_dense(ctx):
    """BlockedDiscreteOperator.to_dense: vstack over block rows i of hstack over block columns j of block (i, j)."""
    from . import roles

    BL = "bempp_cl/api/assembly/blocked_operator.py"
    r = ctx.rule("BLOCK-DENSE", "blocked discrete operator: to_dense stacks block (i, j) at block row i, block column j (vstack of hstack over all rows / columns)", 1)
    fn = ctx.repo.mod(BL).fn("BlockedDiscreteOperator.to_dense")
    defs = roles.Defs(fn)
    ret = [s for s in ast.walk(fn) if isinstance(s, ast.Return)]
    ok, why = False, "not of the form vstack(rows) with rows built per block row"
    if len(ret) == 1 and isinstance(ret[0].value, ast.Call) and unparse(ret[0].value.func).split(".")[-1] == "vstack" and len(ret[0].value.args) == 1 and isinstance(ret[0].value.args[0], ast.Name):
        rows = ret[0].value.args[0].id
        loops = [s for s in fn.body if isinstance(s, ast.For) and isinstance(s.target, ast.Name) and unparse(s.iter).replace(" ", "") == "range(self._ndims[0])"]
        if len(loops) == 1:
            I = loops[0].target.id
            apps = [n for n in ast.walk(loops[0]) if isinstance(n, ast.Call) and unparse(n.func) == rows + ".append" and len(n.args) == 1]
            if len(apps) == 1 and isinstance(apps[0].args[0], ast.Call) and unparse(apps[0].args[0].func).split(".")[-1] == "hstack":
                row = apps[0].args[0].args[0]
                rowdef = row
                if isinstance(row, ast.Name):
                    d = defs.lookup(row.id, apps[0].lineno)
                    rowdef = d[1] if d and d[0] == "expr" else None
                if isinstance(rowdef, ast.ListComp) and len(rowdef.generators) == 1 and isinstance(rowdef.generators[0].target, ast.Name) and not rowdef.generators[0].ifs:
                    J = rowdef.generators[0].target.id
                    it_ok = unparse(rowdef.generators[0].iter).replace(" ", "") == "range(self._ndims[1])"
                    el = unparse(rowdef.elt).replace(" ", "")
                    el_ok = el in ("self[%s,%s].to_dense()" % (I, J), "self._operators[%s,%s].to_dense()" % (I, J))
                    ok = it_ok and el_ok
                    why = "row %s: columns over `%s` (expected range(self._ndims[1])), element `%s` (expected block [%s, %s].to_dense())" % (I, unparse(rowdef.generators[0].iter), unparse(rowdef.elt), I, J)
    r.check(ok, "BlockedDiscreteOperator.to_dense", BL, "BlockedDiscreteOperator.to_dense", fn.lineno, "blocked to_dense layout", why)
