"""C01/C03/C06: which offset cuts which array in the singular assemblers.

The singular rules are stored stacked: points of all remapped rules side by side, weights of the three rule kinds one
after the other.  For the pair `index` the assembler must take

    test_points [:, test_offsets[index]  : test_offsets[index]  + number_of_quad_points[index]]
    trial_points[:, trial_offsets[index] : trial_offsets[index] + number_of_quad_points[index]]
    quad_weights[weights_offsets[index] + q]

test and trial offsets differ (they depend on which local edge / vertex of *that* element is shared), so cutting the
test points with the trial offset evaluates the test element at the remap of the other element.  The symbolic rule
ASM-SINGULAR treats the cut-out point blocks as opaque "points of the pair"; this rule decides the cut itself.
"""

import ast

from . import kernels as K
from . import roles
from .assemblers import SINGULAR_SIG
from .core import AnalysisError
from .src import arg_names, unparse

NK = K.NK


def analyse(fn):
    p = arg_names(fn)
    if len(p) != len(SINGULAR_SIG):
        raise AnalysisError("%s: not a singular assembler signature" % fn.name)
    slot = dict(zip(SINGULAR_SIG, p))
    defs = roles.Defs(fn)
    loops = [l for l in ast.walk(fn) if isinstance(l, ast.For) and isinstance(l.target, ast.Name) and "prange" in unparse(l.iter)]
    if len(loops) != 1:
        raise AnalysisError("%s: expected one prange over the singular pairs" % fn.name)
    I = loops[0].target.id
    out = []
    pairs = (("test_points", "test_offsets"), ("trial_points", "trial_offsets"))
    n_uses = 0
    for arr, offs in pairs:
        A, O, N = slot[arr], slot[offs], slot["number_of_quad_points"]
        want = roles.expect("A[:, O[I]:O[I] + N[I]]", defs, loops[0].body[-1].lineno, lv=False, A=A, O=O, N=N, I=I)
        for n in ast.walk(loops[0]):
            if isinstance(n, ast.Subscript) and isinstance(n.value, ast.Name) and n.value.id == A and isinstance(n.ctx, ast.Load):
                got = roles.canon(n, defs, keep=(I,)).replace(" ", "")
                n_uses += 1
                out.append(("%s cut at line %d" % (arr, n.lineno), got == want, "`%s` is `%s`, expected `%s` (the %s of pair `%s`, %d points)" % (unparse(n)[:60], got[:90], want, offs, I, 0), n.lineno))
    W, WO = slot["quad_weights"], slot["weights_offsets"]
    for n in ast.walk(loops[0]):
        if isinstance(n, ast.Subscript) and isinstance(n.value, ast.Name) and n.value.id == W and isinstance(n.ctx, ast.Load):
            got = roles.canon(n.slice, defs, keep=(I,)).replace(" ", "")
            base = roles.expect("WO[I]", defs, n.lineno, lv=False, WO=WO, I=I)
            # weights_offsets[index] + <point index>, the point index a loop variable over range(number_of_quad_points[index])
            ok = False
            if isinstance(n.slice, ast.BinOp) and isinstance(n.slice.op, ast.Add):
                parts = [roles.canon(x, defs, keep=(I,)).replace(" ", "") for x in (n.slice.left, n.slice.right)]
                others = [x for x, c in zip((n.slice.left, n.slice.right), parts) if c != base]
                if base in parts and len(others) == 1 and isinstance(others[0], ast.Name):
                    q = others[0].id
                    ql = [l for l in ast.walk(loops[0]) if isinstance(l, ast.For) and isinstance(l.target, ast.Name) and l.target.id == q and l.lineno <= n.lineno <= l.end_lineno]
                    ok = bool(ql) and roles.canon(ql[-1].iter, defs, keep=(I,)).replace(" ", "") == roles.expect("range(N[I])", defs, n.lineno, lv=False, N=slot["number_of_quad_points"], I=I)
            n_uses += 1
            out.append(("quad_weights use at line %d" % n.lineno, ok, "`%s` is not weights_offsets[pair] + q with q over the pair's points (index `%s`)" % (unparse(n)[:60], got[:80]), n.lineno))
    if n_uses < 3:
        raise AnalysisError("%s: point / weight arrays are not cut inside the pair loop" % fn.name)
    return out


def offset_roles(ctx):
    r = ctx.rule("SING-OFFSET-ROLES", "singular assemblers: test points are cut with the test offset, trial points with the trial offset, weights addressed at the weights offset, each over the pair's own number of points", 18)
    reg = K.registries(ctx)["assembly_functions_singular"]
    m = ctx.repo.mod(NK)
    for at, fname in sorted(reg.items()):
        fn = m.fn(fname)
        for inst, ok, msg, line in analyse(fn):
            r.check(ok, "%s: %s" % (fname, inst), NK, fname, line, "%s in %s" % (inst.split(" at ")[0], fname), msg)
    bad = ast.parse("def f(" + ", ".join(SINGULAR_SIG) + "):\n    for index in _numba.prange(3):\n        o = trial_offsets[index]\n        n = number_of_quad_points[index]\n        a = test_points[:, o : o + n]\n        b = trial_points[:, o : o + n]\n        for q in range(n):\n            c = quad_weights[weights_offsets[index] + q]\n").body[0]
    r.must_fire(any(not ok for _, ok, _, _ in analyse(bad)), "test points cut with the trial offset")
