"""C09: which edges of an RWG/SNC space get a global dof (finite-domain abstract execution of the edge loop).

`_compute_rwg0_space_data` decides per (element, local edge): was the edge numbered before, how many neighbours of the
edge lie in the support, are boundary dofs wanted, is the support extended.  The decision has a finite abstract domain,
so the rule executes the loop body for every combination (sa/dispatch.effects) and compares the effects with the
documented behaviour:

    numbered before                       -> element has a dof, nothing else
    new, 2 supported neighbours           -> edge gets the next dof number, counter advanced afterwards, element has a dof
    new, 1 supported neighbour, boundary  -> same; and unless truncate_at_segment_edge every neighbour joins the support
    new, 1 supported neighbour, otherwise -> nothing
"""

import ast

from . import dispatch, roles
from .core import AnalysisError
from .src import arg_names, unparse

MS = "bempp_cl/api/space/maxwell_spaces.py"
FN = "_compute_rwg0_space_data"


def _sentinel(alloc, fn=None):
    """Value every entry of a freshly allocated integer table holds (fn: the enclosing function, so that a local that
    merely names a part of the allocation expression is read through)."""
    neg = False
    if fn is not None:
        from . import roles

        alloc = roles.inline(alloc, roles.Defs(fn))
    n = alloc
    if isinstance(n, ast.UnaryOp) and isinstance(n.op, ast.USub):
        neg, n = True, n.operand
    if isinstance(n, ast.Call):
        f = unparse(n.func).split(".")[-1]
        if f == "ones":
            return -1 if neg else 1
        if f == "zeros":
            return 0
        if f == "full" and len(n.args) >= 2:
            try:
                v = dispatch.value(n.args[1], {})
            except dispatch.Unknown:
                return None
            return -v if neg else v
    return None


def _flat(effs):
    for e in effs:
        yield e
        if e[0] == "loop":
            yield from _flat(e[2])


def analyse(fn):
    """Verdict list [(instance, ok, message, line)] for the two edge loops of fn."""
    p = arg_names(fn)
    if len(p) != 8:
        raise AnalysisError("%s: signature changed" % FN)
    support, en, ptr, ee, _, nedges, include, trunc = p
    defs = roles.Defs(fn)
    loops = [s for s in fn.body if isinstance(s, ast.For) and roles.canon(s.iter, defs).replace(" ", "") == "nz(%s)" % support and isinstance(s.target, ast.Name)]
    if len(loops) != 2:
        raise AnalysisError("%s: expected two loops over the support elements, found %d" % (FN, len(loops)))
    ret = [s for s in fn.body if isinstance(s, ast.Return)]
    if len(ret) != 1 or not isinstance(ret[0].value, ast.Tuple) or not all(isinstance(e, ast.Name) for e in ret[0].value.elts) or len(ret[0].value.elts) != 4:
        raise AnalysisError("%s: does not return (dof count, support, local2global, multipliers)" % FN)
    counter, rsup, l2g, mult = (e.id for e in ret[0].value.elts)
    out = []
    out.append(("returned support", rsup == support, "the support returned is `%s`, not the (extended / pruned) `%s`" % (rsup, support), ret[0].lineno))
    first, second = loops
    el = first.target.id
    inner = [s for s in first.body if isinstance(s, ast.For) and unparse(s.iter).replace(" ", "") == "range(3)" and isinstance(s.target, ast.Name)]
    if len(inner) != 1:
        raise AnalysisError("%s: first loop has no single `for local_index in range(3)`" % FN)
    inner = inner[0]
    li = inner.target.id
    ln = inner.body[-1].end_lineno

    def ex(src, line=ln, **kw):
        return roles.expect(src, defs, line, **kw)

    def cn(name, line=ln):
        return roles.canon(ast.Name(id=name, ctx=ast.Load(), lineno=line, col_offset=0), defs, keep=(el, li)).replace(" ", "")

    # names by provenance
    names = {}
    for st in ast.walk(inner):
        if isinstance(st, ast.Assign) and isinstance(st.targets[0], ast.Name):
            names.setdefault(st.targets[0].id, st)
    edge = [n for n, st in names.items() if roles.canon(st.value, defs, keep=(el, li)).replace(" ", "") == "%s[(%s,%s)]" % (ee, li, el)]
    if len(edge) != 1:
        out.append(("edge of (element, local index)", roles.found_or(False, names, "element_edges["), "no local is defined as %s[local_index, element] in the numbering loop (found %s)" % (ee, {n: unparse(s.value)[:50] for n, s in names.items()}), inner.lineno))
        return out
    E = edge[0]
    out.append(("edge of (element, local index)", True, "", inner.lineno))
    want_cn = roles.canon(ast.parse("%s[%s[%s]:%s[1+%s]]" % (en, ptr, E, ptr, E), mode="eval").body, roles._NoDefs()).replace(" ", "")
    cur = [n for n, st in names.items() if roles.canon(st.value, roles._NoDefs()).replace(" ", "") == want_cn]
    ok_cur = len(cur) == 1
    out.append(("neighbours of the edge", roles.found_or(ok_cur, names, ptr + "["), "no local holds the CSR row %s[%s[e] : %s[e + 1]] of the edge" % (en, ptr, ptr), inner.lineno))
    if not ok_cur:
        return out
    CN = cur[0]
    sup = []
    for n, st in names.items():
        v = st.value
        if isinstance(v, ast.ListComp) and len(v.generators) == 1 and isinstance(v.elt, ast.Name) and isinstance(v.generators[0].target, ast.Name) and v.elt.id == v.generators[0].target.id \
                and unparse(v.generators[0].iter) == CN and len(v.generators[0].ifs) == 1 and unparse(v.generators[0].ifs[0]).replace(" ", "") == "%s[%s]" % (support, v.elt.id):
            sup.append(n)
    ok_sup = len(sup) == 1
    out.append(("supported neighbours", roles.found_or(ok_sup, names, support + "[", "for"), "no local holds [e for e in <neighbours> if %s[e]]" % support, inner.lineno))
    if not ok_sup:
        return out
    SN = sup[0]
    # memo table of edge -> dof and its sentinel
    tables = {}
    for st in fn.body:
        if isinstance(st, ast.Assign) and isinstance(st.targets[0], ast.Name):
            s = _sentinel(st.value, fn)
            if s is not None:
                tables[st.targets[0].id] = (s, st.lineno)
    memo = [t for t in tables if any(isinstance(n, ast.Subscript) and unparse(n).replace(" ", "") == "%s[%s]" % (t, E) for n in ast.walk(inner)) and t not in (l2g, mult)]
    if len(memo) != 1:
        raise AnalysisError("%s: cannot identify the edge -> dof table of the numbering loop (candidates %s)" % (FN, memo))
    M = memo[0]
    sent = tables[M][0]
    out.append(("edge table sentinel", sent < 0, "the edge -> dof table `%s` is initialised with %s: a valid dof number cannot be told from `not numbered yet`" % (M, sent), tables[M][1]))
    if sent >= 0:
        return out
    # has-dof flag: tested after the inner loop to prune the element
    prune = [s for s in first.body if isinstance(s, ast.If) and s.lineno > inner.lineno and isinstance(s.test, ast.UnaryOp) and isinstance(s.test.op, ast.Not) and isinstance(s.test.operand, ast.Name)]
    ok_prune = len(prune) == 1 and [unparse(x).replace(" ", "") for x in prune[0].body] == ["%s[%s]=False" % (support, el)]
    out.append(("elements without a dof leave the support", ok_prune, "after the edge loop an element none of whose edges carries a dof is not removed from the support", first.lineno))
    HD = prune[0].test.operand.id if ok_prune else None
    body = [s for s in inner.body]
    for seen in (sent, 0, 7):
        for n in (1, 2):
            for inc in (True, False):
                for tr in (True, False):
                    env = {"%s[%s]" % (M, E): seen, "len(%s)" % SN: n, include: inc, trunc: tr}
                    effs = list(_flat(dispatch.effects(body, env, FN)))
                    numbered = [e for e in effs if e[0] == "store" and e[1].replace(" ", "") == "%s[%s]" % (M, E)]
                    advanced = [e for e in effs if e[0] == "aug" and e[1] == counter]
                    flag = any(e[0] == "set" and e[1] == HD and e[2] is True for e in effs) if HD else None
                    ext = [e for e in effs if e[0] == "store" and e[1].startswith(support + "[")]
                    ext_loops = [e for e in dispatch.effects(body, env, FN) if e[0] == "loop"]
                    new = seen == sent
                    want_num = new and (n == 2 or (n == 1 and inc))
                    want_flag = (not new) or want_num
                    want_ext = new and n == 1 and inc and not tr
                    okn = (len(numbered) == 1 and numbered[0][2] == counter and len(advanced) == 1 and advanced[0][2:] == ("Add", "1")
                           and effs.index(advanced[0]) > effs.index(numbered[0])) if want_num else (not numbered and not advanced)
                    okf = True if HD is None else (flag is True) == want_flag
                    oke = (len(ext_loops) == 1 and ext_loops[0][1] == CN and [(x[0], x[2]) for x in ext_loops[0][2]] == [("store", "True")]
                           and len(ext) == 1) if want_ext else not ext
                    inst = "numbering: edge %s, %d supported neighbour(s), include_boundary_dofs=%s, truncate_at_segment_edge=%s" % ("new" if new else "numbered before (%d)" % seen, n, inc, tr)
                    msg = "; ".join(m for m, o in (("edge %s a new dof number (stores %s, counter updates %s)" % ("should get" if want_num else "must not get", [x[1:] for x in numbered], [x[1:] for x in advanced]), okn),
                                                    ("element %s marked as carrying a dof" % ("should be" if want_flag else "must not be"), okf),
                                                    ("support %s extended to the edge's neighbours (stores %s)" % ("should be" if want_ext else "must not be", [x[1:] for x in ext]), oke)) if not o)
                    out.append((inst, okn and okf and oke, msg, inner.lineno))
    # second loop: an edge with a dof number puts it into the element's dof map, an edge without does not
    inner2 = [s for s in second.body if isinstance(s, ast.For) and unparse(s.iter).replace(" ", "") == "range(3)" and isinstance(s.target, ast.Name)]
    if not inner2:
        raise AnalysisError("%s: second loop has no `for local_index in range(3)`" % FN)
    i2 = inner2[0]
    el2, li2 = second.target.id, i2.target.id
    e2 = [st.targets[0].id for st in ast.walk(i2) if isinstance(st, ast.Assign) and isinstance(st.targets[0], ast.Name)
          and roles.canon(st.value, defs, keep=(el2, li2)).replace(" ", "") == "%s[(%s,%s)]" % (ee, li2, el2)]
    if len(e2) != 1:
        out.append(("dof map: edge of (element, local index)", roles.found_or(False, [st for st in ast.walk(i2) if isinstance(st, ast.Assign)], "element_edges["), "no local is defined as %s[local_index, element] in the dof-map loop" % ee, i2.lineno))
        return out
    E2 = e2[0]
    sn2 = [st.targets[0].id for st in ast.walk(i2) if isinstance(st, ast.Assign) and isinstance(st.targets[0], ast.Name) and isinstance(st.value, ast.ListComp)]
    for seen in (sent, 0, 7):
        for n in (1, 2):
            env = {"%s[%s]" % (M, E2): seen}
            for s in sn2:
                env["len(%s)" % s] = n
            effs = list(_flat(dispatch.effects(i2.body, env, FN)))
            dm = [e for e in effs if e[0] == "store" and e[2].replace(" ", "") == "%s[%s]" % (M, E2) and e[1].endswith("[%s]" % li2)]
            mu = [e for e in effs if e[0] == "store" and e[1].replace(" ", "") == "%s[%s,%s]" % (mult, el2, li2)]
            has = seen != sent
            ok = (len(dm) == 1 and len(mu) == 1) if has else (not dm and not mu)
            out.append(("dof map: edge %s, %d supported neighbour(s)" % ("with dof %d" % seen if has else "without dof", n), ok,
                        "an edge %s: dof-map stores %s, multiplier stores %s" % ("with a dof must enter the element's dof map and get a multiplier" if has else "without a dof must not enter the dof map", [x[1:] for x in dm], [x[1:] for x in mu]), i2.lineno))
    # copies within the element's row (zero-multiplier entries aliased to a real dof) must not touch real dofs
    S = roles.stores(second.body, defs)
    for s in S:
        if not (isinstance(s.tnode, ast.Subscript) and isinstance(s.vnode, ast.Subscript) and unparse(s.tnode.value) == unparse(s.vnode.value) and isinstance(s.tnode.slice, ast.Name)):
            continue
        L = s.tnode.slice.id
        zero = roles.expect("W[E, L] == 0", defs, s.node.lineno, W=mult, E=el2, L=L)
        nonzero = roles.expect("W[E, L] != 0", defs, s.node.lineno, W=mult, E=el2, L=L)
        ok = bool(s.guards) and s.guards[-1] in ((zero, True), (nonzero, False))
        out.append(("dof map: aliasing copy `%s`" % unparse(s.node)[:50], ok,
                    "`%s` copies another entry of the row over entry %s without testing that its multiplier %s[%s, %s] is zero (innermost guard: %s): dofs with non-zero multipliers are overwritten" % (
                        unparse(s.node)[:60], L, mult, el2, L, s.guards[-1] if s.guards else None), s.node.lineno))
    return out


def rwg_dof_decisions(ctx):
    r = ctx.rule("RWG-DOF-DECISIONS", "RWG/SNC numbering: per (edge state, supported neighbours, include_boundary_dofs, truncate_at_segment_edge) exactly the documented edges get the next dof number, mark their element, extend the support; the dof map takes exactly the numbered edges", 30)
    fn = ctx.repo.mod(MS).fn(FN)
    for inst, ok, msg, line in analyse(fn):
        r.check(ok, inst, MS, FN, line, inst, msg)
    bad = ast.parse(_POSITIVE).body[0]
    r.must_fire(any(not ok for _, ok, _, _ in analyse(bad)) and all(ok for _, ok, _, _ in analyse(ast.parse(_POSITIVE.replace("== 1:  # defect", "== 1 and inc:")).body[0])),
                "boundary edges numbered although include_boundary_dofs is False")


# the checker's own miniature of the numbering routine (not repository code): the marked line ignores include_boundary_dofs
_POSITIVE = '''
def f(support, en, ptr, ee, nel, ned, inc, trunc):
    l2g = _np.zeros((nel, 3))
    mult = _np.zeros((nel, 3))
    dofs = -_np.ones(ned)
    count = 0
    for element in _np.flatnonzero(support):
        has = False
        for li in range(3):
            e = ee[li, element]
            if dofs[e] != -1:
                has = True
            else:
                cur = en[ptr[e] : ptr[e + 1]]
                sn = [x for x in cur if support[x]]
                if len(sn) == 2:
                    dofs[e] = count
                    count += 1
                    has = True
                if len(sn) == 1:  # defect
                    dofs[e] = count
                    count += 1
                    has = True
                    if not trunc:
                        for c in cur:
                            support[c] = True
        if not has:
            support[element] = False
    for element in _np.flatnonzero(support):
        dm = -_np.ones(3)
        for li in range(3):
            e = ee[li, element]
            if dofs[e] != -1:
                dm[li] = dofs[e]
                mult[element, li] = 1
        l2g[element, :] = dm
    return count, support, l2g, mult
'''
