"""Rule library shared by several properties (each property module picks the rules it needs)."""

import ast

from . import assemblers as A
from . import kernels as K
from . import roles
from .core import AnalysisError
from .src import arg_names, calls_in, unparse

NA = "bempp_cl/core/numba_assemblers.py"
DA = "bempp_cl/core/dense_assembler.py"
SA = "bempp_cl/core/singular_assembler.py"
NK = K.NK


def kparams_for(assembly_or_kernel_type):
    return [K.W] if assembly_or_kernel_type.startswith("modified") else [K.KR, K.KI]


# ------------------------------------------------------------------ assembler integrands


def assembler_integrands(ctx, kinds=("regular", "singular"), types=None, rule_prefix="ASM"):
    """Every registered regular / singular assembler == its integrand spec (scatter, guard, integrand)."""
    from . import extents, selectk

    if "IDX-EXTENT" not in getattr(ctx, "_extent_done", set()):
        ctx._extent_done = {"IDX-EXTENT"}
        extents.index_extents(ctx)
        selectk.select_modes(ctx)
    if "singular" in kinds and not getattr(ctx, "_singoff_done", False):
        from . import singoff

        ctx._singoff_done = True
        singoff.offset_roles(ctx)
    reg = K.registries(ctx)
    out = {}
    for kind in kinds:
        regname = "assembly_functions_" + kind
        if regname not in reg:
            raise AnalysisError("registry %s vanished" % regname)
        chk = A.check_regular if kind == "regular" else A.check_singular
        r = ctx.rule(
            "%s-%s" % (rule_prefix, kind.upper()),
            "%s assemblers: accumulated term == K * weights * Jacobians * <integrand spec of the assembly type>"
            % kind + ("; scatter through (test|trial) global dofs and multipliers; adjacent pairs skipped" if kind == "regular" else "; result slot layout; point count"),
            1,
        )
        for at, fname in sorted(reg[regname].items()):
            if types is not None and at not in types:
                continue
            res, it, hooks = chk(ctx, fname, at, kparams_for(at))
            ln = ctx.repo.mod(NK).fn(fname).lineno
            for aspect, ok, msg in res:
                r.check(ok, "%s/%s" % (fname, aspect), NK, fname, ln, "%s %s of %s" % (kind, aspect, at), msg)
            out[(kind, at)] = (fname, it, hooks)
    return out


def potential_kernels(ctx, types=None, rule_id="POT-SUM"):
    from . import extents, selectk

    if "IDX-EXTENT" not in getattr(ctx, "_extent_done", set()):
        ctx._extent_done = {"IDX-EXTENT"}
        extents.index_extents(ctx)
        selectk.select_modes(ctx)
    reg = K.registries(ctx)
    r = ctx.rule(rule_id, "potential kernels: every value == closed-form kernel sum over the library's quadrature points; "
                 "per-source data computed before and independently of the prange over evaluation points", 1)
    out = {}
    for at, fname in sorted(reg["assembly_function_potential"].items()):
        if types is not None and at not in types:
            continue
        kd = 1 if at == "default_scalar" else 3
        res, it, hooks = A.check_potential(ctx, fname, at, [K.KR, K.KI], kd)
        ln = ctx.repo.mod(NK).fn(fname).lineno
        for aspect, ok, msg in res:
            r.check(ok, "%s/%s" % (fname, aspect), NK, fname, ln, "potential %s of %s" % (aspect, at), msg)
        out[at] = (fname, it, hooks)
    return out


# ------------------------------------------------------------------ launch sites (role typing)


def _launch_call(fn, callee_pred):
    cands = [c for c in calls_in(fn) if callee_pred(c)]
    return cands


def launch_sites(ctx, which=("dense", "singular", "potential")):
    """Arguments of the three Numba launch sites carry the right role (TEST = dual_to_range, TRIAL = domain)."""
    m = ctx.repo.mod(NA)
    r = ctx.rule("LAUNCH-ROLES", "each positional argument of the Numba launch sites has the provenance its registry-signature slot requires", 1)
    res = {}
    if "dense" in which:
        fn = m.fn("dense_assembler")
        p = arg_names(fn)
        if len(p) != 6:
            raise AnalysisError("dense_assembler signature changed")
        DESC, R, T, PAR, RES = p[1], p[2], p[3], p[4], p[5]
        defs = roles.Defs(fn)
        calls = [c for c in calls_in(fn) if roles.canon(c.func, defs).startswith("select_numba_kernels(") and len(c.args) == len(A.REGULAR_SIG)]
        if len(calls) != 1:
            raise AnalysisError("dense_assembler: expected one 20-ary launch of the regular assembly function, found %d" % len(calls))
        call = calls[0]
        loops = roles.enclosing_loops(fn, call)
        res["dense"] = (fn, defs, call, loops, (DESC, R, T, PAR, RES))
        keep = {l.target.id for l in loops if isinstance(l, ast.For) and isinstance(l.target, ast.Name)}
        got = [roles.canon(a, defs, keep) for a in call.args]
        callee = roles.canon(call.func, defs, keep)
        exp = {
            "callee": "select_numba_kernels(%s,mode='regular')[0]" % DESC,
            0: "%s.grid.data(*)" % T, 1: "%s.grid.data(*)" % R,
            2: "%s.number_of_shape_functions" % T, 3: "%s.number_of_shape_functions" % R,
            5: "%s.get_elements_by_color()[0]" % R,
            6: "%s.local_multipliers" % T, 7: "%s.local_multipliers" % R,
            8: "%s.local2global" % T, 9: "%s.local2global" % R,
            10: "%s.normal_multipliers" % T, 11: "%s.normal_multipliers" % R,
            12: "rule(%s.quadrature.regular)[0]" % PAR, 13: "rule(%s.quadrature.regular)[1]" % PAR,
            14: "select_numba_kernels(%s,mode='regular')[1]" % DESC,
            15: "%s.options" % DESC,
            16: "(%s.grid Eq %s.grid)" % tuple(sorted([R, T])),
            17: "%s.shapeset.evaluate" % T, 18: "%s.shapeset.evaluate" % R,
            19: RES,
        }
        _cmp(r, "dense_assembler", NA, fn, call, got, callee, exp, A.REGULAR_SIG)
        # slot 4: the test element list of ONE colour (see also C16)
        ok4, msg4 = _colour_slice(got[4], T, loops, defs)
        r.check(ok4, "dense_assembler/test_elements", NA, "dense_assembler", call.lineno, "launch arg test_elements = " + got[4], msg4)
    if "singular" in which:
        fn = m.fn("singular_assembler")
        p = arg_names(fn)
        if len(p) != 16:
            raise AnalysisError("singular_assembler signature changed")
        DESC, GRID, R, T = p[1], p[2], p[3], p[4]
        defs = roles.Defs(fn)
        calls = [c for c in calls_in(fn) if roles.canon(c.func, defs).startswith("select_numba_kernels(") and len(c.args) == len(A.SINGULAR_SIG)]
        if len(calls) != 1:
            raise AnalysisError("singular_assembler: expected one 19-ary launch, found %d" % len(calls))
        call = calls[0]
        got = [roles.canon(a, defs) for a in call.args]
        callee = roles.canon(call.func, defs)
        exp = {"callee": "select_numba_kernels(%s,mode='singular')[0]" % DESC, 0: "%s.data(*)" % GRID}
        for k in range(1, 10):
            exp[k] = p[4 + k]
        exp.update({
            10: "%s.normal_multipliers" % T, 11: "%s.normal_multipliers" % R,
            12: "%s.number_of_shape_functions" % T, 13: "%s.number_of_shape_functions" % R,
            14: "%s.shapeset.evaluate" % T, 15: "%s.shapeset.evaluate" % R,
            16: "select_numba_kernels(%s,mode='singular')[1]" % DESC, 17: p[14], 18: p[15],
        })
        _cmp(r, "singular_assembler", NA, fn, call, got, callee, exp, A.SINGULAR_SIG)
        res["singular"] = (fn, defs, call)
    if "potential" in which:
        fn = m.fn("potential_assembler")
        p = arg_names(fn)
        if len(p) != 5:
            raise AnalysisError("potential_assembler signature changed")
        S, DESC, PTS, PAR = p[1], p[2], p[3], p[4]
        inner = [n for n in ast.walk(fn) if isinstance(n, ast.FunctionDef) and n is not fn]
        defs = roles.Defs(fn, extra_scopes=inner)
        calls = [c for c in calls_in(fn) if roles.canon(c.func, defs).startswith("select_numba_kernels(") and len(c.args) == len(A.POTENTIAL_SIG)]
        if len(calls) != 1 or len(inner) != 1:
            raise AnalysisError("potential_assembler: expected one 14-ary launch inside one evaluator closure")
        call = calls[0]
        X = arg_names(inner[0])[0]
        got = [roles.canon(a, defs) for a in call.args]
        callee = roles.canon(call.func, defs)
        exp = {
            "callee": "select_numba_kernels(%s,mode='potential')[0]" % DESC,
            2: "%s.kernel_dimension" % DESC, 3: PTS, 4: X, 5: "%s.grid.data(*)" % S,
            6: "rule(%s.quadrature.regular)[0]" % PAR, 7: "rule(%s.quadrature.regular)[1]" % PAR,
            8: "%s.number_of_shape_functions" % S, 9: "%s.shapeset.evaluate" % S,
            10: "select_numba_kernels(%s,mode='potential')[1]" % DESC, 11: "%s.options" % DESC,
            12: "%s.normal_multipliers" % S, 13: "%s.support_elements" % S,
        }
        _cmp(r, "potential_assembler", NA, fn, call, got, callee, exp, A.POTENTIAL_SIG)
        res["potential"] = (fn, defs, call)
    return res


def _cmp(r, name, rel, fn, call, got, callee, exp, sig):
    for k, pat in exp.items():
        if k == "callee":
            r.check(roles.match(pat, callee), "%s/callee" % name, rel, fn.name, call.lineno, "launch callee = " + callee,
                    "launched function is `%s`, expected `%s`" % (callee, pat))
            continue
        r.check(roles.match(pat, got[k]), "%s/%s" % (name, sig[k]), rel, fn.name, call.lineno,
                "launch arg %s = %s" % (sig[k], got[k]),
                "slot %d (%s) receives `%s`, expected `%s`" % (k, sig[k], got[k], pat))


def _colour_slice(got, T, loops, defs):
    """got must be  T.get_elements_by_color()[0][PTR[c]:PTR[(1+c)]]  with PTR = T.get_elements_by_color()[1]
    and c the variable of an enclosing sequential `for c in range(len(PTR) - 1)`."""
    base = "%s.get_elements_by_color()" % T
    fors = [l for l in loops if isinstance(l, ast.For) and isinstance(l.target, ast.Name)]
    if not fors:
        return False, "the launch is not inside a sequential loop over colours"
    for l in fors:
        c = l.target.id
        want = "%s[0][%s[1][%s]:%s[1][(%s)]]" % (base, base, c, base, "+".join(sorted(["1", c])))
        if got == want:
            it = roles.canon(l.iter, defs)
            if it == "range((len(%s[1])-1))" % base:
                return True, ""
            return False, "colour loop iterates over `%s`, expected range(len(indexptr) - 1)" % it
    return False, "test element list is `%s`, expected the slice of one colour of %s.get_elements_by_color()" % (got, T)


# ------------------------------------------------------------------ near/far partition


def elements_adjacent_complete(ctx):
    """elements_adjacent is the disjunction over all 9 vertex comparisons."""
    m = ctx.repo.mod(NK)
    fn = m.fn("elements_adjacent")
    r = ctx.rule("ADJ-9", "elements_adjacent compares all 9 local vertex pairs of the two elements (disjunction)", 1)
    p = arg_names(fn)
    if len(p) != 3:
        raise AnalysisError("elements_adjacent signature changed")
    rets = [s for s in fn.body if isinstance(s, ast.Return)]
    if len(rets) != 1:
        raise AnalysisError("elements_adjacent: expected a single return")
    pairs, ok_shape = _adjacency_pairs(rets[0].value, p)
    want = {(a, b) for a in range(3) for b in range(3)}
    r.check(ok_shape and pairs == want, "elements_adjacent", NK, "elements_adjacent", fn.lineno,
            "compared vertex pairs: missing %s" % sorted(want - pairs) if ok_shape else "not a disjunction of vertex comparisons",
            "adjacency test misses local vertex pairs %s (elements sharing only those vertices would be treated as far)" % sorted(want - pairs)
            if ok_shape else "return expression is not a disjunction of `elements[a, i] == elements[b, j]` comparisons")
    # embedded positive
    bad = ast.parse("elements[0, i1] == elements[0, i2] or elements[1, i1] == elements[1, i2]").body[0].value
    bp, _ = _adjacency_pairs(bad, ["elements", "i1", "i2"])
    r.must_fire(bp != want, "two-comparison disjunction")


def _adjacency_pairs(node, p):
    tab, i1, i2 = p
    pairs = set()
    ok = True

    def leaf(n):
        nonlocal ok
        if isinstance(n, ast.Compare) and len(n.ops) == 1 and isinstance(n.ops[0], ast.Eq):
            sides = []
            for s in (n.left, n.comparators[0]):
                if (
                    isinstance(s, ast.Subscript) and isinstance(s.value, ast.Name) and s.value.id == tab
                    and isinstance(s.slice, ast.Tuple) and len(s.slice.elts) == 2
                    and isinstance(s.slice.elts[0], ast.Constant) and isinstance(s.slice.elts[1], ast.Name)
                ):
                    sides.append((s.slice.elts[0].value, s.slice.elts[1].id))
                else:
                    ok = False
                    return
            (a, ea), (b, eb) = sides
            if {ea, eb} != {i1, i2}:
                ok = False
                return
            pairs.add((a, b) if ea == i1 else (b, a))
        elif isinstance(n, ast.BoolOp) and isinstance(n.op, ast.Or):
            for v in n.values:
                leaf(v)
        else:
            ok = False

    leaf(node)
    return pairs, ok


# ------------------------------------------------------------------ kernel closed forms


def kernel_specs(ctx, families, rule_id="K-SPEC", include_singular=True):
    """Registered Green's-function kernels of the given families equal their closed forms; fast paths consistent."""
    reg = K.registries(ctx)
    r = ctx.rule(rule_id, "registered kernels of %s == closed form (G, dG/dn_y, dG/dn_x) for all points, normals, wavenumbers" % "/".join(families), 1)
    vals = {}
    for regname, sing in (("kernel_functions_regular", False), ("kernel_functions_singular", True)):
        if sing and not include_singular:
            continue
        for kt, fname in sorted(reg[regname].items()):
            if "far_field" in kt:
                continue
            fam, layer = K.split_type(kt)
            if fam not in families:
                continue
            v, ifs, ok = K.extract_checked(ctx, fname, sing, K.n_params(kt))
            vals[(kt, sing)] = (fname, v)
            ln = ctx.repo.mod(NK).fn(fname).lineno
            r.check(v.eq(K.spec(kt)) and ok, "%s (%s)" % (fname, kt), NK, fname, ln, kt + " != closed form",
                    "kernel value differs from the closed form of %s%s" % (kt, "" if ok else " (fast path inconsistent)"))
    return vals


# ------------------------------------------------------------------ factory sites


def factory_sites(ctx, subdir, only_files=None, rule_id=None):
    """Every operator factory's literal (kernel_type, assembly_type) pair exists in the registries the assembler of
    that operator class consults; complexness and kernel dimension agree with the family."""
    from . import factories

    reg = K.registries(ctx)
    r = ctx.rule(rule_id or "FACTORY-%s" % subdir.upper(), "factories in operators/%s: (kernel_type, assembly_type) registered for every mode used; is_complex / kernel_dimension match the family" % subdir, 1)
    out = []
    for s in factories.sites(ctx, subdir):
        if only_files is not None and s.rel.split("/")[-1] not in only_files:
            continue
        kt, at = s.lit("kernel_type"), s.lit("assembly_type")
        inst = "%s::%s" % (s.rel.split("/")[-1], s.fn.name)
        if not isinstance(kt, str) or not isinstance(at, str):
            r.fail(inst, s.rel, s.fn.name, s.call.lineno, "non-literal kernel/assembly type", "kernel_type / assembly_type are not string literals")
            continue
        probs = []
        if subdir == "boundary":
            if at in reg["assembly_functions_sparse"]:
                if kt not in reg["kernel_functions_sparse"]:
                    probs.append("kernel type %r not in the sparse kernel registry" % kt)
            else:
                for mode in ("regular", "singular"):
                    if at not in reg["assembly_functions_" + mode]:
                        probs.append("assembly type %r not registered for mode %s" % (at, mode))
                    if kt not in reg["kernel_functions_" + mode]:
                        probs.append("kernel type %r not registered for mode %s" % (kt, mode))
        else:
            if at not in reg["assembly_function_potential"]:
                probs.append("assembly type %r not in the potential registry" % at)
            if kt not in reg["kernel_functions_potential"]:
                probs.append("kernel type %r not in the kernel registry used by mode='potential'" % kt)
        cx = s.lit("is_complex")
        fam_complex = kt.startswith("helmholtz") or at.startswith("maxwell") or at.startswith("helmholtz")
        if at not in reg["assembly_functions_sparse"] and cx is not None and cx != fam_complex:
            probs.append("is_complex=%r but the %s family is %s" % (cx, kt, "complex" if fam_complex else "real"))
        kd = s.lit("kernel_dimension")
        if kd is not None and kd != (3 if at.startswith("maxwell") else 1):
            probs.append("kernel_dimension=%r for assembly type %s" % (kd, at))
        r.check(not probs, inst + " (%s, %s)" % (kt, at), s.rel, s.fn.name, s.call.lineno, "factory (%s, %s): %s" % (kt, at, "; ".join(probs)), "; ".join(probs))
        out.append(s)
    return out
