"""FX: global-state effect lints (parameter provenance, cache keys, memo purity)."""

import ast

from . import roles
from .core import AnalysisError
from .src import arg_names, calls_in, unparse

# one named symbol per sanctioned global read, with the reason
SANCTIONED = {
    ("bempp_cl/api/utils/helpers.py", "assign_parameters"): "the one sanctioned resolution of parameters=None",
    ("bempp_cl/api/utils/timing.py", "timeit.<timed>"): "verbosity flag for log output only; no numerical effect",
    ("bempp_cl/api/utils/timing.py", "timeit"): "verbosity flag for log output only; no numerical effect",
    ("bempp_cl/api/assembly/boundary_operator.py", "ZeroBoundaryOperator.__init__"): "passed as the parameter object at construction (equivalent to assign_parameters(None)); a zero operator reads no parameter",
}


def global_parameter_reads(ctx):
    """{(rel, function): [lines]} of every read of GLOBAL_PARAMETERS outside api/__init__.py."""
    out = {}
    total = 0
    for rel in ctx.repo.py_files("bempp_cl"):
        if rel.endswith("api/__init__.py"):
            continue
        m = ctx.repo.mod(rel)
        if "GLOBAL_PARAMETERS" not in m.source:
            continue
        owners = {}
        for qn, fn in m.functions.items():
            for n in ast.walk(fn):
                if (isinstance(n, ast.Attribute) and n.attr == "GLOBAL_PARAMETERS") or (isinstance(n, ast.Name) and n.id == "GLOBAL_PARAMETERS" and isinstance(n.ctx, ast.Load)):
                    # innermost function wins: prefer the longest qualified name containing the node
                    key = (n.lineno, n.col_offset)
                    if key not in owners or len(qn) > len(owners[key]):
                        owners[key] = qn
        for (line, col), qn in owners.items():
            # skip the import statement itself
            out.setdefault((rel, qn), []).append(line)
            total += 1
    return out, total


def parameter_resolution(ctx):
    """assign_parameters in its two worlds (also run by C01, C02, C07: 'as the quadrature orders are raised' presupposes that
    the order a user gives with the operator is the order the assembler integrates with)."""
    hp = "bempp_cl/api/utils/helpers.py"
    fn = ctx.repo.mod(hp).fn("assign_parameters")
    p0 = arg_names(fn)[0]
    from . import dispatch

    r3 = ctx.rule("FX-PARAM-RESOLVE", "assign_parameters returns the parameter object it is given, and the global parameters only for None", 2)

    class _Given:
        def __repr__(self):
            return "<the given parameter object>"

    given = _Given()
    for world, pv in (("parameters=None", None), ("parameters=<object>", given)):
        loc, res = {}, "‹nothing›"
        for e in dispatch.effects(fn.body, {p0: pv}, "assign_parameters"):
            if e[0] == "set":
                loc[e[1]] = e[2]
            elif e[0] == "return":
                t = (e[1] or "").replace(" ", "")
                res = loc[t] if t in loc else (pv if t == p0 else t)
        if pv is None:
            okw = isinstance(res, str) and "GLOBAL_PARAMETERS" in res
            why = "for parameters=None the function returns `%s`, expected the global parameters" % (res,)
        else:
            okw = res is given
            why = "an explicitly given parameter object is not what the function returns (it returns `%s`): every operator built with parameters=<object> silently uses other settings" % (res,)
        r3.check(okw, world, hp, "assign_parameters", fn.lineno, "assign_parameters, " + world, why)


def parameter_provenance(ctx):
    r = ctx.rule("FX-GLOBAL-READ", "results are computed from the parameter object resolved once by assign_parameters: no other function reads GLOBAL_PARAMETERS", 4)
    reads, total = global_parameter_reads(ctx)
    if total < 5:
        raise AnalysisError("found only %d reads of GLOBAL_PARAMETERS" % total)
    for (rel, qn), lines in sorted(reads.items()):
        top = qn.split(".<")[0]
        if (rel, qn) in SANCTIONED or (rel, top) in SANCTIONED:
            r.ok("%s::%s (sanctioned: %s)" % (rel.split("/")[-1], qn, SANCTIONED.get((rel, qn), SANCTIONED.get((rel, top)))))
            continue
        r.fail("%s::%s" % (rel.split("/")[-1], qn), rel, top, min(lines), "GLOBAL_PARAMETERS read in %s" % top,
               "%s reads GLOBAL_PARAMETERS (%d time(s), lines %s) instead of the parameter object given at construction: the result depends on later changes of the global parameters" % (qn, len(lines), sorted(lines)[:6]))
    # the sanctioned resolution must hand out a snapshot: an alias of the live global object makes an operator built
    # with parameters=None follow every later change of the globals until it is first assembled
    hp = "bempp_cl/api/utils/helpers.py"
    fn = ctx.repo.mod(hp).fn("assign_parameters")
    p0 = arg_names(fn)[0]
    parameter_resolution(ctx)
    r2 = ctx.rule("FX-PARAM-SNAPSHOT", "assign_parameters(None) returns a copy of the global parameters taken at construction, not the live global object", 1)
    defs = roles.Defs(fn)
    St = roles.stores(fn.body, defs, lv=False)
    none_test = {"(%s Is None)" % p0, "(%sIsNone)" % p0}
    vals = []
    for s in St:
        if s.guards and s.guards[-1][0].replace(" ", "") in {t.replace(" ", "") for t in none_test} and s.guards[-1][1] is True and s.op in ("=", "return"):
            vals.append(s)
    if not vals:
        raise AnalysisError("assign_parameters: the parameters-is-None branch was not found")
    alias = [s for s in vals if s.value.replace(" ", "").endswith("GLOBAL_PARAMETERS")]
    r2.check(not alias, "assign_parameters(None)", hp, "assign_parameters", alias[0].node.lineno if alias else fn.lineno, "assign_parameters returns the live global object",
             "for parameters=None the function hands out `%s` itself: the operator keeps an alias of the mutable global object, so changing GLOBAL_PARAMETERS after construction changes what the operator assembles" % (alias[0].value if alias else ""))
    # embedded positive
    src = ast.parse("def f(p):\n    return bempp_cl.api.GLOBAL_PARAMETERS.quadrature.regular")
    r.must_fire(any(isinstance(n, ast.Attribute) and n.attr == "GLOBAL_PARAMETERS" for n in ast.walk(src)), "GLOBAL_PARAMETERS read in a plain function")


def parameter_forwarding(ctx):
    """An explicitly passed parameter object is honoured: every operator factory that accepts `parameters` hands it
    to every factory / constructor it calls that accepts one too, and never drops it."""
    r = ctx.rule("FX-PARAM-FORWARD", "operator factories forward an explicitly given `parameters` object to every callee that takes one (none silently falls back to the globals)", 15)
    fac = {}
    mods = [rel for rel in ctx.repo.py_files("bempp_cl/api/operators")]
    for rel in mods:
        m = ctx.repo.mod(rel)
        for qn, fn in m.functions.items():
            if "<" in qn:
                continue
            names = [a.arg for a in fn.args.args + fn.args.kwonlyargs]
            if "parameters" in names:
                fac.setdefault(qn.split(".")[0] if qn.endswith(".__init__") else qn, []).append((rel, qn, fn, names))
    n = 0
    for key, lst in sorted(fac.items()):
        for rel, qn, fn, names in lst:
            n += 1
            loads = [x for x in ast.walk(fn) if isinstance(x, ast.Name) and x.id == "parameters" and isinstance(x.ctx, ast.Load)]
            missing = []
            for c in ast.walk(fn):
                if not isinstance(c, ast.Call):
                    continue
                f = unparse(c.func).split(".")[-1]
                if f in fac and f != key:
                    cal = fac[f][0][3]
                    k = cal.index("parameters") - (1 if cal and cal[0] == "self" else 0)
                    passed = any(kw.arg == "parameters" for kw in c.keywords) or len(c.args) > k or any(kw.arg is None for kw in c.keywords)
                    if not passed:
                        missing.append("%s (line %d)" % (f, c.lineno))
            body = [s for s in fn.body if not (isinstance(s, ast.Expr) and isinstance(s.value, ast.Constant))]
            trivial = len(body) == 1 and isinstance(body[0], (ast.Raise, ast.Pass))
            ok = trivial or (bool(loads) and not missing)
            why = ("`parameters` is accepted but never used" if not loads else "") + ("; not forwarded to: %s" % ", ".join(missing) if missing else "")
            r.check(ok, "%s::%s" % (rel.split("operators/")[-1], qn), rel, qn, fn.lineno, "parameters dropped in %s" % qn,
                    "%s: %s - an explicitly passed parameter object is ignored and the global defaults are used instead" % (qn, why.strip("; ")))
    if n < 15:
        raise AnalysisError("only %d operator factories with a `parameters` argument found" % n)
    bad = ast.parse("def f(a, parameters=None):\n    return identity(a, a, a)").body[0]
    r.must_fire(not [x for x in ast.walk(bad) if isinstance(x, ast.Name) and x.id == "parameters" and isinstance(x.ctx, ast.Load)], "factory that never reads its parameters argument")


def _param_chains(fn, pname):
    """Attribute chains `pname.a.b` read in fn."""
    out = set()
    for n in ast.walk(fn):
        if isinstance(n, ast.Attribute) and isinstance(n.value, ast.Attribute) and isinstance(n.value.value, ast.Name) and n.value.value.id == pname:
            out.add("%s.%s" % (n.value.attr, n.attr))
    return out


def _cache_key(fn, cache):
    """The tuple assigned to the local that subscripts `cache` in its (single) store `cache[<name>] = ...`."""
    subs = {s.targets[0].slice.id for s in ast.walk(fn) if isinstance(s, ast.Assign) and isinstance(s.targets[0], ast.Subscript) and unparse(s.targets[0].value) == cache and isinstance(s.targets[0].slice, ast.Name)}
    if len(subs) != 1:
        return None
    name = subs.pop()
    vals = [s.value for s in ast.walk(fn) if isinstance(s, ast.Assign) and unparse(s.targets[0]) == name]
    return vals[0] if len(vals) == 1 else None


def cache_keys(ctx):
    r = ctx.rule("FX-CACHE-KEY", "the key of each FMM interface cache contains every parameter read while building the cached interface", 2)
    rel = "bempp_cl/api/fmm/fmm_assembler.py"
    m = ctx.repo.mod(rel)
    ex = ctx.repo.mod("bempp_cl/api/fmm/exafmm.py")
    # boundary cache
    fn = m.fn("get_fmm_interface")
    key = _cache_key(fn, "_FMM_CACHE")
    if not isinstance(key, ast.Tuple):
        raise AnalysisError("get_fmm_interface: key tuple not found")
    in_key = {unparse(e).replace("parameters.", "") for e in key.elts if unparse(e).startswith("parameters.")}
    fg = ex.fn("ExafmmInterface.from_grid")
    read = _param_chains(fg, "parameters")
    missing = sorted(read - in_key)
    r.check(not missing, "_FMM_CACHE", rel, "get_fmm_interface", fn.lineno, "_FMM_CACHE key misses %s" % missing,
            "the interface is built from parameters %s but the cache key only contains %s: a later request with different %s gets the stale interface" % (sorted(read), sorted(in_key), missing))
    # potential cache
    fp = m.fn("get_fmm_potential_interface")
    keyp = _cache_key(fp, "_FMM_POTENTIAL_CACHE")
    if not isinstance(keyp, ast.Tuple):
        raise AnalysisError("get_fmm_potential_interface: key tuple not found")
    readp = set()
    for n in ast.walk(fp):
        if isinstance(n, ast.Attribute) and isinstance(n.value, ast.Attribute) and unparse(n.value.value).endswith("GLOBAL_PARAMETERS"):
            readp.add("%s.%s" % (n.value.attr, n.attr))
    keytxt = " ".join(unparse(e) for e in keyp.elts)
    missingp = sorted(x for x in readp if x.split(".")[-1] not in keytxt)
    r.check(not missingp, "_FMM_POTENTIAL_CACHE", rel, "get_fmm_potential_interface", fp.lineno, "_FMM_POTENTIAL_CACHE key misses %s" % missingp,
            "the interface depends on %s, none of which is part of the cache key %s" % (missingp, keytxt))


def memo_sites(ctx):
    """`if self._x is None: self._x = f(...)` memo sites of FunctionSpace / operators: the initialiser must not depend on mutable global state."""
    r = ctx.rule("FX-MEMO", "memoised values are functions of the object's own state: the initialiser resolves no parameters=None default against the global parameters", 4)
    rel = "bempp_cl/api/space/space.py"
    m = ctx.repo.mod(rel)
    n = 0
    for qn, fn in m.functions.items():
        if not qn.startswith("FunctionSpace.") or "<" in qn:
            continue
        for st in ast.walk(fn):
            if not (isinstance(st, ast.If) and isinstance(st.test, ast.Compare) and isinstance(st.test.ops[0], ast.Is) and isinstance(st.test.comparators[0], ast.Constant) and st.test.comparators[0].value is None):
                continue
            tgt = unparse(st.test.left)
            if not tgt.startswith("self._"):
                continue
            asg = [s for s in st.body if isinstance(s, ast.Assign) and unparse(s.targets[0]) == tgt]
            if not asg:
                inner_calls = [c for s in st.body for c in calls_in(s)]
                r.ok("%s memo %s (initialised by %s)" % (qn, tgt, [unparse(c.func) for c in inner_calls][:2]))
                n += 1
                continue
            n += 1
            val = asg[0].value
            # operator factories called without a parameters argument resolve GLOBAL_PARAMETERS at first use
            bad = None
            for c in calls_in(val):
                f = unparse(c.func)
                if f in ("identity", "laplace_beltrami") or f.endswith(".identity"):
                    kws = {k.arg for k in c.keywords}
                    if "parameters" not in kws and len(c.args) < 4:
                        bad = c
            r.check(bad is None, "%s memo %s" % (qn, tgt), rel, qn, st.lineno, "memo %s initialised with default parameters" % tgt,
                    "`%s` is computed once by `%s` with parameters=None, i.e. with whatever the global quadrature order is at the first call, and returned for every later request" % (tgt, unparse(bad)[:60] if bad is not None else ""))
    if n < 4:
        raise AnalysisError("memo-site lint found only %d sites in FunctionSpace" % n)


def weak_form_memo(ctx):
    r = ctx.rule("WEAKFORM-MEMO", "weak_form() assembles once and returns the cached object on every later call (both operator base classes)", 2)
    for rel, qn in (("bempp_cl/api/assembly/boundary_operator.py", "BoundaryOperator.weak_form"), ("bempp_cl/api/assembly/blocked_operator.py", "BlockedOperatorBase.weak_form")):
        fn = ctx.repo.mod(rel).fn(qn)
        why = _memo_shape(fn, "self._cached", "self._assemble()")
        r.check(why is None, qn, rel, qn, fn.lineno, "weak_form memo of " + qn.split(".")[0], "weak_form does not memoise the assembled operator in self._cached: %s" % why)
    # embedded positive: a body that reassembles on every call
    bad = ast.parse("def weak_form(self):\n    self._cached = self._assemble()\n    return self._cached").body[0]
    r.must_fire(_memo_shape(bad, "self._cached", "self._assemble()") is not None, "unguarded re-assembly")


def _memo_shape(fn, slot, init):
    """None iff every store to `slot` is `slot = init` under an `is empty` test of the slot, and every return is the slot."""
    defs = roles.Defs(fn)

    def empty_test(t):
        if isinstance(t, ast.UnaryOp) and isinstance(t.op, ast.Not):
            return unparse(t.operand) == slot
        return isinstance(t, ast.Compare) and len(t.ops) == 1 and isinstance(t.ops[0], ast.Is) and unparse(t.left) == slot and isinstance(t.comparators[0], ast.Constant) and t.comparators[0].value is None

    stores = []

    def rec(body, guarded):
        for st in body:
            if isinstance(st, (ast.Assign, ast.AugAssign, ast.AnnAssign)):
                tg = st.targets if isinstance(st, ast.Assign) else [st.target]
                if any(unparse(t) == slot for t in tg):
                    stores.append((st, guarded))
            elif isinstance(st, ast.If):
                rec(st.body, guarded or empty_test(st.test))
                rec(st.orelse, guarded)
            elif isinstance(st, (ast.For, ast.While, ast.With, ast.Try)):
                for f in ("body", "orelse", "finalbody"):
                    rec(getattr(st, f, []) or [], guarded)
                for h in getattr(st, "handlers", []):
                    rec(h.body, guarded)

    rec(fn.body, False)
    if not stores:
        return "no store to %s" % slot
    for st, guarded in stores:
        if not guarded:
            return "%s is overwritten at line %d without testing that it is empty" % (slot, st.lineno)
        if not isinstance(st, ast.Assign) or roles.canon(st.value, defs).replace(" ", "") != init:
            return "%s is initialised with `%s`, not `%s`" % (slot, unparse(st.value)[:60], init)
    rets = [n for n in ast.walk(fn) if isinstance(n, ast.Return)]
    if not rets:
        return "no return"
    for n in rets:
        if n.value is None or roles.canon(n.value, defs).replace(" ", "") != slot:
            return "returns `%s` instead of the cached object" % (unparse(n.value)[:60] if n.value is not None else None)
    return None


def precision_pin(ctx):
    r = ctx.rule("PRECISION-PIN", "Numba assemblers compute in double precision; the requested precision only selects the result dtype", 3)
    rel = "bempp_cl/core/numba_assemblers.py"
    m = ctx.repo.mod(rel)
    for qn in ("singular_assembler", "dense_assembler", "potential_assembler"):
        fn = m.fn(qn)
        # by provenance, not by the local's name: whatever reaches grid.data(...) / get_type(...) is the literal 'double'
        defs = roles.Defs(fn, extra_scopes=[n for n in ast.walk(fn) if isinstance(n, ast.FunctionDef) and n is not fn])
        sinks = [c.args[0] for c in ast.walk(fn) if isinstance(c, ast.Call) and c.args and ((isinstance(c.func, ast.Attribute) and c.func.attr == "data") or unparse(c.func).split(".")[-1] == "get_type")]
        ok = bool(sinks) and all(roles.canon(a, defs).replace(" ", "") == "'double'" for a in sinks)
        uses_desc = any(isinstance(n, ast.Attribute) and n.attr == "precision" and unparse(n.value) == "operator_descriptor" for n in ast.walk(fn))
        r.check(ok and not uses_desc, qn, rel, qn, fn.lineno, "precision pin in " + qn, "computation precision is not pinned to 'double' (or operator_descriptor.precision is read)")


# ---------------------------------------------------------------- parameters are read when an object is built, not when it is used


PARAM_GROUPS = {"quadrature", "fmm", "assembly", "output"}  # attribute groups of DefaultParameters that affect results / files


def _escaping_closures(fn):
    """Nested functions / lambdas of fn that outlive the call: returned, stored, or passed as an argument (a nested def
    that is only ever called directly inside fn runs while fn runs and is not one of them)."""
    out = []
    for sub in ast.walk(fn):
        if sub is fn:
            continue
        if isinstance(sub, ast.Lambda):
            out.append(sub)
        elif isinstance(sub, ast.FunctionDef):
            called = {id(c.func) for c in ast.walk(fn) if isinstance(c, ast.Call) and isinstance(c.func, ast.Name) and c.func.id == sub.name}
            uses = [n for n in ast.walk(fn) if isinstance(n, ast.Name) and n.id == sub.name and isinstance(n.ctx, ast.Load) and id(n) not in called]
            if uses:
                out.append(sub)
    return out


def late_parameter_reads(tree_fn, defs):
    """[(closure, attribute node)] where an escaping closure of tree_fn reads a result-affecting group of a parameter object."""
    bad = []
    for cl in _escaping_closures(tree_fn):
        for n in ast.walk(cl):
            if not (isinstance(n, ast.Attribute) and n.attr in PARAM_GROUPS and isinstance(n.ctx, ast.Load)):
                continue
            base = roles.canon(n.value, defs).replace(" ", "") if isinstance(n.value, ast.Name) else unparse(n.value)
            if "parameters" in base.lower():
                bad.append((cl, n))
    return bad


def late_reads(ctx):
    r = ctx.rule("FX-LATE-READ", "functions handed out for later use (evaluators, matvec closures, lambdas) read no quadrature / FMM / assembly parameter: what they compute is fixed by the parameter values at the time the object was built", 1)
    n_closures, n_bad = 0, 0
    for rel in ctx.repo.py_files("bempp_cl"):
        m = ctx.repo.mod(rel)
        for qn, fn in m.functions.items():
            if "<" in qn:
                continue
            cls = _escaping_closures(fn)
            if not cls:
                continue
            n_closures += len(cls)
            defs = roles.Defs(fn)
            for cl, n in late_parameter_reads(fn, defs):
                n_bad += 1
                name = getattr(cl, "name", "<lambda>")
                r.fail("%s::%s.%s reads %s" % (rel.rsplit("/", 1)[-1], qn, name, unparse(n)), rel, qn, n.lineno, "late read of `%s` in %s.%s" % (unparse(n), qn, name),
                       "`%s`, which %s hands out for later use, reads `%s` each time it runs: the values it returns follow changes made to the parameter object (or the global parameters it aliases) after the object was built" % (name, qn, unparse(n)))
    if n_closures < 30:
        raise AnalysisError("late reads: only %d escaping closures found in the package" % n_closures)
    if not n_bad:
        r.ok("%d escaping closures, none reads a parameter group" % n_closures)
    pos = ast.parse("def make(space, parameters):\n    w = rule(parameters.quadrature.regular)\n    def evaluator(x):\n        q = rule(parameters.quadrature.regular)\n        return q\n    return evaluator\n").body[0]
    neg = ast.parse("def make(space, parameters):\n    q = rule(parameters.quadrature.regular)\n    def helper(x):\n        return rule(parameters.quadrature.regular)\n    y = helper(1)\n    def evaluator(x):\n        return q\n    return evaluator\n").body[0]
    r.must_fire(len(late_parameter_reads(pos, roles.Defs(pos))) == 1 and not late_parameter_reads(neg, roles.Defs(neg)), "evaluator closure reading parameters.quadrature.regular at call time")


# ---------------------------------------------------------------- the assembler objects: what is resolved at construction


ASSEMBLER_CLASSES = {"only_singular_part": "SingularAssembler", "only_diagonal_part": "DiagonalAssembler", "dense": "DenseAssembler", "default_nonlocal": "DenseAssembler",
                     "sparse": "SparseAssembler", "fmm": "FmmAssembler"}


def assembler_plumbing(ctx):
    """The parameter object, device interface and precision given to an operator reach its assembler unchanged."""
    from . import dispatch

    rel = "bempp_cl/api/assembly/assembler.py"
    m = ctx.repo.mod(rel)
    r = ctx.rule("ASSEMBLER-PLUMBING", "AssemblerInterface: the given parameter object is resolved once (assign_parameters) and handed, with domain / dual_to_range / device interface, to the assembler class named by the identifier; "
                 "assemble() forwards the stored device interface and precision", 9)
    fn = m.fn("_create_assembler")
    p = arg_names(fn)
    if len(p) < 4:
        raise AnalysisError("_create_assembler: signature changed")
    for ident, cls in list(ASSEMBLER_CLASSES.items()) + [("no_such_assembler", None)]:
        kind, node = dispatch.select(fn, {p[2]: ident, "check_for_fmm()": True})
        if cls is None:
            r.check(kind == "raise", "unknown identifier", rel, fn.name, fn.lineno, "_create_assembler: unknown identifier", "an unknown assembler identifier is not rejected")
            continue
        got = (unparse(node.func).split(".")[-1], [unparse(a) for a in node.args], [k.arg for k in node.keywords]) if kind == "return" and isinstance(node, ast.Call) else None
        r.check(got == (cls, [p[0], p[1], p[3]], []), "identifier %r" % ident, rel, fn.name, getattr(node, "lineno", fn.lineno), "_create_assembler(%r)" % ident,
                "identifier %r builds %s, expected %s(%s, %s, %s)" % (ident, got, cls, p[0], p[1], p[3]))
    for cname, forwards in (("AssemblerInterface", True), ("AssemblerBase", False)):
        fi = m.fn(cname + ".__init__")
        pa = arg_names(fi)
        defs = roles.Defs(fi)
        S = roles.stores(fi.body, defs, lv=False)
        par = [s for s in S if s.target == "self._parameters"]
        ok = len(par) == 1 and not par[0].guards and par[0].value.replace(" ", "").endswith("assign_parameters(parameters)") and "parameters" in pa
        r.check(ok, cname + " parameters", rel, cname + ".__init__", fi.lineno, cname + " parameter resolution",
                "self._parameters is `%s`, expected assign_parameters(<the parameters argument>), unconditionally" % ([s.value for s in par],))
        if not forwards:
            continue
        calls = [c for c in calls_in(fi) if unparse(c.func) == "_create_assembler"]
        prop = m.fn(cname + ".parameters")
        prop_ok = [roles.canon(s.value, roles.Defs(prop)) for s in ast.walk(prop) if isinstance(s, ast.Return)] == ["self._parameters"]
        got = [roles.canon(a, defs).replace(" ", "") for a in calls[0].args] if len(calls) == 1 else None
        want = [pa[1], pa[2], pa[3], None, pa[4]]
        okc = got is not None and len(got) == 5 and all(w is None or g == w for g, w in zip(got, want)) and (got[3] in ("self.parameters", "self._parameters") or got[3].replace(" ", "").endswith("assign_parameters(parameters)")) and prop_ok
        r.check(okc, cname + " -> _create_assembler", rel, cname + ".__init__", calls[0].lineno if calls else fi.lineno, "arguments of _create_assembler",
                "_create_assembler receives %s, expected (domain, dual_to_range, assembler, the resolved parameters, device_interface)" % got)
        dev = [s for s in S if s.target == "self._device_interface"]
        prec = [s for s in S if s.target == "self._precision"]
        okd = any(s.value == pa[4] and not s.guards for s in dev) and all(s.value == pa[4] or (s.guards and s.guards[-1][0].replace(" ", "") in ("(self._device_interfaceIsNone)", "(%sIsNone)" % pa[4]) and s.guards[-1][1] is True) for s in dev) \
            and [s.value for s in prec] == [pa[5]]
        r.check(okd, cname + " device / precision", rel, cname + ".__init__", fi.lineno, "stored device interface and precision",
                "device interface stores %s, precision stores %s: expected the arguments, the default device only when None was given" % ([(s.value, s.guards) for s in dev], [s.value for s in prec]))
        fa = m.fn(cname + ".assemble")
        pas = arg_names(fa)
        ca = [c for c in calls_in(fa) if unparse(c.func) == "self._implementation.assemble"]
        oka = len(ca) == 1 and [unparse(a) for a in ca[0].args[:3]] == [pas[1], "self._device_interface", "self._precision"]
        r.check(oka, cname + ".assemble", rel, cname + ".assemble", fa.lineno, "assemble forwards descriptor, device interface, precision",
                "the implementation is called with %s, expected (operator_descriptor, self._device_interface, self._precision, ...)" % ([unparse(a) for a in ca[0].args[:3]] if ca else None))
