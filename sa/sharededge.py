"""C03/C11: the 2x2 table of shared local vertex indices of an edge-adjacent pair keeps its pairing.

`_get_shared_edge_information_for_two_elements` returns columns (i, j) with elements[i, elem0] == elements[j, elem1] as
found by `_find_two_common_array_index_pairs`, possibly with the two columns exchanged (a numbering convention).
Whatever the convention, a column must stay a column: exchanging entries of one row only pairs local vertex i of the
first element with the *other* shared vertex of the second, and every edge-adjacent singular integral is then taken over
a wrongly glued pair of triangles.  The function is interpreted over a symbolic 2x2 table; on every path the result must
be the table found or the table with its columns exchanged.
"""

import ast

from .core import AnalysisError
from .src import arg_names, unparse

GRID = "bempp_cl/api/grid/grid.py"
FN = "_get_shared_edge_information_for_two_elements"


class _Ret(Exception):
    def __init__(self, v):
        self.v = v


def paths(fn):
    """[(path condition text list, returned 2x2 table of symbols)] over all branches; loops over range(2) are unrolled."""
    p = arg_names(fn)
    out = []

    def ev(e, env):
        if isinstance(e, ast.Constant):
            return e.value
        if isinstance(e, ast.Name):
            if e.id in env:
                return env[e.id]
            raise AnalysisError("%s: name %s not modelled" % (FN, e.id))
        if isinstance(e, ast.Subscript) and isinstance(e.slice, ast.Tuple) and len(e.slice.elts) == 2:
            m = ev(e.value, env)
            i, j = ev(e.slice.elts[0], env), ev(e.slice.elts[1], env)
            if isinstance(m, list) and isinstance(i, int) and isinstance(j, int):
                if not (0 <= i < len(m) and 0 <= j < len(m[i])):
                    raise _Ret(("out-of-range", "%s reads outside the 2 x 2 table of index pairs" % unparse(e)))
                return m[i][j]
        raise AnalysisError("%s: expression not modelled: %s" % (FN, unparse(e)[:60]))

    def run(body, env, cond):
        for k, st in enumerate(body):
            if isinstance(st, ast.Expr) and isinstance(st.value, ast.Constant):
                continue
            if isinstance(st, ast.Assign) and len(st.targets) == 1:
                t = st.targets[0]
                if isinstance(t, ast.Name) and isinstance(st.value, ast.Call):
                    f = unparse(st.value.func)
                    if f != "_find_two_common_array_index_pairs":
                        raise AnalysisError("%s: call not modelled: %s" % (FN, f))
                    args = [unparse(a).replace(" ", "") for a in st.value.args]
                    if args != ["%s[:,%s]" % (p[0], p[1]), "%s[:,%s]" % (p[0], p[2])]:
                        raise _Ret(("bad-args", args))
                    env[t.id] = [["a", "b"], ["c", "d"]]
                elif isinstance(t, ast.Name):
                    env[t.id] = ev(st.value, env)
                elif isinstance(t, ast.Subscript) and isinstance(t.slice, ast.Tuple):
                    m = ev(t.value, env)
                    i, j = ev(t.slice.elts[0], env), ev(t.slice.elts[1], env)
                    if not (isinstance(m, list) and isinstance(i, int) and isinstance(j, int) and 0 <= i < len(m) and 0 <= j < len(m[i])):
                        raise _Ret(("out-of-range", "%s writes outside the 2 x 2 table of index pairs" % unparse(t)))
                    m[i][j] = ev(st.value, env)
                else:
                    raise AnalysisError("%s: store not modelled: %s" % (FN, unparse(st)[:60]))
            elif isinstance(st, ast.If):
                for branch, taken in ((st.body, True), (st.orelse, False)):
                    e2 = {k2: ([r[:] for r in v] if isinstance(v, list) else v) for k2, v in env.items()}
                    try:
                        run(list(branch) + body[k + 1:], e2, cond + [("" if taken else "not ") + unparse(st.test)])
                    except _Ret as r:
                        out.append((cond + [("" if taken else "not ") + unparse(st.test)], r.v))
                return
            elif isinstance(st, ast.For) and isinstance(st.target, ast.Name) and isinstance(st.iter, ast.Call) and unparse(st.iter.func) == "range" \
                    and all(isinstance(a, ast.Constant) and isinstance(a.value, int) for a in st.iter.args) and not st.iter.keywords:
                for i in range(*[a.value for a in st.iter.args]):
                    env[st.target.id] = i
                    run(st.body, env, cond)
            elif isinstance(st, ast.Return):
                raise _Ret(ev(st.value, env))
            else:
                raise AnalysisError("%s: statement not modelled: %s" % (FN, unparse(st)[:60]))

    try:
        run(fn.body, {}, [])
    except _Ret as r:
        out.append(([], r.v))
    return out


def shared_edge_columns(ctx):
    r = ctx.rule("SHARED-EDGE-COLUMNS", "the shared-edge index table returned for an edge-adjacent pair is the table of matching local vertices of (first element, second element), as found or with its two columns exchanged as a whole", 2)
    fn = ctx.repo.mod(GRID).fn(FN)
    ps = paths(fn)
    if len(ps) < 2:
        raise AnalysisError("%s: expected at least two paths (convention swap and no swap), found %d" % (FN, len(ps)))
    good = ([["a", "b"], ["c", "d"]], [["b", "a"], ["d", "c"]])
    for cond, tab in ps:
        name = " and ".join(cond) or "straight"
        if isinstance(tab, tuple) and tab and tab[0] == "bad-args":
            r.check(False, "path " + name[:60], GRID, FN, fn.lineno, "shared-edge table arguments", "the matching vertices are searched in %s, expected (vertices of the first element, vertices of the second element)" % (tab[1],))
            continue
        r.check(tab in good, "path " + name[:60], GRID, FN, fn.lineno, "shared-edge table on path `%s`" % name[:50],
                "on the path `%s` the function returns %s for the table [[a, b], [c, d]] found: local vertex pairs (a, c) and (b, d) are torn apart" % (name, tab))
    bad = ast.parse("def f(elements, elem0, elem1):\n    ip = _find_two_common_array_index_pairs(elements[:, elem0], elements[:, elem1])\n    if ip[1, 1] < ip[1, 0]:\n        tmp = ip[1, 0]\n        ip[1, 0] = ip[1, 1]\n        ip[1, 1] = tmp\n    return ip\n").body[0]
    r.must_fire(any(t not in good for _, t in paths(bad)), "only the second row is exchanged")
