"""Symbolic evaluation of Grid._compute_geometric_quantities (vectorised numpy) per element.

Every array in that function has a leading axis of k*E rows, k rows per element, and the value of row k*e + j depends
only on the three vertices of element e.  The evaluator represents such an array by its k per-element rows, each an
exact KEX value (alg.V) in the nine atoms v{j}{c} = coordinate c of vertex j of the element; index arrays are rows of
affine forms a*e + c.  The handful of numpy operations the function uses (fancy indexing by such index arrays, strided
slices, repeat/tile/reshape/swapaxes/sum/cross/norm/det/inv/dot) are interpreted on that representation; anything
else is an AnalysisError.  The published attributes are then compared with the defining formulas for a general
triangle, so the verdict holds for every non-degenerate element of every grid.
"""

import ast

from .alg import V, cross, dot, vsum
from .core import AnalysisError
from .src import unparse

NP = ("_np", "np", "numpy")


class B:
    """k rows per element; each row a 3-vector (list of V) when vec else a scalar V."""

    def __init__(self, rows, vec):
        self.rows, self.vec, self.k = rows, vec, len(rows)


class Idx:
    """k rows per element of affine index values a*e + c (as pairs)."""

    def __init__(self, rows):
        self.rows, self.k = rows, len(rows)


class M:
    """One r x c matrix per element."""

    def __init__(self, ent):
        self.ent = ent
        self.r, self.c = len(ent), len(ent[0])

    @property
    def T(self):
        return M([[self.ent[i][j] for i in range(self.r)] for j in range(self.c)])

    def dot(self, o):
        if self.c != o.r:
            raise AnalysisError("geometry: matrix shapes do not match in dot")
        return M([[vsum(self.ent[i][k] * o.ent[k][j] for k in range(self.c)) for j in range(o.c)] for i in range(self.r)])


class Unset:
    """np.empty((E, r, c)) filled per element inside a loop."""

    def __init__(self, r, c):
        self.r, self.c, self.value = r, c, None


class E_:
    pass


E = E_()  # the symbol number_of_elements


def vertex_atoms():
    return [[V.atom("v%d%d" % (j, c)) for c in range(3)] for j in range(3)]


def _npcall(n, name):
    if isinstance(n, ast.Call):
        f = unparse(n.func)
        parts = f.split(".")
        return parts[0] in NP and ".".join(parts[1:]) == name
    return False


class GeomEval:
    def __init__(self, fn, properties):
        self.fn = fn
        self.props = properties  # {public property name: private attribute}
        self.env = {}
        self.attrs = {}
        self.loopvar = None

    # ---- expressions
    def ev(self, n):
        if isinstance(n, ast.Constant):
            if isinstance(n.value, (int, float)):
                from fractions import Fraction

                return V.const(Fraction(str(n.value)) if isinstance(n.value, float) else Fraction(n.value))
            raise AnalysisError("geometry: constant %r" % (n.value,))
        if isinstance(n, ast.Name):
            if n.id == self.loopvar:
                return "e"
            if n.id in self.env:
                return self.env[n.id]
            raise AnalysisError("geometry: unknown name %s" % n.id)
        if isinstance(n, ast.Attribute):
            txt = unparse(n)
            if txt == "self.number_of_elements":
                return E
            if isinstance(n.value, ast.Name) and n.value.id == "self":
                priv = self.props.get(n.attr, n.attr if n.attr.startswith("_") else None)
                if priv in self.attrs:
                    return self.attrs[priv]
            if n.attr == "T":
                v = self.ev(n.value)
                if isinstance(v, M):
                    return v.T
            raise AnalysisError("geometry: unsupported attribute %s" % txt)
        if isinstance(n, ast.BinOp):
            return self.binop(n)
        if isinstance(n, ast.UnaryOp) and isinstance(n.op, ast.USub):
            return self.scale(self.ev(n.operand), V.const(-1))
        if isinstance(n, ast.Subscript):
            return self.subscript(n)
        if isinstance(n, ast.Call):
            return self.call(n)
        if isinstance(n, (ast.List, ast.Tuple)):
            return [self.ev(x) for x in n.elts]
        raise AnalysisError("geometry: unsupported expression %s" % unparse(n)[:60])

    def scale(self, x, s):
        if isinstance(x, V):
            return x * s
        if isinstance(x, B):
            return B([[c * s for c in r] if x.vec else r * s for r in x.rows], x.vec)
        if isinstance(x, M):
            return M([[c * s for c in r] for r in x.ent])
        raise AnalysisError("geometry: cannot scale %s" % type(x).__name__)

    def binop(self, n):
        a, b = self.ev(n.left), self.ev(n.right)
        op = type(n.op)
        if op is ast.MatMult and isinstance(a, M) and isinstance(b, M):
            return a.dot(b)  # (the loader spells x.dot(y) as x @ y)
        # index arithmetic
        if isinstance(a, Idx) or isinstance(b, Idx):
            if op is ast.Mult and isinstance(a, V) and isinstance(b, Idx):
                a, b = b, a
            if op is ast.Mult and isinstance(a, Idx) and isinstance(b, V):
                c = _int(b)
                return Idx([(x * c, y * c) for x, y in a.rows])
            if op is ast.Add and isinstance(a, Idx) and isinstance(b, Idx) and a.k == b.k:
                return Idx([(x1 + x2, y1 + y2) for (x1, y1), (x2, y2) in zip(a.rows, b.rows)])
            raise AnalysisError("geometry: unsupported index arithmetic %s" % unparse(n)[:60])
        if isinstance(a, V) and isinstance(b, V):
            return {ast.Add: lambda: a + b, ast.Sub: lambda: a - b, ast.Mult: lambda: a * b, ast.Div: lambda: a / b}[op]()
        if op is ast.Mult and isinstance(a, V):
            return self.scale(b, a)
        if op is ast.Mult and isinstance(b, V):
            return self.scale(a, b)
        if op is ast.Div and isinstance(b, V):
            return self.scale(a, V.const(1) / b)
        if isinstance(a, B) and isinstance(b, B) and a.k == b.k:
            f = {ast.Add: lambda x, y: x + y, ast.Sub: lambda x, y: x - y, ast.Mult: lambda x, y: x * y, ast.Div: lambda x, y: x / y}[op]
            if a.vec and b.vec:
                return B([[f(x, y) for x, y in zip(r1, r2)] for r1, r2 in zip(a.rows, b.rows)], True)
            if not a.vec and not b.vec:
                return B([f(x, y) for x, y in zip(a.rows, b.rows)], False)
            if a.vec and getattr(b, "column", False):  # (n, 3) op (n, 1): broadcast over components
                return B([[f(x, s) for x in r] for r, s in zip(a.rows, b.rows)], True)
        raise AnalysisError("geometry: unsupported operands in %s" % unparse(n)[:60])

    def subscript(self, n):
        base = self.ev(n.value)
        sl = n.slice
        if isinstance(base, B) and isinstance(sl, ast.Slice):
            lo = _int(self.ev(sl.lower)) if sl.lower is not None else 0
            st = _int(self.ev(sl.step)) if sl.step is not None else 1
            if sl.upper is not None or st <= 0 or st % base.k and base.k % st:
                raise AnalysisError("geometry: unsupported slice %s" % unparse(n)[:60])
            if st % base.k == 0 and st == base.k:
                return B([base.rows[lo]], base.vec)
            if base.k % st == 0:
                return B([base.rows[j] for j in range(lo, base.k, st)], base.vec)
            raise AnalysisError("geometry: unsupported stride %s" % unparse(n)[:60])
        if isinstance(base, B):
            idx = self.ev(sl)
            if isinstance(idx, Idx):
                rows = []
                for a, c in idx.rows:
                    if a != base.k or not 0 <= c < base.k:
                        raise AnalysisError("geometry: gather index %d*e+%d leaves the rows of element e (k=%d)" % (a, c, base.k))
                    rows.append(base.rows[c])
                return B(rows, base.vec)
        if isinstance(base, (M, Unset)) and isinstance(sl, ast.Name) and sl.id == self.loopvar:
            if isinstance(base, Unset):
                if base.value is None:
                    raise AnalysisError("geometry: per-element matrix read before it is filled")
                return base.value
            return base
        if isinstance(base, str) and base == "ELEMENT_VERTICES":
            pass
        raise AnalysisError("geometry: unsupported subscript %s" % unparse(n)[:60])

    def call(self, n):
        f = unparse(n.func)
        kw = {k.arg: k.value for k in n.keywords}
        if _npcall(n, "arange") and len(n.args) == 1 and self.ev(n.args[0]) is E:
            return Idx([(1, 0)])
        if _npcall(n, "repeat"):
            x, cnt = self.ev(n.args[0]), _int(self.ev(n.args[1]))
            if isinstance(x, Idx) and x.k == 1 and not kw:
                return Idx([x.rows[0]] * cnt)
            if isinstance(x, B) and x.k == 1 and (not x.vec or ("axis" in kw and _int(self.ev(kw["axis"])) == 0)):
                return B([x.rows[0]] * cnt, x.vec)
            raise AnalysisError("geometry: unsupported repeat %s" % unparse(n)[:60])
        if _npcall(n, "tile") and len(n.args) == 2 and self.ev(n.args[1]) is E:
            pat = self.ev(n.args[0])
            return Idx([(0, _int(p)) for p in pat])
        if _npcall(n, "reshape") or (isinstance(n.func, ast.Attribute) and n.func.attr == "reshape" and not _npcall(n, "reshape")):
            if _npcall(n, "reshape"):
                x, shp = self.ev(n.args[0]), n.args[1]
            else:
                x, shp = self.ev(n.func.value), (n.args[0] if len(n.args) == 1 else ast.Tuple(elts=list(n.args)))
            dims = [self.ev(d) for d in shp.elts]
            if isinstance(x, B) and x.vec and len(dims) == 3 and dims[0] is E and _int(dims[1]) == x.k and _int(dims[2]) == 3:
                return M([list(r) for r in x.rows])
            raise AnalysisError("geometry: unsupported reshape %s" % unparse(n)[:60])
        if _npcall(n, "sum") and "axis" in kw:
            x, ax = self.ev(n.args[0]), _int(self.ev(kw["axis"]))
            if isinstance(x, M) and ax == 1:
                return B([[vsum(x.ent[i][c] for i in range(x.r)) for c in range(x.c)]], True)
            raise AnalysisError("geometry: unsupported sum %s" % unparse(n)[:60])
        if _npcall(n, "cross"):
            a, b = self.ev(n.args[0]), self.ev(n.args[1])
            if isinstance(a, B) and isinstance(b, B) and a.vec and b.vec and a.k == b.k and _int(self.ev(kw.get("axis", ast.Constant(value=1)))) == 1:
                return B([cross(x, y) for x, y in zip(a.rows, b.rows)], True)
        if _npcall(n, "linalg.norm"):
            x = self.ev(n.args[0])
            if isinstance(x, B) and x.vec and "axis" in kw and _int(self.ev(kw["axis"])) == 1:
                return B([dot(r, r).sqrt() for r in x.rows], False)
        if _npcall(n, "expand_dims"):
            x = self.ev(n.args[0])
            if isinstance(x, B) and not x.vec and _int(self.ev(n.args[1])) == 1:
                y = B(list(x.rows), False)
                y.column = True
                return y
        if _npcall(n, "swapaxes"):
            x = self.ev(n.args[0])
            if isinstance(x, M) and sorted((_int(self.ev(n.args[1])), _int(self.ev(n.args[2])))) == [1, 2]:
                return x.T
        if _npcall(n, "empty"):
            shp = n.args[0]
            dims = [self.ev(d) for d in shp.elts] if isinstance(shp, ast.Tuple) else [self.ev(shp)]
            if len(dims) == 3 and dims[0] is E:
                return Unset(_int(dims[1]), _int(dims[2]))
        if _npcall(n, "sqrt"):
            x = self.ev(n.args[0])
            if isinstance(x, B) and not x.vec:
                return B([r.sqrt() for r in x.rows], False)
        if _npcall(n, "linalg.det"):
            x = self._matrix(self.ev(n.args[0]))
            if x.r == x.c == 2:
                return B([x.ent[0][0] * x.ent[1][1] - x.ent[0][1] * x.ent[1][0]], False)
        if _npcall(n, "linalg.inv"):
            x = self._matrix(self.ev(n.args[0]))
            if x.r == x.c == 2:
                det = x.ent[0][0] * x.ent[1][1] - x.ent[0][1] * x.ent[1][0]
                return M([[x.ent[1][1] / det, V.const(0) - x.ent[0][1] / det], [V.const(0) - x.ent[1][0] / det, x.ent[0][0] / det]])
        if isinstance(n.func, ast.Attribute) and n.func.attr == "dot" and len(n.args) == 1:
            a, b = self.ev(n.func.value), self.ev(n.args[0])
            if isinstance(a, M) and isinstance(b, M):
                return a.dot(b)
        if (_npcall(n, "maximum") or _npcall(n, "minimum") or _npcall(n, "clip")) and len(n.args) >= 2:
            # clamping a per-element scalar (a norm, an area) by a constant: the result is the clamped quantity, a
            # different function of the vertices than the unclamped one (they differ for small / large elements); it gets
            # its own atom, so every definition that uses it is DECIDED to deviate.  max(x, 0) of a norm is the norm.
            x = self.ev(n.args[0])
            if isinstance(x, B) and not x.vec:
                lo = n.args[1]
                if _npcall(n, "maximum") and isinstance(lo, ast.Constant) and lo.value == 0:
                    return x
                tag = unparse(n.func).split(".")[-1] + "(" + ",".join(unparse(a).replace(" ", "")[:24] for a in n.args[1:]) + ")"
                return B([V.atom("%s⟨%d⟩" % (tag, i)) * r for i, r in enumerate(x.rows)], False)
        if isinstance(n.func, ast.Attribute) and n.func.attr == "flatten":
            raise AnalysisError("geometry: flatten outside the vertex gather")
        raise AnalysisError("geometry: unsupported call %s" % unparse(n)[:70])

    def _matrix(self, x):
        if isinstance(x, Unset):
            if x.value is None:
                raise AnalysisError("geometry: matrix used before it is filled")
            return x.value
        if isinstance(x, M):
            return x
        raise AnalysisError("geometry: matrix expected")

    # ---- statements
    def gather_vertices(self, node):
        """self.vertices.T[self.elements.flatten(order='F')]  (row 3e+j = vertex j of element e)."""
        t = unparse(node).replace(" ", "").replace('"', "'")
        return t in ("self.vertices.T[self.elements.flatten(order='F')]", "self.vertices.T[self.elements.T.flatten()]", "self.vertices.T[self.elements.T.ravel()]",
                     "self.vertices[:,self.elements.flatten(order='F')].T", "self.vertices.T[_np.ravel(self.elements,order='F')]")

    def run(self):
        self.block(self.fn.body)
        return self.attrs

    def block(self, body):
        for st in body:
            if isinstance(st, ast.Expr) and isinstance(st.value, ast.Constant):
                continue
            if isinstance(st, ast.Assign) and len(st.targets) == 1:
                t = st.targets[0]
                # locals that merely name a fragment (`idx = self.elements.flatten(order="F")`) are read through
                from . import roles

                if getattr(self, "_defs", None) is None:
                    self._defs = roles.Defs(self.fn)
                value = roles.inline(st.value, self._defs, keep=tuple(self.env))  # quantities already evaluated stay names
                if self.gather_vertices(value):
                    val = B(vertex_atoms(), True)
                else:
                    try:
                        val = self.ev(value)
                    except AnalysisError:
                        if isinstance(t, ast.Name):
                            continue  # a fragment that is no geometric quantity on its own; its readers see the expression
                        raise
                if isinstance(t, ast.Name):
                    self.env[t.id] = val
                elif isinstance(t, ast.Attribute) and isinstance(t.value, ast.Name) and t.value.id == "self":
                    self.attrs[t.attr] = val
                elif isinstance(t, ast.Subscript) and isinstance(t.slice, ast.Name) and t.slice.id == self.loopvar:
                    tgt = self.ev(t.value) if not (isinstance(t.value, ast.Attribute) and unparse(t.value.value) == "self") else self.attrs.get(t.value.attr)
                    if not isinstance(tgt, Unset) or not isinstance(val, M) or (val.r, val.c) != (tgt.r, tgt.c):
                        raise AnalysisError("geometry: per-element store %s does not fill an allocated (E, r, c) array with an r x c matrix" % unparse(st)[:70])
                    tgt.value = val
                else:
                    raise AnalysisError("geometry: unsupported assignment target %s" % unparse(t)[:60])
            elif isinstance(st, ast.For) and isinstance(st.target, ast.Name) and unparse(st.iter).replace(" ", "") == "range(self.number_of_elements)" and not st.orelse:
                self.loopvar = st.target.id
                self.block(st.body)
                self.loopvar = None
            else:
                raise AnalysisError("geometry: unsupported statement %s" % unparse(st)[:70])


def _int(v):
    if isinstance(v, int):
        return v
    if isinstance(v, V):
        p = v.aspoly()
        if p is not None and p.isconst():
            c = p.constval()
            if c.im == 0 and c.re.denominator == 1:
                return int(c.re)
    raise AnalysisError("geometry: integer expected")


def expected():
    """Defining formulas on a general triangle (v0, v1, v2)."""
    v = vertex_atoms()
    a = [v[1][c] - v[0][c] for c in range(3)]
    b = [v[2][c] - v[0][c] for c in range(3)]
    n = cross(a, b)
    nn = dot(n, n).sqrt()
    ab = [x - y for x, y in zip(a, b)]
    J = M([[a[c], b[c]] for c in range(3)])
    JtJ = J.T.dot(J)
    det = JtJ.ent[0][0] * JtJ.ent[1][1] - JtJ.ent[0][1] * JtJ.ent[1][0]
    inv = M([[JtJ.ent[1][1] / det, V.const(0) - JtJ.ent[0][1] / det], [V.const(0) - JtJ.ent[1][0] / det, JtJ.ent[0][0] / det]])
    third = V.const(1) / V.const(3)
    return {
        "_volumes": nn * (V.const(1) / V.const(2)),
        "_normals": [x / nn for x in n],
        "_jacobians": J,
        "_diameters": dot(a, a).sqrt() * dot(b, b).sqrt() * dot(ab, ab).sqrt() / nn,
        "_centroids": [(v[0][c] + v[1][c] + v[2][c]) * third for c in range(3)],
        "_integration_elements": nn,
        "_jacobian_inverse_transposed": J.dot(inv),
        "#lagrange": (det, dot(n, n)),
        "#J": J,
    }


def _flat(x):
    if isinstance(x, Unset):
        x = x.value
    if isinstance(x, B) and x.k == 1:
        return list(x.rows[0]) if x.vec else [x.rows[0]]
    if isinstance(x, M):
        return [c for row in x.ent for c in row]
    raise AnalysisError("geometry: attribute of unexpected shape")


def equivariance(got):
    """Translation and scaling behaviour of the computed attributes, by exact substitution in the symbolic results.
    Returns [(description, holds)]."""
    out = []
    t = [V.atom("t%d" % c) for c in range(3)]
    s = V.atom("s")
    tr = {"v%d%d" % (j, c): V.atom("v%d%d" % (j, c)) + t[c] for j in range(3) for c in range(3)}
    sc = {"v%d%d" % (j, c): V.atom("v%d%d" % (j, c)) * s for j in range(3) for c in range(3)}
    degree = {"_volumes": 2, "_integration_elements": 2, "_diameters": 1, "_normals": 0, "_jacobians": 1, "_jacobian_inverse_transposed": -1, "_centroids": 1}
    for attr, deg in degree.items():
        if attr not in got:
            out.append(("%s assigned" % attr, False))
            continue
        vals = _flat(got[attr])
        moved = [v.subs(tr) for v in vals]
        if attr == "_centroids":
            ok_t = all(m.eq(v + t[c]) for c, (m, v) in enumerate(zip(moved, vals)))
            out.append(("centroids move with the translation", ok_t))
        else:
            out.append(("%s invariant under translation (depends on vertex differences only)" % attr[1:], all(m.eq(v) for m, v in zip(moved, vals))))
        scaled = [v.subs(sc) for v in vals]
        # compare squares where a square root of s^2 appears: |s| = s for s > 0
        fac = V.const(1)
        for _ in range(abs(deg)):
            fac = fac * s
        want = [(v * fac if deg >= 0 else v / fac) for v in vals]
        # rational attributes compare directly; where |x| = sqrt(x.x) occurs, sqrt(s^2 p) is a different atom than
        # s sqrt(p), so squares are compared (s > 0)
        ok_s = all(a.eq(b) or (a * a).eq(b * b) for a, b in zip(scaled, want))
        out.append(("%s homogeneous of degree %d under scaling (squares compared; s > 0)" % (attr[1:], deg), ok_s))
    return out
