"""KEX front end for the OpenCL C subset of kernels.h and the shapeset headers.

A ~250-line tokenizer / recursive-descent parser for ``inline void f(params) { decl | assign | call | if }``
and a lane-wise symbolic evaluator into ``alg.V``.  Vector types (REALTYPE4/8/16)
are evaluated for one generic lane: every operation of the subset acts
lane-wise, and any lane-specific construct (swizzles, VEC_ELEMENT) is rejected
as outside the subset.  Preprocessor lines are dropped; the constants
M_INV_4PI, M_ONE ... are supplied symbolically and their literals are checked
separately against 1/(4 pi) to printed precision.
"""

import re
from fractions import Fraction as F

from .alg import INV4PI, V, vsum
from .core import AnalysisError

TOK = re.compile(
    r"\s*(?:(//[^\n]*|/\*.*?\*/)|(\d+\.\d*(?:[eE][-+]?\d+)?f?|\d+(?:[eE][-+]?\d+)?f?)|([A-Za-z_]\w*)|(->|\*=|\+=|-=|/=|!=|==|<=|>=|&&|\|\||[-+*/=;,.\[\](){}&<>!]))",
    re.S,
)


def tokenize(src, rel):
    src = re.sub(r"^[ \t]*#.*?(?<!\\)$", "", src, flags=re.M | re.S)
    src = re.sub(r"^[ \t]*#(?:[^\n]*\\\n)*[^\n]*$", "", src, flags=re.M)
    pos = 0
    out = []
    line = 1
    while pos < len(src):
        m = TOK.match(src, pos)
        if not m:
            if src[pos:].strip() == "":
                break
            raise AnalysisError("C front end: cannot tokenize %s near %r" % (rel, src[pos : pos + 40]))
        line += src.count("\n", pos, m.end())
        pos = m.end()
        if m.group(1):
            continue
        if m.group(2):
            out.append(("num", m.group(2), line))
        elif m.group(3):
            out.append(("id", m.group(3), line))
        else:
            out.append(("op", m.group(4), line))
    return out


class CFunc:
    def __init__(self, name, params, body, line):
        self.name, self.params, self.body, self.line = name, params, body, line


class Parser:
    def __init__(self, toks, rel):
        self.t = toks
        self.i = 0
        self.rel = rel

    def peek(self, k=0):
        return self.t[self.i + k] if self.i + k < len(self.t) else ("eof", "", -1)

    def eat(self, val=None):
        tk = self.peek()
        if tk[0] == "eof" or (val is not None and tk[1] != val):
            raise AnalysisError("C front end: %s line %s: expected %r, got %r" % (self.rel, tk[2], val, tk[1]))
        self.i += 1
        return tk

    def functions(self):
        fns = {}
        while self.peek()[0] != "eof":
            if self.peek()[1] == "inline":
                line = self.eat()[2]
                self.eat("void")
                name = self.eat()[1]
                self.eat("(")
                params = []
                while self.peek()[1] != ")":
                    while self.peek()[1] in ("const", "__global", "__local", "__private"):
                        self.eat()
                    ty = self.eat()[1]
                    ptr = False
                    if self.peek()[1] == "*":
                        self.eat()
                        ptr = True
                    pn = self.eat()[1]
                    dims = []
                    while self.peek()[1] == "[":
                        self.eat()
                        dims.append(int(self.eat()[1]))
                        self.eat("]")
                    params.append((ty, ptr, pn, dims))
                    if self.peek()[1] == ",":
                        self.eat()
                self.eat(")")
                body = self.block()
                if name in fns:
                    raise AnalysisError("C front end: duplicate function %s in %s" % (name, self.rel))
                fns[name] = CFunc(name, params, body, line)
            else:
                self.eat()
        return fns

    def block(self):
        self.eat("{")
        st = []
        while self.peek()[1] != "}":
            st.append(self.stmt())
        self.eat("}")
        return st

    def stmt(self):
        tk = self.peek()
        if tk[1] == "if":
            self.eat()
            self.eat("(")
            c = self.expr()
            self.eat(")")
            b = self.block() if self.peek()[1] == "{" else [self.stmt()]
            if self.peek()[1] == "else":
                raise AnalysisError("C front end: %s line %s: else branch outside subset" % (self.rel, tk[2]))
            return ("if", c, b, tk[2])
        if tk[0] == "id" and (tk[1].startswith("REALTYPE") or tk[1] in ("float", "double", "int", "size_t")):
            ty = self.eat()[1]
            name = self.eat()[1]
            dims = []
            while self.peek()[1] == "[":
                self.eat()
                dims.append(int(self.eat()[1]))
                self.eat("]")
            init = None
            if self.peek()[1] == "=":
                self.eat()
                init = self.expr()
            self.eat(";")
            return ("decl", ty, name, dims, init, tk[2])
        e = self.expr()
        if self.peek()[1] in ("=", "*=", "+=", "-=", "/="):
            op = self.eat()[1]
            r = self.expr()
            self.eat(";")
            return ("assign", op, e, r, tk[2])
        self.eat(";")
        return ("expr", e, tk[2])

    def expr(self):
        return self.cmp()

    def cmp(self):
        l = self.add()
        while self.peek()[1] in ("!=", "==", "<", ">", "<=", ">="):
            op = self.eat()[1]
            l = (op, l, self.add())
        return l

    def add(self):
        l = self.mul()
        while self.peek()[1] in ("+", "-"):
            op = self.eat()[1]
            l = (op, l, self.mul())
        return l

    def mul(self):
        l = self.un()
        while self.peek()[1] in ("*", "/"):
            op = self.eat()[1]
            l = (op, l, self.un())
        return l

    def un(self):
        if self.peek()[1] == "-":
            self.eat()
            return ("neg", self.un())
        if self.peek()[1] == "+":
            self.eat()
            return self.un()
        if self.peek()[1] == "*":
            self.eat()
            return ("deref", self.un())
        return self.post()

    def post(self):
        tk = self.eat()
        if tk[1] == "(":
            # cast like (REALTYPE4)(x) is outside the subset unless trivial
            e = self.expr()
            self.eat(")")
        elif tk[0] == "num":
            e = ("num", tk[1])
        elif tk[0] == "id":
            if self.peek()[1] == "(":
                self.eat()
                args = []
                while self.peek()[1] != ")":
                    args.append(self.expr())
                    if self.peek()[1] == ",":
                        self.eat()
                self.eat(")")
                e = ("call", tk[1], args)
            else:
                e = ("id", tk[1])
        else:
            raise AnalysisError("C front end: %s line %s: unexpected token %r" % (self.rel, tk[2], tk[1]))
        while self.peek()[1] in ("[", ".", "->"):
            o = self.eat()[1]
            if o == "[":
                i = self.expr()
                self.eat("]")
                e = ("idx", e, i)
            else:
                e = ("mem", e, self.eat()[1])
        return e


class Vec3:
    def __init__(self, c):
        self.c = list(c)


class Vec2:
    def __init__(self, c):
        self.c = list(c)


class CArr:
    def __init__(self):
        self.d = {}


def parse_file(ctx, rel):
    src = ctx.repo.text(rel)
    return Parser(tokenize(src, rel), rel).functions()


class Ev:
    def __init__(self, fns, consts, rel):
        self.fns = fns
        self.consts = consts
        self.rel = rel
        self.ifs = []
        self.skip = False
        self.skip_sign = False
        self.sign_ifs = []

    def err(self, line, msg):
        raise AnalysisError("C front end: %s line %s: %s" % (self.rel, line, msg))

    def call(self, name, argvals, skip=False):
        if name not in self.fns:
            raise AnalysisError("C front end: unknown function %s" % name)
        f = self.fns[name]
        if len(f.params) != len(argvals):
            raise AnalysisError("C front end: arity mismatch calling %s" % name)
        env = {}
        for (ty, ptr, pn, dims), v in zip(f.params, argvals):
            env[pn] = v
        self.skip = skip
        self.run(f.body, env)
        return env

    def const_index(self, e, env, line):
        v = self.ev(e, env, line)
        if isinstance(v, V):
            p = v.aspoly()
            if p is not None and p.isconst() and p.constval().re.denominator == 1 and not p.constval().im:
                return int(p.constval().re)
        self.err(line, "non-literal array index")

    def run(self, body, env):
        for st in body:
            k = st[0]
            if k == "decl":
                _, ty, name, dims, init, line = st
                if dims:
                    env[name] = CArr()
                else:
                    env[name] = self.ev(init, env, line) if init is not None else None
            elif k == "assign":
                _, op, l, r, line = st
                rv = self.ev(r, env, line)
                if op != "=":
                    cur = self.ev(l, env, line)
                    if cur is None:
                        self.err(line, "compound assignment to uninitialised variable")
                    rv = {"*=": lambda a, b: a * b, "+=": lambda a, b: a + b, "-=": lambda a, b: a - b, "/=": lambda a, b: a / b}[op](cur, self.tv(rv))
                self.store(l, rv, env, line)
            elif k == "expr":
                e, line = st[1], st[2]
                if e[0] != "call":
                    self.err(line, "expression statement outside subset")
                args = [self.ev(a, env, line) for a in e[2]]
                sub = Ev(self.fns, self.consts, self.rel)
                sub.call(e[1], args)
            elif k == "if":
                _, c, b, line = st
                # only `param != 0` guards, and guards on the SIGN of a parameter (followed both ways by the caller)
                if c[0] not in ("!=", "<", ">", "<=", ">="):
                    self.err(line, "if-test outside subset")
                lhs = self.ev(c[1], env, line)
                rhs = self.ev(c[2], env, line)
                if not (isinstance(rhs, V) and rhs.iszero() and isinstance(lhs, V) and len(lhs.atoms()) == 1):
                    self.err(line, "if-test is not `<parameter> != 0`")
                if c[0] != "!=":
                    self.sign_ifs.append("%s %s 0 (line %d)" % (sorted(lhs.atoms())[0], c[0], line))
                    if not self.skip_sign:
                        self.run(b, env)
                    continue
                self.ifs.append(sorted(lhs.atoms())[0])
                if not self.skip:
                    self.run(b, env)

    def store(self, l, v, env, line):
        if l[0] == "id":
            env[l[1]] = v
        elif l[0] == "deref":
            if l[1][0] != "id":
                self.err(line, "store through non-trivial pointer")
            env[l[1][1]].d[(0,)] = self.tv(v)
        elif l[0] == "idx":
            idx = []
            b = l
            while b[0] == "idx":
                idx.insert(0, self.const_index(b[2], env, line))
                b = b[1]
            if b[0] != "id" or not isinstance(env.get(b[1]), CArr):
                self.err(line, "indexed store into non-array")
            env[b[1]].d[tuple(idx)] = self.tv(v)
        else:
            self.err(line, "unsupported store target")

    def tv(self, x):
        if isinstance(x, (V, Vec3, Vec2)):
            return x
        return V.const(x)

    def ev(self, e, env, line):
        k = e[0]
        if k == "num":
            return V.const(F(e[1].rstrip("f")))
        if k == "id":
            if e[1] in env:
                v = env[e[1]]
                if v is None:
                    self.err(line, "read of uninitialised %s" % e[1])
                return v
            if e[1] in self.consts:
                return self.consts[e[1]]
            self.err(line, "unknown identifier %s" % e[1])
        if k == "neg":
            v = self.ev(e[1], env, line)
            return Vec3([-c for c in v.c]) if isinstance(v, Vec3) else -v
        if k in ("+", "-", "*", "/"):
            a = self.ev(e[1], env, line)
            b = self.ev(e[2], env, line)
            if isinstance(a, Vec3) and isinstance(b, Vec3):
                if k not in "+-":
                    self.err(line, "vector product outside subset")
                return Vec3([(x + y) if k == "+" else (x - y) for x, y in zip(a.c, b.c)])
            if isinstance(a, (Vec3, Vec2, CArr)) or isinstance(b, (Vec3, Vec2, CArr)):
                self.err(line, "mixed vector/scalar arithmetic outside subset")
            return {"+": lambda: a + b, "-": lambda: a - b, "*": lambda: a * b, "/": lambda: a / b}[k]()
        if k == "mem":
            base = self.ev(e[1], env, line)
            if isinstance(base, (Vec3, Vec2)) and e[2] in "xyz"[: len(base.c)] and len(e[2]) == 1:
                return base.c["xyz".index(e[2])]
            self.err(line, "member .%s outside subset" % e[2])
        if k == "idx":
            idx = []
            b = e
            while b[0] == "idx":
                idx.insert(0, self.const_index(b[2], env, line))
                b = b[1]
            arr = self.ev(b, env, line)
            if not isinstance(arr, CArr):
                self.err(line, "index into non-array")
            if tuple(idx) not in arr.d:
                self.err(line, "read of unset array element %s%s" % (b[1] if b[0] == "id" else "?", idx))
            return arr.d[tuple(idx)]
        if k == "deref":
            arr = self.ev(e[1], env, line)
            if isinstance(arr, CArr) and (0,) in arr.d:
                return arr.d[(0,)]
            self.err(line, "dereference outside subset")
        if k == "call":
            a = [self.ev(x, env, line) for x in e[2]]
            f = e[1]
            dot = lambda u, v: vsum(x * y for x, y in zip(u.c, v.c))
            if f == "dot" and len(a) == 2:
                return dot(a[0], a[1])
            if f == "length" and len(a) == 1:
                return dot(a[0], a[0]).sqrt()
            if f == "distance" and len(a) == 2:
                d = Vec3([x - y for x, y in zip(a[0].c, a[1].c)])
                return dot(d, d).sqrt()
            if f == "sqrt":
                return a[0].sqrt()
            if f == "rsqrt":
                return V.const(1) / a[0].sqrt()
            if f in ("exp", "cos", "sin"):
                return getattr(a[0], f)()
            self.err(line, "call to %s outside subset" % f)
        self.err(line, "expression outside subset")


def base_constants(ctx):
    """Symbolic constants of bempp_base_types.h plus a check of their literals (both precisions).

    Returns (consts, problems) where problems lists literal mismatches."""
    rel = "bempp_cl/core/sources/include/bempp_base_types.h"
    src = ctx.repo.text(rel)
    import math
    from decimal import Decimal, getcontext

    getcontext().prec = 40
    pi = Decimal("3.14159265358979323846264338327950288419716939937510")
    want = {"M_ZERO": Decimal(0), "M_ONE": Decimal(1), "M_TWO": Decimal(2), "M_4PI": 4 * pi, "M_INV_4PI": 1 / (4 * pi)}
    problems = []
    seen = {}
    for m in re.finditer(r"^\s*#define\s+(M_[A-Z0-9_]+)\s+([-+0-9.eE]+)(f?)\s*$", src, flags=re.M):
        name, lit, single = m.group(1), m.group(2), m.group(3)
        if name not in want:
            continue
        line = src.count("\n", 0, m.start()) + 1
        seen.setdefault(name, []).append(lit)
        d = Decimal(lit)
        digits = len(lit.split(".")[1]) if "." in lit else 0
        tol = Decimal(10) ** (-digits)  # one unit in the last printed digit
        if single:  # an `f` literal may be the decimal print-out of the nearest float32
            tol += abs(want[name]) * Decimal(2) ** (-23)
        if abs(d - want[name]) > tol:
            problems.append((name, lit, line))
    for name in want:
        if len(seen.get(name, [])) < 2:
            raise AnalysisError("constant %s is not defined for both precisions in %s" % (name, rel))
    consts = {
        "M_INV_4PI": INV4PI,
        "M_4PI": V.const(1) / INV4PI,
        "M_ONE": V.const(1),
        "M_TWO": V.const(2),
        "M_ZERO": V.const(0),
    }
    return consts, problems


def precision_typedefs(ctx):
    """[(line, precision value, typedef'd base type, alias)] of the `typedef <type> <ALIAS>;` lines inside the
    `#if PRECISION == <k>` ... `#endif` blocks of bempp_base_types.h (one level of conditional nesting)."""
    rel = "bempp_cl/core/sources/include/bempp_base_types.h"
    src = ctx.repo.text(rel)
    out, cur, depth = [], None, 0
    for i, line in enumerate(src.split("\n"), 1):
        t = line.strip()
        m = re.match(r"#\s*if\s+PRECISION\s*==\s*(\d+)\s*$", t)
        if m and cur is None:
            cur, depth = int(m.group(1)), 0
            continue
        if cur is not None:
            if re.match(r"#\s*if", t):
                depth += 1
            elif re.match(r"#\s*endif", t):
                if depth == 0:
                    cur = None
                else:
                    depth -= 1
            else:
                m = re.match(r"typedef\s+([A-Za-z_]\w*)\s+([A-Za-z_]\w*)\s*;", t)
                if m:
                    out.append((i, cur, m.group(1), m.group(2)))
    return rel, out
