"""Grid functions, projections, integrals, multiplication operator (C13) — symbolic kernels and role forwarding."""

import ast

from . import assemblers as A
from . import roles, symex
from .alg import V, vsum
from .core import AnalysisError
from .src import arg_names, calls_in, unparse
from .symex import Arr, Interp, Opq, OpqArr, opaque_atom, sigma, tov

GF = "bempp_cl/api/assembly/grid_function.py"
BO = "bempp_cl/api/assembly/boundary_operator.py"


def _setup(ctx, fname, extra=None):
    m = ctx.repo.mod(GF)
    fn = m.fn(fname)
    params = arg_names(fn)
    symex.reset()
    hooks = A.Hooks(ctx, "gridfun")
    hd = hooks.as_dict()
    N = lambda s: opaque_atom("#" + s)
    NQ = N("quad")
    pool = {
        "coefficients": Arr("coefficients", "input", ndim=1, shape=[N("dofs")]),
        "grid_data": A.Grid("grid_data"),
        "support_elements": Arr("support_elements", "input", ndim=1, shape=[N("support")]),
        "local2global": Arr("local2global", "input", ndim=2, shape=[N("g"), N("nshape")]),
        "local_multipliers": Arr("local_multipliers", "input", ndim=2, shape=[N("g"), N("nshape")]),
        "normal_multipliers": Arr("normal_multipliers", "input", ndim=1, shape=[N("g")]),
        "evaluate_on_element": Opq("evaluate_on_element", "basis3"),
        "shapeset_evaluate": Opq("shapeset_evaluate", "shapeset_obj"),
        "points": Arr("points", "input", ndim=2, shape=[2, NQ]),
        "quad_points": Arr("points", "input", ndim=2, shape=[2, NQ]),
        "weights": Arr("weights", "input", ndim=1, shape=[NQ]),
        "codomain_dimension": N("dim"),
        "number_of_shape_functions": N("nshape"),
        "projections": Arr("projections", "input", ndim=1, shape=[N("dofs")]),
        "function_parameters": Arr("function_parameters", "input", ndim=1, shape=[N("fp")]),
        "function_data": Arr("function_data", "input", ndim=2, shape=[N("dim"), N("support") * NQ]),
        "fun": Opq("fun", "userfun"),
    }
    if extra:
        pool.update(extra)
    env = {}
    for p in params:
        if p not in pool:
            raise AnalysisError("%s: unknown parameter %s" % (fname, p))
        env[p] = pool[p]

    def opaque_call(it, f, args, node):
        if f.kind == "basis3":
            b = A.BasisEval(f.desc, args)
            b.ndim = 3
            return b
        return hooks.opaque_call(it, f, args, node)

    def shape(it, arr, axis):
        if isinstance(arr, A.BasisEval) and getattr(arr, "ndim", None) == 3:
            return [N("dim"), N("nshape"), NQ][axis]
        return None

    hd["opaque_call"] = opaque_call
    hd["shape"] = shape
    it = Interp(m, fn, env, hd)
    return m, fn, it


def _B(E, d, f, q):
    return opaque_atom("B(evaluate_on_element)[shapeset_evaluate|points|grid_data|local_multipliers|normal_multipliers]", [E, d, f, q])


def _find_B(v):
    out = []
    for a in v.atoms():
        if a in symex.ATOMS and symex.ATOMS[a][0].startswith("B(evaluate_on_element)"):
            out.append(symex.ATOMS[a][1])
    return out


def integrate_kernel(ctx):
    r = ctx.rule("GF-INTEGRATE", "_integrate: result[d] = sum over support elements, shape functions and points of basis value * weight * coefficient * integration element (multiplier applied once, inside the evaluator)", 1)
    m, fn, it = _setup(ctx, "_integrate")
    res = it.run()
    if not isinstance(res, Arr):
        raise AnalysisError("_integrate does not return its accumulator")
    d = symex.fresh("d")
    symex.RANGES[d] = opaque_atom("#dim")
    val = tov(it.read(res, [V.atom(d)], fn))
    Bs = _find_B(val)
    ok = False
    msg = "no basis evaluation enters the integral"
    if Bs:
        E, dd, f, q = Bs[0]
        pos = None
        ed = A.destructure(E, "support_elements", 1)
        if ed:
            pos = A._single_atom(ed[0])
        fv, qv = A._single_atom(f), A._single_atom(q)
        if pos and fv and qv and dd.eq(V.atom(d)):
            exp = (_B(E, V.atom(d), f, q) * opaque_atom("weights", [q]) * opaque_atom("coefficients", [opaque_atom("local2global", [E, f])])
                   * opaque_atom("grid_data.integration_elements", [E]) * sigma(pos) * sigma(fv) * sigma(qv))
            ok = val.eq(exp)
            if not ok:
                extra = val / exp if not exp.iszero() else None
                msg = "accumulated value is not sum_E sum_f sum_q B[E,d,f,q] * w[q] * c[local2global[E,f]] * J[E]"
                lm = opaque_atom("local_multipliers", [E, f])
                if val.eq(exp * lm):
                    msg += ": an extra factor local_multipliers[E, f] multiplies the evaluator output, which already contains it (multiplier applied twice)"
    r.check(ok, "_integrate", GF, fn.name, fn.lineno, "_integrate integrand" + (" (extra local_multipliers factor)" if "twice" in msg else ""), msg)


def project_vectorized(ctx):
    r = ctx.rule("GF-PROJECT", "projection kernels: projections[local2global[E, f]] += sum_d sum_q B[E,d,f,q] * f_d(point q of element E) * w[q] * J[E]; function data laid out element-position-major", 3)
    m, fn, it = _setup(ctx, "_project_function_vectorized")
    it.run()
    ws = [w for w in it.writes if w[0].desc == "projections"]
    ok = False
    msg = "no accumulation into projections"
    if len(ws) == 1 and ws[0][1] == "+=":
        arr, op, idx, term, loops, node = ws[0]
        l2 = A.destructure(idx[0], "local2global", 2)
        Bs = _find_B(term)
        if l2 and Bs:
            E, f = l2
            Eb, dd, fb, q = Bs[0]
            pos = A._single_atom(A.destructure(E, "support_elements", 1)[0]) if A.destructure(E, "support_elements", 1) else None
            dv, qv = A._single_atom(dd), A._single_atom(q)
            if pos and dv and qv and Eb.eq(E) and fb.eq(f):
                nq = opaque_atom("#quad")
                exp = (_B(E, dd, f, q) * opaque_atom("function_data", [dd, V.atom(pos) * nq + q]) * opaque_atom("weights", [q])
                       * opaque_atom("grid_data.integration_elements", [E]) * sigma(dv) * sigma(qv))
                ok = term.eq(exp)
                msg = "accumulated term differs from sum_d sum_q B[E,d,f,q] * function_data[d, npoints*position + q] * w[q] * J[E]"
            else:
                msg = "basis values are evaluated for element %s / function %s but scattered to local2global[%s, %s]" % (symex.idx_str(Eb), symex.idx_str(fb), symex.idx_str(E), symex.idx_str(f))
        else:
            msg = "projections are indexed with %s, expected local2global[element, local function]" % symex.idx_str(idx[0])
    r.check(ok, "_project_function_vectorized", GF, fn.name, fn.lineno, "vectorized projection integrand", msg)
    # layout of the function data producer
    m2, fn2, it2 = _setup(ctx, "get_function_quadrature_information")
    ret = it2.run()
    okl = False
    if isinstance(ret, tuple) and len(ret) == 3 and all(isinstance(x, Arr) for x in ret):
        pos, q = symex.fresh("pos"), symex.fresh("q")
        nq = opaque_atom("#quad")
        symex.RANGES[pos], symex.RANGES[q] = opaque_atom("#support"), nq
        E = opaque_atom("support_elements", [V.atom(pos)])
        slot = nq * V.atom(pos) + V.atom(q)
        xi = [opaque_atom("points", [c, V.atom(q)]) for c in range(2)]
        okl = all(it2.read(ret[0], [V.const(c), slot], fn2).eq(opaque_atom("X(grid_data)", [E, c] + xi)) for c in range(3))
        okl = okl and all(it2.read(ret[1], [V.const(c), slot], fn2).eq(opaque_atom("grid_data.normals", [E, c]) * opaque_atom("normal_multipliers", [E])) for c in range(3))
        okl = okl and it2.read(ret[2], [slot], fn2).eq(opaque_atom("grid_data.domain_indices", [E]))
    r.check(okl, "get_function_quadrature_information", GF, fn2.name, fn2.lineno, "function quadrature information layout",
            "points/normals/domain indices are not stored at slot npoints*position + q for the q-th point of the position-th support element (normals times normal multiplier)")
    # scalar (non-vectorised) projection: same accumulation statement, affine point map by barycentric formula
    fn3 = m.fn("_project_function")
    s = unparse(fn3).replace(" ", "")
    bary = ("(1.0-points[0]-points[1])*grid_data.vertices[j,grid_data.elements[0,index]]+points[0]*grid_data.vertices[j,grid_data.elements[1,index]]+points[1]*grid_data.vertices[j,grid_data.elements[2,index]]" in s)
    acc = ("projections[local2global[index,local_fun_index]]+=_np.sum(_np.sum(element_vals[:,local_fun_index,:]*fvalues*weights,axis=0))*grid_data.integration_elements[index]" in s)
    call = "fun(point,grid_data.normals[index]*normal_multipliers[index],grid_data.domain_indices[index],fun_result,function_parameters)" in s and "fvalues[:,j]=fun_result" in s and "point=global_points[:,j]" in s
    r.check(bary and acc and call, "_project_function", GF, fn3.name, fn3.lineno, "scalar projection kernel shape",
            "point map / callable arguments / accumulation statement of _project_function changed shape (bary=%s acc=%s call=%s)" % (bary, acc, call))


FORWARD = {
    "_integrate": ("GridFunction.integrate", {
        "coefficients": "self.grid_coefficients", "grid_data": "self.space.grid.data(*)", "support_elements": "self.space.support_elements",
        "local2global": "self.space.local2global", "local_multipliers": "self.space.local_multipliers", "normal_multipliers": "self.space.normal_multipliers",
        "evaluate_on_element": "self.space.numba_evaluate", "shapeset_evaluate": "self.space.shapeset.evaluate",
        "points": "rule(self._parameters.quadrature.regular)[0]", "weights": "rule(self._parameters.quadrature.regular)[1]",
        "codomain_dimension": "self.component_count", "number_of_shape_functions": "self.space.number_of_shape_functions"}),
}


def forwarding(ctx):
    r = ctx.rule("GF-FORWARD", "call sites of the grid-function kernels pass, for each parameter, the table of the space the kernel is documented to use", 3)
    m = ctx.repo.mod(GF)
    for callee, (caller, table) in FORWARD.items():
        fn = m.fn(caller)
        defs = roles.Defs(fn)
        cs = [c for c in calls_in(fn) if isinstance(c.func, ast.Name) and c.func.id == callee]
        if len(cs) != 1:
            raise AnalysisError("%s: call of %s not found" % (caller, callee))
        params = arg_names(m.fn(callee))
        bad = []
        for k, p in enumerate(params):
            got = roles.canon(cs[0].args[k], defs).replace(" ", "") if k < len(cs[0].args) else None
            if got is None or not roles.match(table[p], got):
                bad.append("%s <- %s (expected %s)" % (p, got, table[p]))
        r.check(not bad, "%s -> %s" % (caller, callee), GF, caller, cs[0].lineno, "arguments of %s: %s" % (callee, "; ".join(bad)), "; ".join(bad))
    # projection kernels in GridFunction.__init__: every table comes from the dual space representation
    fn = m.fn("GridFunction.__init__")
    defs = roles.Defs(fn)
    CD = "return_compatible_representation(space,dual_space)[1]"
    CS = "return_compatible_representation(space,dual_space)[0]"
    common = {
        "grid_data": CD + ".grid.data(*)", "support_elements": CD + ".support_elements", "local2global": CD + ".local2global", "local_multipliers": CD + ".local_multipliers",
        "normal_multipliers": CD + ".normal_multipliers", "evaluate_on_element": CD + ".numba_evaluate", "shapeset_evaluate": CD + ".shapeset.evaluate",
        "codomain_dimension": CS + ".codomain_dimension",
    }
    for callee in ("_project_function", "_project_function_vectorized"):
        cs = [c for c in calls_in(fn) if isinstance(c.func, ast.Name) and c.func.id == callee]
        if len(cs) != 1:
            raise AnalysisError("GridFunction.__init__: call of %s not found" % callee)
        params = arg_names(m.fn(callee))
        bad = []
        for k, p in enumerate(params):
            if p in common:
                got = roles.canon(cs[0].args[k], defs).replace(" ", "")
                if not roles.match(common[p], got):
                    bad.append("%s <- %s" % (p, got[-70:]))
        r.check(not bad, "GridFunction.__init__ -> %s" % callee, GF, "GridFunction.__init__", cs[0].lineno, "arguments of %s: %s" % (callee, "; ".join(bad)), "; ".join(bad))


def evaluate_rules(ctx):
    m = ctx.repo.mod(GF)
    r = ctx.rule("GF-EVALUATE", "evaluate contracts the space's basis values (multiplier included) with grid_coefficients[local2global[element]]; vertex / centre evaluation use the reference vertices / centroid", 3)
    fn = m.fn("GridFunction.evaluate")
    defs = roles.Defs(fn)
    ret = [s for s in fn.body if isinstance(s, ast.Return)][0]
    got = roles.canon(ret.value, defs).replace(" ", "")
    want = roles.canon_text("_np.tensordot(self.space.evaluate(element_index, local_coordinates), self.grid_coefficients[self.space.local2global[element_index]], axes=([1], [0]))").replace(" ", "")
    r.check(got == want, "GridFunction.evaluate", GF, fn.name, fn.lineno, "evaluate returns " + got[:120], "evaluate returns `%s`" % got)
    from . import bary
    fc = m.fn("GridFunction.evaluate_on_element_centers")
    lc = None
    for st in fc.body:
        if isinstance(st, ast.Assign) and unparse(st.targets[0]) == "local_coordinates":
            lc = bary.frac_table(st.value)
    from fractions import Fraction as F
    src = unparse(fc).replace(" ", "")
    okc = lc == [[F(1, 3)], [F(1, 3)]] and "forindexinself.space.support_elements:" in src and "values[:,index]=local_values.flat" in src and "local_values=self.evaluate(index,local_coordinates)" in src
    r.check(okc, "evaluate_on_element_centers", GF, fc.name, fc.lineno, "element centre evaluation", "element-centre values are not evaluate(element, (1/3, 1/3)) stored at the element's own column")
    fv = m.fn("GridFunction.evaluate_on_vertices")
    lv = None
    for st in fv.body:
        if isinstance(st, ast.Assign) and unparse(st.targets[0]) == "local_coordinates":
            lv = bary.frac_table(st.value)
    sv = unparse(fv).replace(" ", "")
    okv = (lv == [[F(0), F(1), F(0)], [F(0), F(0), F(1)]] and "index=grid.elements[i,element_index]" in sv and "element_area=grid.volumes[element_index]" in sv
           and "values[:,index]+=local_values[:,i]*element_area" in sv and "vertex_areas[index]+=element_area" in sv and "values[:,vertex_used]/=vertex_areas[vertex_used]" in sv)
    r.check(okv, "evaluate_on_vertices", GF, fv.name, fv.lineno, "vertex evaluation", "vertex values are not the area-weighted average of evaluate(element, reference vertex i) accumulated at grid.elements[i, element]")


ELEM_TABLES = {"integration_elements", "normals", "volumes", "jacobians", "jac_inv_trans", "diameters", "centroids", "domain_indices", "local2global", "local_multipliers", "normal_multipliers"}
NDARRAY_METHODS = {"reshape", "ravel", "flatten", "astype", "dot", "sum", "transpose", "copy", "conj", "conjugate", "tolist", "squeeze"}


def repo_lints(ctx):
    """Two repository-wide IDX/PROTO lints with zero expected findings."""
    r1 = ctx.rule("IDX-ELEM-BY-POSITION", "inside `for pos, elem in enumerate(elements)`: tables indexed by element number are not indexed by the enumerate position", 1)
    r2 = ctx.rule("PROTO-METHOD-SUBSCRIPT", "no subscript is applied to a bound ndarray method (x.reshape[...] is always a TypeError)", 1)
    n_loops = 0
    bad1, bad2 = [], []
    for rel in ctx.repo.py_files("bempp_cl"):
        m = ctx.repo.mod(rel)
        for qn, fn in m.functions.items():
            if "<" in qn:
                continue
            for node in ast.walk(fn):
                if isinstance(node, ast.For) and isinstance(node.iter, ast.Call) and unparse(node.iter.func) == "enumerate" and isinstance(node.target, ast.Tuple) and len(node.target.elts) == 2 \
                        and all(isinstance(t, ast.Name) for t in node.target.elts):
                    n_loops += 1
                    pos = node.target.elts[0].id
                    for sub in ast.walk(node):
                        if isinstance(sub, ast.Subscript) and isinstance(sub.value, ast.Attribute) and sub.value.attr in ELEM_TABLES:
                            first = sub.slice.elts[0] if isinstance(sub.slice, ast.Tuple) else sub.slice
                            if isinstance(first, ast.Name) and first.id == pos:
                                bad1.append((rel, qn, sub.lineno, unparse(sub)))
                if isinstance(node, ast.Subscript) and isinstance(node.value, ast.Attribute) and node.value.attr in NDARRAY_METHODS and isinstance(node.ctx, ast.Load):
                    bad2.append((rel, qn, node.lineno, unparse(node)))
    if n_loops < 10:
        raise AnalysisError("enumerate-loop lint found only %d loops" % n_loops)
    if not bad1:
        r1.ok("%d enumerate loops" % n_loops)
    for rel, qn, ln, txt in bad1:
        r1.fail("%s::%s" % (rel.split("/")[-1], qn), rel, qn, ln, "element table indexed by position: " + txt, "`%s` indexes an element-numbered table with the enumerate position" % txt)
    if not bad2:
        r2.ok("no method subscripts")
    for rel, qn, ln, txt in bad2:
        r2.fail("%s::%s" % (rel.split("/")[-1], qn), rel, qn, ln, "subscript of bound method: " + txt[:60], "`%s` subscripts a bound method" % txt[:80])
    pos = ast.parse("for i, e in enumerate(els):\n    y = g.integration_elements[i]").body[0]
    hit = [s for s in ast.walk(pos) if isinstance(s, ast.Subscript) and isinstance(s.value, ast.Attribute) and s.value.attr in ELEM_TABLES and isinstance(s.slice, ast.Name) and s.slice.id == "i"]
    r1.must_fire(bool(hit), "integration_elements[position]")
    r2.must_fire(isinstance(ast.parse("y.reshape[0]").body[0].value.value, ast.Attribute), "y.reshape[0]")
