"""Grid functions, projections, integrals, multiplication operator (C13) — symbolic kernels and role forwarding."""

import ast
import re

from . import assemblers as A
from . import roles, symex
from .alg import V, vsum
from .core import AnalysisError
from .src import arg_names, calls_in, unparse
from .symex import Arr, Interp, Opq, OpqArr, opaque_atom, sigma, tov

GF = "bempp_cl/api/assembly/grid_function.py"
BO = "bempp_cl/api/assembly/boundary_operator.py"


def _setup(ctx, fname, extra=None):
    m = ctx.repo.mod(GF)
    fn = m.fn(fname)
    params = arg_names(fn)
    symex.reset()
    hooks = A.Hooks(ctx, "gridfun")
    hd = hooks.as_dict()
    N = lambda s: opaque_atom("#" + s)
    NQ = N("quad")
    pool = {
        "coefficients": Arr("coefficients", "input", ndim=1, shape=[N("dofs")]),
        "grid_data": A.Grid("grid_data"),
        "support_elements": Arr("support_elements", "input", ndim=1, shape=[N("support")]),
        "local2global": Arr("local2global", "input", ndim=2, shape=[N("g"), N("nshape")]),
        "local_multipliers": Arr("local_multipliers", "input", ndim=2, shape=[N("g"), N("nshape")]),
        "normal_multipliers": Arr("normal_multipliers", "input", ndim=1, shape=[N("g")]),
        "evaluate_on_element": Opq("evaluate_on_element", "basis3"),
        "shapeset_evaluate": Opq("shapeset_evaluate", "shapeset_obj"),
        "points": Arr("points", "input", ndim=2, shape=[2, NQ]),
        "quad_points": Arr("points", "input", ndim=2, shape=[2, NQ]),
        "weights": Arr("weights", "input", ndim=1, shape=[NQ]),
        "codomain_dimension": N("dim"),
        "number_of_shape_functions": N("nshape"),
        "projections": Arr("projections", "input", ndim=1, shape=[N("dofs")]),
        "function_parameters": Arr("function_parameters", "input", ndim=1, shape=[N("fp")]),
        "function_data": Arr("function_data", "input", ndim=2, shape=[N("dim"), N("support") * NQ]),
        "fun": Opq("fun", "userfun"),
    }
    if extra:
        pool.update(extra)
    env = {}
    for p in params:
        if p not in pool:
            raise AnalysisError("%s: unknown parameter %s" % (fname, p))
        env[p] = pool[p]

    def opaque_call(it, f, args, node):
        if f.kind == "basis3":
            b = A.BasisEval(f.desc, args)
            b.ndim = 3
            return b
        return hooks.opaque_call(it, f, args, node)

    def shape(it, arr, axis):
        if isinstance(arr, A.BasisEval) and getattr(arr, "ndim", None) == 3:
            return [N("dim"), N("nshape"), NQ][axis]
        return None

    hd["opaque_call"] = opaque_call
    hd["shape"] = shape
    it = Interp(m, fn, env, hd)
    return m, fn, it


def _B(E, d, f, q):
    return opaque_atom("B(evaluate_on_element)[shapeset_evaluate|points|grid_data|local_multipliers|normal_multipliers]", [E, d, f, q])


def _find_B(v):
    out = []
    for a in v.atoms():
        if a in symex.ATOMS and symex.ATOMS[a][0].startswith("B(evaluate_on_element)"):
            out.append(symex.ATOMS[a][1])
    return out


def integrate_kernel(ctx):
    r = ctx.rule("GF-INTEGRATE", "_integrate: result[d] = sum over support elements, shape functions and points of basis value * weight * coefficient * integration element (multiplier applied once, inside the evaluator)", 1)
    m, fn, it = _setup(ctx, "_integrate")
    res = it.run()
    if not isinstance(res, Arr):
        raise AnalysisError("_integrate does not return its accumulator")
    d = symex.fresh("d")
    symex.RANGES[d] = opaque_atom("#dim")
    val = tov(it.read(res, [V.atom(d)], fn))
    Bs = _find_B(val)
    ok = False
    msg = "no basis evaluation enters the integral"
    if Bs:
        E, dd, f, q = Bs[0]
        pos = None
        ed = A.destructure(E, "support_elements", 1)
        if ed:
            pos = A._single_atom(ed[0])
        fv, qv = A._single_atom(f), A._single_atom(q)
        if pos and fv and qv and dd.eq(V.atom(d)):
            exp = (_B(E, V.atom(d), f, q) * opaque_atom("weights", [q]) * opaque_atom("coefficients", [opaque_atom("local2global", [E, f])])
                   * opaque_atom("grid_data.integration_elements", [E]) * sigma(pos) * sigma(fv) * sigma(qv))
            ok = val.eq(exp)
            if not ok:
                extra = val / exp if not exp.iszero() else None
                msg = "accumulated value is not sum_E sum_f sum_q B[E,d,f,q] * w[q] * c[local2global[E,f]] * J[E]"
                lm = opaque_atom("local_multipliers", [E, f])
                if val.eq(exp * lm):
                    msg += ": an extra factor local_multipliers[E, f] multiplies the evaluator output, which already contains it (multiplier applied twice)"
    r.check(ok, "_integrate", GF, fn.name, fn.lineno, "_integrate integrand" + (" (extra local_multipliers factor)" if "twice" in msg else ""), msg)


def project_vectorized(ctx):
    r = ctx.rule("GF-PROJECT", "projection kernels: projections[local2global[E, f]] += sum_d sum_q B[E,d,f,q] * f_d(point q of element E) * w[q] * J[E]; function data laid out element-position-major", 3)
    m, fn, it = _setup(ctx, "_project_function_vectorized")
    it.run()
    ws = [w for w in it.writes if w[0].desc == "projections"]
    ok = False
    msg = "no accumulation into projections"
    if len(ws) == 1 and ws[0][1] == "+=":
        arr, op, idx, term, loops, node = ws[0]
        l2 = A.destructure(idx[0], "local2global", 2)
        Bs = _find_B(term)
        if l2 and Bs:
            E, f = l2
            Eb, dd, fb, q = Bs[0]
            pos = A._single_atom(A.destructure(E, "support_elements", 1)[0]) if A.destructure(E, "support_elements", 1) else None
            dv, qv = A._single_atom(dd), A._single_atom(q)
            if pos and dv and qv and Eb.eq(E) and fb.eq(f):
                nq = opaque_atom("#quad")
                exp = (_B(E, dd, f, q) * opaque_atom("function_data", [dd, V.atom(pos) * nq + q]) * opaque_atom("weights", [q])
                       * opaque_atom("grid_data.integration_elements", [E]) * sigma(dv) * sigma(qv))
                ok = term.eq(exp)
                msg = "accumulated term differs from sum_d sum_q B[E,d,f,q] * function_data[d, npoints*position + q] * w[q] * J[E]"
            else:
                msg = "basis values are evaluated for element %s / function %s but scattered to local2global[%s, %s]" % (symex.idx_str(Eb), symex.idx_str(fb), symex.idx_str(E), symex.idx_str(f))
        else:
            msg = "projections are indexed with %s, expected local2global[element, local function]" % symex.idx_str(idx[0])
    r.check(ok, "_project_function_vectorized", GF, fn.name, fn.lineno, "vectorized projection integrand", msg)
    # layout of the function data producer
    m2, fn2, it2 = _setup(ctx, "get_function_quadrature_information")
    ret = it2.run()
    okl = False
    if isinstance(ret, tuple) and len(ret) == 3 and all(isinstance(x, Arr) for x in ret):
        pos, q = symex.fresh("pos"), symex.fresh("q")
        nq = opaque_atom("#quad")
        symex.RANGES[pos], symex.RANGES[q] = opaque_atom("#support"), nq
        E = opaque_atom("support_elements", [V.atom(pos)])
        slot = nq * V.atom(pos) + V.atom(q)
        xi = [opaque_atom("points", [c, V.atom(q)]) for c in range(2)]
        okl = all(it2.read(ret[0], [V.const(c), slot], fn2).eq(opaque_atom("X(grid_data)", [E, c] + xi)) for c in range(3))
        okl = okl and all(it2.read(ret[1], [V.const(c), slot], fn2).eq(opaque_atom("grid_data.normals", [E, c]) * opaque_atom("normal_multipliers", [E])) for c in range(3))
        okl = okl and it2.read(ret[2], [slot], fn2).eq(opaque_atom("grid_data.domain_indices", [E]))
    r.check(okl, "get_function_quadrature_information", GF, fn2.name, fn2.lineno, "function quadrature information layout",
            "points/normals/domain indices are not stored at slot npoints*position + q for the q-th point of the position-th support element (normals times normal multiplier)")
    # scalar (non-vectorised) projection: same accumulation statement, affine point map by barycentric formula
    fn3 = m.fn("_project_function")
    ok3, why3 = _scalar_projection_shape(fn3)
    if ok3 is None:
        raise AnalysisError("_project_function: construction not recognised: " + why3)
    r.check(ok3, "_project_function", GF, fn3.name, fn3.lineno, "scalar projection kernel shape", why3)


def _scalar_projection_shape(fn):
    """_project_function: x_q = affine image of the reference points on element E, f_q = fun(x_q, n_E * nm_E, dom_E),
    projections[l2g[E, f]] += sum_{d,q} B_E[d, f, q] f[d, q] w[q] * J_E  for every support element E."""
    defs = roles.Defs(fn)
    P = dict(zip(("FUN", "G", "SUP", "L2G", "LM", "NM", "EV", "SE", "PTS", "W", "CD", "PROJ", "FP"), arg_names(fn)))
    if len(P) != 13:
        return None, "unexpected signature"
    S = roles.stores(fn.body, defs, lv=False)
    acc = [s for s in S if s.op == "Add=" and isinstance(s.tnode, ast.Subscript) and unparse(s.tnode.value) == P["PROJ"]]
    if not acc:
        other = [s for s in S if isinstance(s.tnode, ast.Subscript) and unparse(s.tnode.value) == P["PROJ"] and len(s.loops) == 2]
        if len(other) == 1:
            return False, "the element contribution is not ADDED to the projection vector (`%s` with operator %s): contributions of different elements to one dof do not sum" % (other[0].target[:50], other[0].op)
    if len(acc) != 1 or len(acc[0].loops) != 2 or acc[0].guards:
        return None, "no single unguarded `projections[...] += ...` inside (element loop, local function loop)"
    a = acc[0]
    lE, lF = a.loops
    if not (isinstance(lE.target, ast.Name) and isinstance(lF.target, ast.Name)) or roles.canon(lE.iter, defs) != P["SUP"]:
        return False, "outer loop does not run over the support elements"
    E, F = lE.target.id, lF.target.id
    ex = lambda src, line, **kw: roles.expect(src, defs, line, lv=False, E=E, F=F, **dict(P, **kw))
    B = "EV(E, SE, PTS, G, LM, NM)"
    if roles.canon(lF.iter, defs).replace(" ", "") not in (ex("range(%s.shape[1])" % B, lF.lineno),):
        return False, "the local-function loop does not cover every shape function of the evaluated basis"
    calls = [s for s in S if s.op == "call" and isinstance(s.vnode.func, ast.Name) and s.vnode.func.id == P["FUN"]]
    if len(calls) != 1 or len(calls[0].loops) != 2 or calls[0].loops[0] is not lE or len(calls[0].vnode.args) != 5:
        return None, "the user callable is not called once per (element, quadrature point) with 5 arguments"
    c = calls[0]
    Q = c.loops[1].target.id if isinstance(c.loops[1].target, ast.Name) else None
    out = c.vnode.args[3]
    if Q is None or not isinstance(out, ast.Name) or roles.canon(c.loops[1].iter, defs).replace(" ", "") != ex("range(PTS.shape[1])", c.node.lineno):
        return False, "the quadrature-point loop does not run over range(points.shape[1])"
    # the point passed to the callable is column Q of the mapped points
    pt = roles.canon(c.vnode.args[0], defs).replace(" ", "")
    m_ = re.fullmatch(r"(\w+)\[\(:,%s\)\]" % re.escape(Q), pt)
    if not m_:
        return False, "the callable receives `%s`, not column q of the mapped quadrature points" % pt[:60]
    GP = m_.group(1)
    out_c = roles.canon(out, defs).replace(" ", "")
    want_args = [ex("G.normals[E] * NM[E]", c.node.lineno), ex("G.domain_indices[E]", c.node.lineno), out_c, P["FP"]]
    got_args = [roles.canon(x, defs).replace(" ", "") for x in c.vnode.args[1:]]
    if got_args != want_args:
        return False, "the callable receives (normal, domain index, out, parameters) = %s" % [g[:50] for g in got_args]
    gp = [s for s in S if isinstance(s.tnode, ast.Subscript) and unparse(s.tnode.value) == GP]
    if len(gp) != 1 or len(gp[0].loops) != 2 or gp[0].loops[0] is not lE or not isinstance(gp[0].loops[1].target, ast.Name):
        return None, "mapped points are not filled once per element, row by row"
    J = gp[0].loops[1].target.id
    aff = "(1.0 - PTS[0] - PTS[1]) * G.vertices[J, G.elements[0, E]] + PTS[0] * G.vertices[J, G.elements[1, E]] + PTS[1] * G.vertices[J, G.elements[2, E]]"
    if gp[0].target != ex("GP[J]", gp[0].node.lineno, GP=GP, J=J) or gp[0].value != ex(aff, gp[0].node.lineno, J=J) or roles.canon(gp[0].loops[1].iter, defs) != "range(3)":
        return False, "the global points are not the affine image (1-x-y) v0 + x v1 + y v2 of the reference points on the element's own vertices"
    fv = [s for s in S if s.op == "=" and isinstance(s.vnode, ast.Name) and s.vnode.id == out.id and isinstance(s.tnode, ast.Subscript) and s.loops == c.loops and s.node.lineno > c.node.lineno]
    if len(fv) != 1 or not isinstance(fv[0].tnode.value, ast.Name) or fv[0].target != ex("FV[:, Q]", fv[0].node.lineno, FV=fv[0].tnode.value.id, Q=Q):
        return False, "the callable's result is not stored as column q of the function values after the call"
    FV = fv[0].tnode.value.id
    if a.target != ex("PROJ[L2G[E, F]]", a.node.lineno):
        return False, "projections are scattered to `%s`, not to local2global[element, local function]" % a.target[:70]
    want = ex("_np.sum(_np.sum(%s[:, F, :] * FV * W, axis=0)) * G.integration_elements[E]" % B, a.node.lineno, FV=FV)
    alts = {want, ex("_np.sum(%s[:, F, :] * FV * W) * G.integration_elements[E]" % B, a.node.lineno, FV=FV)}
    if a.value not in alts:
        return False, "accumulated term is `%s`, not sum_{d,q} B[d, f, q] * f[d, q] * w[q] * J[element]" % a.value[:160]
    if not (a.node.lineno > fv[0].node.lineno):
        return False, "accumulation happens before the function values are computed"
    return True, ""


FORWARD = {
    "_integrate": ("GridFunction.integrate", {
        "coefficients": "self.grid_coefficients", "grid_data": "self.space.grid.data(*)", "support_elements": "self.space.support_elements",
        "local2global": "self.space.local2global", "local_multipliers": "self.space.local_multipliers", "normal_multipliers": "self.space.normal_multipliers",
        "evaluate_on_element": "self.space.numba_evaluate", "shapeset_evaluate": "self.space.shapeset.evaluate",
        "points": "rule(self._parameters.quadrature.regular)[0]", "weights": "rule(self._parameters.quadrature.regular)[1]",
        "codomain_dimension": "self.component_count", "number_of_shape_functions": "self.space.number_of_shape_functions"}),
}


def forwarding(ctx):
    r = ctx.rule("GF-FORWARD", "call sites of the grid-function kernels pass, for each parameter, the table of the space the kernel is documented to use", 3)
    m = ctx.repo.mod(GF)
    for callee, (caller, table) in FORWARD.items():
        fn = m.fn(caller)
        defs = roles.Defs(fn)
        cs = [c for c in calls_in(fn) if isinstance(c.func, ast.Name) and c.func.id == callee]
        if len(cs) != 1:
            raise AnalysisError("%s: call of %s not found" % (caller, callee))
        params = arg_names(m.fn(callee))
        bad = []
        for k, p in enumerate(params):
            got = roles.canon(cs[0].args[k], defs).replace(" ", "") if k < len(cs[0].args) else None
            if got is None or not roles.match(table[p], got):
                bad.append("%s <- %s (expected %s)" % (p, got, table[p]))
        r.check(not bad, "%s -> %s" % (caller, callee), GF, caller, cs[0].lineno, "arguments of %s: %s" % (callee, "; ".join(bad)), "; ".join(bad))
    # projection kernels in GridFunction.__init__: every table comes from the dual space representation
    fn = m.fn("GridFunction.__init__")
    defs = roles.Defs(fn)
    CD = "return_compatible_representation(space,dual_space)[1]"
    CS = "return_compatible_representation(space,dual_space)[0]"
    common = {
        "grid_data": CD + ".grid.data(*)", "support_elements": CD + ".support_elements", "local2global": CD + ".local2global", "local_multipliers": CD + ".local_multipliers",
        "normal_multipliers": CD + ".normal_multipliers", "evaluate_on_element": CD + ".numba_evaluate", "shapeset_evaluate": CD + ".shapeset.evaluate",
        "codomain_dimension": CS + ".codomain_dimension",
    }
    for callee in ("_project_function", "_project_function_vectorized"):
        cs = [c for c in calls_in(fn) if isinstance(c.func, ast.Name) and c.func.id == callee]
        if len(cs) != 1:
            raise AnalysisError("GridFunction.__init__: call of %s not found" % callee)
        params = arg_names(m.fn(callee))
        bad = []
        for k, p in enumerate(params):
            if p in common:
                got = roles.canon(cs[0].args[k], defs).replace(" ", "")
                if not roles.match(common[p], got):
                    bad.append("%s <- %s" % (p, got[-70:]))
        r.check(not bad, "GridFunction.__init__ -> %s" % callee, GF, "GridFunction.__init__", cs[0].lineno, "arguments of %s: %s" % (callee, "; ".join(bad)), "; ".join(bad))


def evaluate_rules(ctx):
    m = ctx.repo.mod(GF)
    r = ctx.rule("GF-EVALUATE", "evaluate contracts the space's basis values (multiplier included) with grid_coefficients[local2global[element]]; vertex / centre evaluation use the reference vertices / centroid", 3)
    fn = m.fn("GridFunction.evaluate")
    defs = roles.Defs(fn)
    ret = [s for s in fn.body if isinstance(s, ast.Return)][0]
    got = roles.canon(ret.value, defs).replace(" ", "")
    pe = arg_names(fn)
    want = roles.expect("_np.tensordot(self.space.evaluate(E, X), self.grid_coefficients[self.space.local2global[E]], axes=([1], [0]))", defs, ret.lineno, lv=False, E=pe[1], X=pe[2])
    r.check(got == want, "GridFunction.evaluate", GF, fn.name, fn.lineno, "evaluate returns " + got[:120], "evaluate returns `%s`" % got)
    fc = m.fn("GridFunction.evaluate_on_element_centers")
    lc = None
    from fractions import Fraction as F
    dc = roles.Defs(fc)
    Sc = roles.stores(fc.body, dc, lv=False)
    rc = [s for s in Sc if s.op == "return"]
    okc, whyc = False, "does not return one local array"
    if len(rc) == 1 and isinstance(rc[0].vnode, ast.Name):
        VAL = rc[0].vnode.id
        st = [s for s in Sc if isinstance(s.tnode, ast.Subscript) and unparse(s.tnode.value) == VAL]
        whyc = "values are not filled by one store per support element"
        if len(st) == 1 and len(st[0].loops) == 1 and isinstance(st[0].loops[0].target, ast.Name) and not st[0].guards:
            E = st[0].loops[0].target.id
            ln = st[0].node.lineno
            call, lc = _evaluate_call(st[0].vnode, dc, E)
            okc = (call and lc == [[F(1, 3)], [F(1, 3)]] and roles.canon(st[0].loops[0].iter, dc) == "self.space.support_elements"
                   and st[0].target == roles.expect("V[:, E]", dc, ln, lv=False, V=VAL, E=E))
            whyc = "element-centre values: reference point %s (must be (1/3, 1/3)); `%s` <- `%s` (must be values[:, element] <- evaluate(element, centre) flattened)" % (lc, st[0].target[-30:], st[0].value[:90])
    r.check(okc, "evaluate_on_element_centers", GF, fc.name, fc.lineno, "element centre evaluation", whyc)
    fv = m.fn("GridFunction.evaluate_on_vertices")
    okv, whyv = _vertex_average_shape(fv)
    if okv is None:
        raise AnalysisError("evaluate_on_vertices: construction not recognised: " + whyv)
    r.check(okv, "evaluate_on_vertices", GF, fv.name, fv.lineno, "vertex evaluation", whyv)


def _evaluate_call(node, defs, E):
    """node is self.evaluate(E, X) possibly followed by .flat / .ravel() / [:, i]: (call node, exact table of X)."""
    from . import bary

    n = node
    if isinstance(n, ast.Name):
        d = defs.lookup(n.id, n.lineno)
        n = d[1] if d and d[0] == "expr" else n
    if isinstance(n, ast.Attribute) and n.attr == "flat":
        n = n.value
    elif isinstance(n, ast.Call) and isinstance(n.func, ast.Attribute) and n.func.attr in ("ravel", "flatten") and not n.args:
        n = n.func.value
    if isinstance(n, ast.Name):
        d = defs.lookup(n.id, n.lineno)
        n = d[1] if d and d[0] == "expr" else n
    if not (isinstance(n, ast.Call) and unparse(n.func) == "self.evaluate" and len(n.args) == 2 and isinstance(n.args[0], ast.Name) and n.args[0].id == E):
        return None, None
    x = roles.inline(n.args[1], defs)
    try:
        return n, bary.frac_table(x)
    except Exception:
        return n, None


def _vertex_average_shape(fv):
    """values[:, v] = sum_{(E,i): elements[i,E]=v} evaluate(E, ref vertex i) * area_E / sum area_E  over the support."""
    from fractions import Fraction as F

    d = roles.Defs(fv)
    S = roles.stores(fv.body, d, lv=False)
    rets = [s for s in S if s.op == "return"]
    if len(rets) != 1 or not isinstance(rets[0].vnode, ast.Name):
        return None, "does not return one local array"
    VAL = rets[0].vnode.id
    acc = [s for s in S if s.op == "Add=" and isinstance(s.tnode, ast.Subscript) and unparse(s.tnode.value) == VAL]
    if not acc:
        other = [s for s in S if isinstance(s.tnode, ast.Subscript) and unparse(s.tnode.value) == VAL and len(s.loops) == 2]
        if len(other) == 1:
            return False, "the element's vertex value is not ADDED to the vertex sum (`%s` with operator %s): a vertex shared by several elements keeps one contribution or their negative" % (other[0].target[:50], other[0].op)
    if len(acc) != 1 or len(acc[0].loops) != 2 or acc[0].guards:
        return None, "no single accumulation `values[:, vertex] += ...` inside (element loop, local vertex loop)"
    a = acc[0]
    lE, lI = a.loops
    if not (isinstance(lE.target, ast.Name) and isinstance(lI.target, ast.Name)):
        return None, "loop targets are not plain names"
    E, I = lE.target.id, lI.target.id
    ln = a.node.lineno
    if roles.canon(lE.iter, d) != "self.space.support_elements" or roles.canon(lI.iter, d) != "range(3)":
        return False, "loops are not (support elements, 3 local vertices)"
    ex = lambda src, **kw: roles.expect(src, d, ln, lv=False, E=E, I=I, V=VAL, **kw)
    vert = "self.space.grid.elements[I, E]"
    area = "self.space.grid.volumes[E]"
    if a.target != ex("V[:, %s]" % vert):
        return False, "values are accumulated at `%s`, not at the global vertex grid.elements[i, element]" % a.target[-60:]
    # value: evaluate(E, ref)[:, I] * area
    v = a.vnode
    fac = None
    if isinstance(v, ast.BinOp) and isinstance(v.op, ast.Mult):
        for x, y in ((v.left, v.right), (v.right, v.left)):
            if roles.canon(y, d).replace(" ", "") == ex(area):
                fac = x
    if fac is None:
        return False, "accumulated term `%s` is not weighted by the element's area" % unparse(v)[:70]
    if not (isinstance(fac, ast.Subscript) and isinstance(fac.slice, ast.Tuple) and len(fac.slice.elts) == 2 and isinstance(fac.slice.elts[0], ast.Slice)
            and isinstance(fac.slice.elts[1], ast.Name) and fac.slice.elts[1].id == I):
        return False, "accumulated term does not take column i of the element's vertex values"
    call, tab = _evaluate_call(fac.value, d, E)
    if call is None or tab != [[F(0), F(1), F(0)], [F(0), F(0), F(1)]]:
        return False, "vertex values are not evaluate(element, reference vertices (0,0),(1,0),(0,1)) (points %s)" % (tab,)
    div = [s for s in S if s.op == "Div=" and isinstance(s.tnode, ast.Subscript) and unparse(s.tnode.value) == VAL and not s.loops]
    if len(div) != 1 or div[0].node.lineno < lE.lineno:
        return None, "values are not divided by the accumulated areas after the loop"
    msk = div[0].tnode.slice.elts[1] if isinstance(div[0].tnode.slice, ast.Tuple) and len(div[0].tnode.slice.elts) == 2 else None
    dv = div[0].vnode
    if msk is None or not (isinstance(dv, ast.Subscript) and isinstance(dv.value, ast.Name) and unparse(dv.slice) == unparse(msk)):
        return None, "the final division is not values[:, m] /= areas[m] on one mask m"
    A_ = dv.value.id
    # the divisor: per vertex the sum of the areas of exactly the elements that contributed a value
    wts = [s for s in S if s.op == "Add=" and isinstance(s.tnode, ast.Subscript) and unparse(s.tnode.value) == A_]
    bulk = [c for c in ast.walk(fv) if isinstance(c, ast.Call) and unparse(c.func).endswith("add.at") and c.args and unparse(c.args[0]) == A_]
    if not wts and not bulk:
        return False, "the divisor `%s` never accumulates an element area" % A_
    if bulk and not wts:
        # vectorised form: _np.add.at(areas, elements[i, S], volumes[S]) for i in range(3); S must be the support
        for c in bulk:
            if len(c.args) != 3:
                raise AnalysisError("evaluate_on_vertices: unrecognised bulk accumulation `%s`" % unparse(c)[:80])
            idx, val = (roles.canon(x, d).replace(" ", "") for x in c.args[1:])
            sup = "self.space.support_elements"
            whole = idx.startswith("self.space.grid.elements[") and sup not in idx and val == "self.space.grid.volumes"
            restricted = idx.startswith("self.space.grid.elements[") and sup in idx and val in ("self.space.grid.volumes[%s]" % sup,)
            if whole:
                return False, "the divisor sums the areas of all elements adjacent to a vertex (`%s`), the values only those of the support elements: wrong at the edge of a segment" % unparse(c)[:70]
            if not restricted:
                raise AnalysisError("evaluate_on_vertices: unrecognised bulk accumulation `%s`" % unparse(c)[:80])
        raise AnalysisError("evaluate_on_vertices: vectorised area accumulation over the support; its vertex coverage is not analysed")
    wts = [s for s in wts if s.loops == a.loops and not s.guards and s.value == ex(area)]
    if len(wts) != 1 or wts[0].target != ex("A[%s]" % vert, A=A_):
        return False, "no companion accumulation of the element area at the same vertex"
    if isinstance(msk, ast.Name):
        marks = [s for s in S if isinstance(s.tnode, ast.Subscript) and unparse(s.tnode.value) == msk.id and s.loops == a.loops]
        if not (len(marks) == 1 and marks[0].value == "True" and marks[0].target == ex("M[%s]" % vert, M=msk.id)):
            return False, "the division mask does not mark exactly the vertices that received a contribution"
    return True, ""


ELEM_TABLES = {"integration_elements", "normals", "volumes", "jacobians", "jac_inv_trans", "diameters", "centroids", "domain_indices", "local2global", "local_multipliers", "normal_multipliers"}
ELEM_CALLS = {"local2global"}  # grid_data.local2global(element, local points)
NDARRAY_METHODS = {"reshape", "ravel", "flatten", "astype", "dot", "sum", "transpose", "copy", "conj", "conjugate", "tolist", "squeeze"}


def repo_lints(ctx):
    """Two repository-wide IDX/PROTO lints with zero expected findings."""
    r1 = ctx.rule("IDX-ELEM-BY-POSITION", "inside `for pos, elem in enumerate(elements)`: tables indexed by element number are not indexed by the enumerate position", 1)
    r2 = ctx.rule("PROTO-METHOD-SUBSCRIPT", "no subscript is applied to a bound ndarray method (x.reshape[...] is always a TypeError)", 1)
    n_loops = 0
    bad1, bad2 = [], []
    for rel in ctx.repo.py_files("bempp_cl"):
        m = ctx.repo.mod(rel)
        for qn, fn in m.functions.items():
            if "<" in qn:
                continue
            for node in ast.walk(fn):
                if isinstance(node, ast.For) and isinstance(node.iter, ast.Call) and unparse(node.iter.func) == "enumerate" and isinstance(node.target, ast.Tuple) and len(node.target.elts) == 2 \
                        and all(isinstance(t, ast.Name) for t in node.target.elts):
                    n_loops += 1
                    pos = node.target.elts[0].id
                    item = node.target.elts[1].id
                    for sub in ast.walk(node):
                        # calls whose first argument is an element number (the geometry map of one element)
                        if isinstance(sub, ast.Call) and isinstance(sub.func, ast.Attribute) and sub.func.attr in ELEM_CALLS and sub.args and isinstance(sub.args[0], ast.Name) and sub.args[0].id == pos \
                                and ("elements" in unparse(node.iter) or any(isinstance(o, (ast.Subscript, ast.Call)) and item in {x.id for x in ast.walk(o) if isinstance(x, ast.Name)} for o in ast.walk(node) if o is not sub)):
                            bad1.append((rel, qn, sub.lineno, unparse(sub)[:70]))
                        # the table as an attribute (grid_data.normals) or as a parameter of the same name handed in by the caller
                        tname = sub.value.attr if isinstance(sub, ast.Subscript) and isinstance(sub.value, ast.Attribute) else (
                            sub.value.id if isinstance(sub, ast.Subscript) and isinstance(sub.value, ast.Name) and sub.value.id in arg_names(fn) else None)
                        if tname in ELEM_TABLES and isinstance(sub.value, ast.Name):
                            # a parameter merely *named* like a table (union's per-grid `domain_indices` list): only when the
                            # same loop reads some element table with the enumerated item, i.e. the item is an element number
                            item = node.target.elts[1].id
                            if not any(isinstance(o, ast.Subscript) and isinstance(o.value, ast.Attribute) and o.value.attr in ELEM_TABLES
                                       and isinstance(o.slice.elts[0] if isinstance(o.slice, ast.Tuple) else o.slice, ast.Name)
                                       and (o.slice.elts[0] if isinstance(o.slice, ast.Tuple) else o.slice).id == item for o in ast.walk(node)):
                                tname = None
                        if tname in ELEM_TABLES:
                            first = sub.slice.elts[0] if isinstance(sub.slice, ast.Tuple) else sub.slice
                            if isinstance(first, ast.Name) and first.id == pos:
                                bad1.append((rel, qn, sub.lineno, unparse(sub)))
                if isinstance(node, ast.Subscript) and isinstance(node.value, ast.Attribute) and node.value.attr in NDARRAY_METHODS and isinstance(node.ctx, ast.Load):
                    bad2.append((rel, qn, node.lineno, unparse(node)))
    if n_loops < 10:
        raise AnalysisError("enumerate-loop lint found only %d loops" % n_loops)
    if not bad1:
        r1.ok("%d enumerate loops" % n_loops)
    for rel, qn, ln, txt in bad1:
        r1.fail("%s::%s" % (rel.split("/")[-1], qn), rel, qn, ln, "element table indexed by position: " + txt, "`%s` indexes an element-numbered table with the enumerate position" % txt)
    if not bad2:
        r2.ok("no method subscripts")
    for rel, qn, ln, txt in bad2:
        r2.fail("%s::%s" % (rel.split("/")[-1], qn), rel, qn, ln, "subscript of bound method: " + txt[:60], "`%s` subscripts a bound method" % txt[:80])
    pos = ast.parse("for i, e in enumerate(els):\n    y = g.integration_elements[i]").body[0]
    hit = [s for s in ast.walk(pos) if isinstance(s, ast.Subscript) and isinstance(s.value, ast.Attribute) and s.value.attr in ELEM_TABLES and isinstance(s.slice, ast.Name) and s.slice.id == "i"]
    r1.must_fire(bool(hit), "integration_elements[position]")
    r2.must_fire(isinstance(ast.parse("y.reshape[0]").body[0].value.value, ast.Attribute), "y.reshape[0]")
    position_tables(ctx)


def _position_table_param(callee):
    """Index of the parameter P such that `callee` returns an array allocated with leading extent len(P), else None."""
    d = roles.Defs(callee)
    rets = [n for n in ast.walk(callee) if isinstance(n, ast.Return) and isinstance(n.value, ast.Name)]
    if len(rets) != 1:
        return None
    a = d.alloc(rets[0].value.id, rets[0].lineno)
    if a is None or a[0] != "expr" or not isinstance(a[1], ast.Call) or unparse(a[1].func).split(".")[-1] not in ("empty", "zeros", "ones", "full") or not a[1].args:
        return None
    shp = a[1].args[0]
    first = shp.elts[0] if isinstance(shp, ast.Tuple) and shp.elts else shp
    ext = roles.canon(first, d).replace(" ", "")
    for k, p in enumerate(arg_names(callee)):
        if ext in ("len(%s)" % p, "%s.shape[0]" % p):
            return k
    return None


def _pos_table_hits(fn, mod=None):
    """Inside `for pos, elem in enumerate(X)`: arrays allocated in the function with leading extent len(X) (one slot per
    listed element) whose first index is the element number `elem` instead of the position `pos`."""
    defs = roles.Defs(fn)
    hits, loops = [], 0
    for node in ast.walk(fn):
        if not (isinstance(node, ast.For) and isinstance(node.iter, ast.Call) and unparse(node.iter.func) == "enumerate" and len(node.iter.args) == 1
                and isinstance(node.target, ast.Tuple) and len(node.target.elts) == 2 and all(isinstance(t, ast.Name) for t in node.target.elts)):
            continue
        X = roles.canon(node.iter.args[0], defs).replace(" ", "")
        extents = {"len(%s)" % X, "%s.shape[0]" % X}
        pos, elem = node.target.elts[0].id, node.target.elts[1].id
        loops += 1
        # arrays allocated with leading extent len(X)
        tables = set()
        for name, lst in defs.all.items():
            for line, ranges, rec in lst:
                if rec[0] != "expr" or not isinstance(rec[1], ast.Call) or unparse(rec[1].func).split(".")[-1] not in ("empty", "zeros", "ones", "full") or not rec[1].args:
                    continue
                shp = rec[1].args[0]
                first = shp.elts[0] if isinstance(shp, ast.Tuple) and shp.elts else shp
                ext = roles.canon(first, defs).replace(" ", "")
                # len(X) itself or a product with len(X) as a factor (k slots per listed element)
                if ext in extents or any(re.fullmatch(r"\((?:[^()+]*\*)?%s(?:\*[^()+]*)?\)" % re.escape(e), ext) for e in extents):
                    tables.add(name)
        # tables returned by helpers of the same module that allocate one slot per element of one of their parameters
        if mod is not None:
            for name, lst in defs.all.items():
                for line, ranges, rec in lst:
                    if rec[0] == "expr" and isinstance(rec[1], ast.Call) and isinstance(rec[1].func, ast.Name) and mod.has_fn(rec[1].func.id):
                        k = _position_table_param(mod.fn(rec[1].func.id))
                        if k is not None and k < len(rec[1].args) and roles.canon(rec[1].args[k], defs).replace(" ", "") == X:
                            tables.add(name)
        for sub in ast.walk(node):
            if isinstance(sub, ast.Subscript) and isinstance(sub.value, ast.Name) and sub.value.id in tables:
                first = sub.slice.elts[0] if isinstance(sub.slice, ast.Tuple) else sub.slice
                names = {n.id for n in ast.walk(first) if isinstance(n, ast.Name)}
                if elem in names and pos not in names:
                    hits.append((sub.lineno, unparse(sub)))
    return hits, loops


def position_tables(ctx):
    r = ctx.rule("IDX-POS-BY-ELEMENT", "inside `for pos, elem in enumerate(elements)`: arrays allocated with one slot per listed element are not indexed by the element number", 1)
    bad, nloops = [], 0
    for rel in ctx.repo.py_files("bempp_cl"):
        m = ctx.repo.mod(rel)
        for qn, fn in m.functions.items():
            if "<" in qn:
                continue
            if not any(isinstance(n, ast.For) and isinstance(n.iter, ast.Call) and unparse(n.iter.func) == "enumerate" for n in ast.walk(fn)):
                continue
            hits, k = _pos_table_hits(fn, m)
            nloops += k
            for ln, txt in hits:
                bad.append((rel, qn, ln, txt))
    if nloops < 10:
        raise AnalysisError("position-table lint examined only %d enumerate loops" % nloops)
    if not bad:
        r.ok("no position-sized table indexed by element number (%d enumerate loops)" % nloops)
    for rel, qn, ln, txt in bad:
        r.fail("%s::%s" % (rel.split("/")[-1], qn), rel, qn, ln, "position table indexed by element: " + txt, "`%s` indexes an array with one slot per listed element by the element number (out of bounds or wrong slot on subsets)" % txt)
    posex = ast.parse("def f(els):\n    t = _np.zeros(len(els))\n    for i, e in enumerate(els):\n        t[e] = 1").body[0]
    r.must_fire(bool(_pos_table_hits(posex)[0]), "t = zeros(len(els)); t[element]")


# ---------------------------------------------------------------- the two representations of a grid function


def representations(ctx):
    """coefficients <-> projections of a GridFunction: c = M(space, dual)^-1 p,  p' = M(space, dual') c, and the
    derived objects (grid coefficients, real / imaginary part, projection into another space)."""
    from . import dispatch

    m = ctx.repo.mod(GF)
    r = ctx.rule("GF-REPRESENTATIONS", "GridFunction: coefficients = inverse mass matrix(space, dual_space) @ projections (computed once); projections(d) = the stored vector for the own dual space, otherwise mass matrix(space, d) * coefficients; "
                 "grid coefficients = dof_transformation @ coefficients; real / imag keep space and dual space; project_to_space(s) = projections onto s as dual", 6)
    ns = lambda t: (t or "").replace(" ", "")

    def stmts(name):
        fn = m.fn("GridFunction." + name)
        return fn, [s for s in fn.body if not isinstance(s, (ast.Import, ast.ImportFrom)) and not (isinstance(s, ast.Expr) and isinstance(s.value, ast.Constant))]

    # coefficients (memo)
    fn, body = stmts("coefficients")
    got = {}
    for have in (None, "‹c›"):
        effs = dispatch.effects(body, {"self._coefficients": have}, "GridFunction.coefficients")
        got[have] = ([ns(e[2]) for e in effs if e[0] == "store" and ns(e[1]) == "self._coefficients"], [ns(e[1]) for e in effs if e[0] == "return"])
    d = roles.Defs(fn)
    init = [roles.canon(s.value, d, commutative_mult=False).replace(" ", "") for s in ast.walk(fn) if isinstance(s, ast.Assign) and ns(unparse(s.targets[0])) == "self._coefficients"]
    want = {"(get_inverse_mass_matrix(self.space,self.dual_space)@self._projections)", "(get_inverse_mass_matrix(self.space,self.dual_space)*self._projections)",
            "(get_inverse_mass_matrix(self._space,self._dual_space)@self._projections)"}
    ok = len(got[None][0]) == 1 and got[None][1] == ["self._coefficients"] and not got["‹c›"][0] and got["‹c›"][1] == ["self._coefficients"] and len(init) == 1 and init[0] in want
    r.check(ok, "coefficients", GF, "GridFunction.coefficients", fn.lineno, "coefficients from projections",
            "coefficients are computed as %s (stores when absent: %s, when present: %s); expected inverse mass matrix of (space, dual_space) applied to the stored projections, once" % (init, got[None][0], got["‹c›"][0]))
    # grid coefficients
    fn, body = stmts("grid_coefficients")
    d = roles.Defs(fn)
    init = [roles.canon(s.value, d, commutative_mult=False).replace(" ", "") for s in ast.walk(fn) if isinstance(s, ast.Assign) and ns(unparse(s.targets[0])) == "self._grid_coefficients"]
    r.check(init in (["(self.space.dof_transformation@self.coefficients)"], ["(self.space.dof_transformation*self.coefficients)"], ["(self._space.dof_transformation@self.coefficients)"]), "grid_coefficients", GF, "GridFunction.grid_coefficients",
            fn.lineno, "grid coefficients", "grid coefficients are %s, expected space.dof_transformation @ coefficients" % init)
    # projections(dual_space)
    fn, body = stmts("projections")
    D = arg_names(fn)[1]
    res = {}
    for name, env in (("own dual space, projections stored", {D: "‹own›", "self.dual_space": "‹own›", "self._dual_space": "‹own›", "self._projections": "‹p›"}),
                      ("None, projections stored", {D: None, "self.dual_space": "‹own›", "self._dual_space": "‹own›", "self._projections": "‹p›"}),
                      ("own dual space, only coefficients", {D: "‹own›", "self.dual_space": "‹own›", "self._dual_space": "‹own›", "self._projections": None}),
                      ("another dual space", {D: "‹other›", "self.dual_space": "‹own›", "self._dual_space": "‹own›", "self._projections": "‹p›"})):
        effs = dispatch.effects(body, env, "GridFunction.projections")
        sets = {e[1]: e[2] for e in effs if e[0] == "set"}
        ret = [e[1] for e in effs if e[0] == "return"]
        res[name] = (ns(ret[0]) if len(ret) == 1 else None, {k: (ns(v) if isinstance(v, str) else v) for k, v in sets.items()})
    cached = lambda x: x[0] == "self._projections"
    def computed(x, dual):
        ret, sets = x
        ident = [k for k, v in sets.items() if isinstance(v, str) and v in ("get_mass_matrix(self.space,%s)" % D, "get_mass_matrix(self._space,%s)" % D)]
        direct = ret in ("get_mass_matrix(self.space,%s)*self.coefficients" % D, "get_mass_matrix(self.space,%s)@self.coefficients" % D)
        return direct or (len(ident) == 1 and ret in ("%s*self.coefficients" % ident[0], "%s@self.coefficients" % ident[0]))
    ok = cached(res["own dual space, projections stored"]) and cached(res["None, projections stored"]) and computed(res["own dual space, only coefficients"], "own") and computed(res["another dual space"], "other") \
        and res["None, projections stored"][1].get(D) == "‹own›"
    r.check(ok, "projections", GF, "GridFunction.projections", fn.lineno, "projections onto a dual space",
            "projections(d) returns %s; expected the stored vector exactly when d is (or defaults to) the function's own dual space and projections are stored, otherwise mass matrix(space, d) times the coefficients" % {k: v[0] for k, v in res.items()})
    # real / imag
    for part in ("real", "imag"):
        fn, body = stmts(part)
        bad = []
        for rep, kw, val in (("primal", "coefficients", "self.coefficients"), ("dual", "projections", "self.projections()")):
            kind, node = dispatch.select(fn, {"self.representation": rep, "self._representation": rep})
            call = node if kind == "return" and isinstance(node, ast.Call) and unparse(node.func).split(".")[-1] == "GridFunction" else None
            if call is None:
                bad.append("%s representation: no GridFunction returned" % rep)
                continue
            kws = {k.arg: ns(unparse(k.value)) for k in call.keywords}
            if call.args:
                kws["space"] = ns(unparse(call.args[0]))
            npart = [kws.get(kw, "").replace("_np.", "np.")]
            if kws.get("space") not in ("self.space", "self._space") or (rep == "dual" and kws.get("dual_space") not in ("self.dual_space", "self._dual_space")) or npart != ["np.%s(%s)" % (part, val)] \
                    or ({"coefficients", "projections"} & set(kws)) != {kw}:
                bad.append("%s representation builds GridFunction(%s)" % (rep, kws))
        r.check(not bad, part, GF, "GridFunction." + part, fn.lineno, part + " part", "; ".join(bad) + "; expected the %s part of the stored representation in the same space (and dual space)" % part)
    # project_to_space
    fn, body = stmts("project_to_space")
    S_ = arg_names(fn)[1]
    d = roles.Defs(fn)
    rets = [s.value for s in ast.walk(fn) if isinstance(s, ast.Return) and s.value is not None]
    ok, gotp = False, None
    if len(rets) == 1 and isinstance(rets[0], ast.Call) and unparse(rets[0].func).split(".")[-1] == "GridFunction" and rets[0].args:
        kws = {k.arg: roles.canon(k.value, d, commutative_mult=False).replace(" ", "") for k in rets[0].keywords}
        gotp = (unparse(rets[0].args[0]), kws)
        ok = unparse(rets[0].args[0]) == S_ and kws.get("projections") in ("(get_mass_matrix(self.space,%s)@self.coefficients)" % S_, "(get_mass_matrix(self.space,%s)*self.coefficients)" % S_) and set(kws) <= {"projections", "dual_space"} \
            and kws.get("dual_space", S_) == S_
    r.check(ok, "project_to_space", GF, "GridFunction.project_to_space", fn.lineno, "projection into another space",
            "project_to_space(s) builds GridFunction%s; expected GridFunction(s, projections = mass matrix(space, s) @ coefficients) (dual space s)" % (gotp,))


# ---------------------------------------------------------------- l2_norm


def l2_norm_rule(ctx):
    """l2_norm(): sqrt(|c^H M c|), M the mass matrix of the function's OWN space.  The expression is evaluated into a word
    over the letters c, c^H, M (any other leaf becomes its own letter), so spellings with .dot / @ / np.vdot agree and a
    pairing with another matrix or with the projections does not."""
    from .proto import NC

    m = ctx.repo.mod(GF)
    r = ctx.rule("GF-L2NORM", "l2_norm() is sqrt(|c^H M c|) with c the coefficients and M the mass matrix of the function's own space (not the pairing with the dual space that the projections carry)", 1)
    fn = m.fn("GridFunction.l2_norm")
    defs = roles.Defs(fn)
    rets = [s for s in ast.walk(fn) if isinstance(s, ast.Return)]
    if len(rets) != 1 or rets[0].value is None:
        raise AnalysisError("GridFunction.l2_norm: no single return value")

    def res(n):
        seen = 0
        while isinstance(n, ast.Name) and seen < 20:
            d = defs.lookup(n.id, getattr(n, "lineno", None))
            if not d or d[0] != "expr":
                break
            n, seen = d[1], seen + 1
        return n

    def fname(n):
        return unparse(n.func).split(".")[-1] if isinstance(n, ast.Call) else None

    def conj(t):
        if t == NC.op("c"):
            return NC.op("cH")
        raise AnalysisError("GridFunction.l2_norm: conjugate of something other than the coefficient vector")

    def term(n):
        n = res(n)
        txt = unparse(n).replace(" ", "")
        if txt == "self.coefficients":
            return NC.op("c")
        if txt in ("self.space.mass_matrix()", "self._space.mass_matrix()"):
            return NC.op("M")
        if isinstance(n, ast.Attribute) and n.attr == "T":
            return term(n.value)  # transposition of a vector / of the Hermitian mass matrix word is decided by the conjugates
        if isinstance(n, ast.Call) and isinstance(n.func, ast.Attribute) and n.func.attr in ("conjugate", "conj") and not n.args:
            return conj(term(n.func.value))
        if isinstance(n, ast.Call) and fname(n) in ("conj", "conjugate") and len(n.args) == 1:
            return conj(term(n.args[0]))
        if isinstance(n, ast.Call) and isinstance(n.func, ast.Attribute) and n.func.attr == "dot" and len(n.args) == 1 and unparse(n.func.value) not in ("np", "_np", "numpy"):
            return term(n.func.value) * term(n.args[0])
        if isinstance(n, ast.Call) and fname(n) in ("dot", "matmul", "inner") and len(n.args) == 2:
            return term(n.args[0]) * term(n.args[1])
        if isinstance(n, ast.Call) and fname(n) == "vdot" and len(n.args) == 2:
            return conj(term(n.args[0])) * term(n.args[1])
        if isinstance(n, ast.BinOp) and isinstance(n.op, (ast.MatMult, ast.Mult)):
            return term(n.left) * term(n.right)
        return NC.op("‹%s›" % txt[:60])

    v = res(rets[0].value)
    peeled = []
    while True:
        v = res(v)
        if isinstance(v, ast.Call) and fname(v) in ("sqrt", "abs", "absolute", "real") and len(v.args) == 1:
            peeled.append(fname(v))
            v = v.args[0]
        elif isinstance(v, ast.Attribute) and v.attr == "real":
            peeled.append("real")
            v = v.value
        else:
            break
    got = term(v)
    want = NC.op("cH") * NC.op("M") * NC.op("c")
    ok = got == want and peeled[:1] == ["sqrt"] and peeled.count("sqrt") == 1
    r.check(ok, "GridFunction.l2_norm", GF, "GridFunction.l2_norm", rets[0].lineno, "l2_norm returns %s of %r" % ("/".join(peeled) or "-", got),
            "l2_norm returns %s(%r); expected sqrt(|cH.M.c|) with M = self.space.mass_matrix(): another matrix or vector in the product is the pairing with another space (equal to the norm only when the dual space is the space itself)" % ("/".join(peeled) or "", got))
