"""IDX role typing of call sites: canonical *provenance expressions*.

``canon(node)`` rewrites an argument expression into a canonical provenance string by inlining
single-assignment locals (including tuple unpacking), stripping dtype conversions
(``.astype``, ``np.array(x, dtype=..)``, ``np.asarray``), and sorting commutative operands.
Two expressions with the same canonical form denote the same value of the enclosing function's
parameters; renaming or re-ordering locals does not change it.
"""

import ast
import re

from .core import AnalysisError
from .src import arg_names, unparse, walk_stmts


class Defs:
    def __init__(self, fn, extra_scopes=()):
        self.fn = fn
        self.params = set(arg_names(fn)) | {a.arg for a in fn.args.kwonlyargs}
        self.defs = {}
        self.multi = set()
        self.loopvars = {}
        scopes = [fn] + list(extra_scopes)
        for scope in scopes:
            self.params |= set(arg_names(scope))
        for st in walk_stmts(fn.body):
            if isinstance(st, ast.Assign) and len(st.targets) == 1:
                self._bind(st.targets[0], st.value)
            elif isinstance(st, ast.With):
                pass
            elif isinstance(st, ast.For):
                if isinstance(st.target, ast.Name):
                    self.loopvars[st.target.id] = st
            elif isinstance(st, (ast.AugAssign,)) and isinstance(st.target, ast.Name):
                self.multi.add(st.target.id)
        # statements inside `with` blocks
        for node in ast.walk(fn):
            if isinstance(node, ast.With):
                for st in walk_stmts(node.body):
                    if isinstance(st, ast.Assign) and len(st.targets) == 1:
                        self._bind(st.targets[0], st.value)

    def _bind(self, target, value):
        if isinstance(target, ast.Name):
            if target.id in self.defs:
                self.multi.add(target.id)
            self.defs[target.id] = ("expr", value)
        elif isinstance(target, (ast.Tuple, ast.List)):
            for i, t in enumerate(target.elts):
                if isinstance(t, ast.Name):
                    if t.id in self.defs:
                        self.multi.add(t.id)
                    self.defs[t.id] = ("unpack", value, i)
                elif isinstance(t, (ast.Tuple, ast.List)):
                    for j, tt in enumerate(t.elts):
                        if isinstance(tt, ast.Name):
                            self.defs[tt.id] = ("unpack2", value, i, j)


STRIP_METHODS = {"astype", "copy", "ravel"}
STRIP_FUNCS = {"array", "asarray", "ascontiguousarray", "dtype"}


def canon(node, defs, keep=(), _depth=0):
    if _depth > 40:
        raise AnalysisError("provenance expression too deep")
    c = lambda n: canon(n, defs, keep, _depth + 1)
    if isinstance(node, ast.Name):
        if node.id in keep:
            return node.id
        if node.id in defs.defs and node.id not in defs.multi:
            d = defs.defs[node.id]
            if d[0] == "expr":
                return c(d[1])
            if d[0] == "unpack":
                return "%s[%d]" % (c(d[1]), d[2])
            return "%s[%d][%d]" % (c(d[1]), d[2], d[3])
        return node.id
    if isinstance(node, ast.Constant):
        return repr(node.value)
    if isinstance(node, ast.Attribute):
        return c(node.value) + "." + node.attr
    if isinstance(node, ast.Call):
        f = node.func
        if isinstance(f, ast.Attribute) and f.attr in STRIP_METHODS and "ravel" != f.attr:
            return c(f.value)
        if isinstance(f, ast.Attribute) and f.attr == "ravel":
            return c(f.value) + ".ravel()"
        fname = unparse(f)
        if fname.split(".")[-1] in STRIP_FUNCS and fname.split(".")[0] in ("_np", "np", "numpy") and node.args:
            return c(node.args[0])
        args = [c(a) for a in node.args] + ["%s=%s" % (k.arg, c(k.value)) for k in node.keywords]
        return "%s(%s)" % (c(f), ",".join(args))
    if isinstance(node, ast.Subscript):
        return "%s[%s]" % (c(node.value), c(node.slice))
    if isinstance(node, ast.Slice):
        return "%s:%s" % (c(node.lower) if node.lower else "", c(node.upper) if node.upper else "")
    if isinstance(node, ast.Tuple):
        return "(" + ",".join(c(e) for e in node.elts) + ")"
    if isinstance(node, ast.List):
        return "[" + ",".join(c(e) for e in node.elts) + "]"
    if isinstance(node, ast.BinOp):
        a, b = c(node.left), c(node.right)
        op = type(node.op).__name__
        if op in ("Add", "Mult"):
            a, b = sorted([a, b])
        sym = {"Add": "+", "Sub": "-", "Mult": "*", "Div": "/", "MatMult": "@", "FloorDiv": "//", "Mod": "%", "Pow": "**"}.get(op, op)
        return "(%s%s%s)" % (a, sym, b)
    if isinstance(node, ast.UnaryOp):
        return "%s(%s)" % (type(node.op).__name__, c(node.operand))
    if isinstance(node, ast.Compare) and len(node.ops) == 1:
        a, b = c(node.left), c(node.comparators[0])
        op = type(node.ops[0]).__name__
        if op in ("Eq", "NotEq"):
            a, b = sorted([a, b])
        return "(%s %s %s)" % (a, op, b)
    if isinstance(node, ast.Starred):
        return "*" + c(node.value)
    if isinstance(node, ast.BoolOp):
        return "(" + (" %s " % type(node.op).__name__).join(sorted(c(v) for v in node.values)) + ")"
    if isinstance(node, ast.IfExp):
        return "(%s if %s else %s)" % (c(node.body), c(node.test), c(node.orelse))
    if isinstance(node, ast.JoinedStr):
        return "fstr"
    return unparse(node)


def match(pattern, text):
    """Whole-string match where `*` in pattern is the only wildcard."""
    return re.fullmatch(re.escape(pattern).replace("\\*", ".*"), text) is not None


def enclosing_loops(fn, target):
    """List of ast.For / ast.While statements enclosing node ``target`` inside fn (outermost first)."""
    path = []

    def rec(node, stack):
        if node is target:
            path.extend(stack)
            return True
        for child in ast.iter_child_nodes(node):
            ns = stack + [node] if isinstance(node, (ast.For, ast.While)) else stack
            if rec(child, ns):
                return True
        return False

    rec(fn, [])
    return path
