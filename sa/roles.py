"""IDX role typing of call sites: canonical *provenance expressions*.

``canon(node)`` rewrites an argument expression into a canonical provenance string by inlining
single-assignment locals (including tuple unpacking), stripping dtype conversions
(``.astype``, ``np.array(x, dtype=..)``, ``np.asarray``), and sorting commutative operands.
Two expressions with the same canonical form denote the same value of the enclosing function's
parameters; renaming or re-ordering locals does not change it.
"""

import ast
import re

from .core import AnalysisError
from .src import arg_names, unparse, walk_stmts


class Defs:
    """Reaching definitions of local names (straight-line approximation).

    Every plain assignment is recorded with its line and the line ranges of the compound-statement bodies that
    enclose it.  A use at line L resolves to the latest assignment before L whose enclosing bodies all contain L
    (i.e. the assignment dominates the use in structured code without loops re-entering).  Names that are
    augmented-assigned, or whose latest candidate sits in a branch not containing the use, stay opaque."""

    def __init__(self, fn, extra_scopes=()):
        self.fn = fn
        self.params = set(arg_names(fn)) | {a.arg for a in fn.args.kwonlyargs}
        self.all = {}  # name -> [(line, ranges, record)]
        self.multi = set()
        self.loopvars = {}
        for scope in [fn] + list(extra_scopes):
            self.params |= set(arg_names(scope))
        self._scan(fn.body, [])
        for scope in extra_scopes:
            pass
        # legacy view: latest definition per name (used where no use-site line is available)
        self.defs = {}
        for name, lst in self.all.items():
            self.defs[name] = lst[-1][2]
            branches = {tuple(r) for _, r, _ in lst}
            if len(lst) > 1 and len(branches) > 1:
                # assigned in different branches: ambiguous without a use site
                self.ambiguous = getattr(self, "ambiguous", set()) | {name}

    def _scan(self, body, ranges):
        for st in body:
            if isinstance(st, ast.Assign) and len(st.targets) == 1:
                self._bind(st.targets[0], st.value, st.lineno, ranges)
            elif isinstance(st, ast.AugAssign) and isinstance(st.target, ast.Name):
                self.multi.add(st.target.id)
            elif isinstance(st, ast.For):
                if isinstance(st.target, ast.Name):
                    self.loopvars[st.target.id] = st
            for field in ("body", "orelse", "finalbody"):
                sub = getattr(st, field, None)
                if sub and isinstance(sub, list) and isinstance(sub[0], ast.stmt):
                    rng = (sub[0].lineno, max(getattr(x, "end_lineno", x.lineno) for x in sub))
                    # a `with` body always executes: it does not restrict where its definitions are visible
                    self._scan(sub, ranges if isinstance(st, ast.With) else ranges + [rng])
            if isinstance(st, ast.Try):
                for h in st.handlers:
                    rng = (h.body[0].lineno, max(getattr(x, "end_lineno", x.lineno) for x in h.body))
                    self._scan(h.body, ranges + [rng])
            if isinstance(st, (ast.FunctionDef,)):
                self._scan(st.body, ranges)

    def _bind(self, target, value, line, ranges):
        if isinstance(target, ast.Name):
            self.all.setdefault(target.id, []).append((line, list(ranges), ("expr", value)))
        elif isinstance(target, (ast.Tuple, ast.List)):
            for i, t in enumerate(target.elts):
                if isinstance(t, ast.Name):
                    self.all.setdefault(t.id, []).append((line, list(ranges), ("unpack", value, i)))
                elif isinstance(t, (ast.Tuple, ast.List)):
                    for j, tt in enumerate(t.elts):
                        if isinstance(tt, ast.Name):
                            self.all.setdefault(tt.id, []).append((line, list(ranges), ("unpack2", value, i, j)))

    def lookup(self, name, line):
        """Definition record reaching a use of `name` at `line`, or None if the name must stay opaque."""
        if name in self.multi or name not in self.all:
            return None
        lst = self.all[name]
        if line is None:
            return lst[-1][2] if len(lst) == 1 else None
        before = [d for d in lst if d[0] < line]
        if not before:
            # used before any assignment in source order (e.g. closure defined earlier): unique definition only
            return lst[0][2] if len(lst) == 1 and lst[0][0] > line else None
        dline, ranges, rec = before[-1]
        if all(lo <= line <= hi for lo, hi in ranges):
            return rec
        return None


STRIP_METHODS = {"astype", "copy", "ravel"}
STRIP_FUNCS = {"array", "asarray", "ascontiguousarray", "dtype"}


def canon(node, defs, keep=(), _depth=0, _seen=frozenset(), commutative_mult=True):
    if _depth > 200:
        raise AnalysisError("provenance expression too deep")
    c = lambda n: canon(n, defs, keep, _depth + 1, _seen, commutative_mult)
    if isinstance(node, ast.Name):
        if node.id in keep:
            return node.id
        d = defs.lookup(node.id, getattr(node, "lineno", None))
        if d is not None and id(d) in _seen:
            return node.id  # cyclic definition (loop-carried value): keep the name
        if d is not None:
            c = lambda n: canon(n, defs, keep, _depth + 1, _seen | {id(d)}, commutative_mult)
            if d[0] == "expr":
                return c(d[1])
            if d[0] == "unpack":
                return "%s[%d]" % (c(d[1]), d[2])
            return "%s[%d][%d]" % (c(d[1]), d[2], d[3])
        return node.id
    if isinstance(node, ast.Constant):
        return repr(node.value)
    if isinstance(node, ast.Attribute):
        return c(node.value) + "." + node.attr
    if isinstance(node, ast.Call):
        f = node.func
        if isinstance(f, ast.Attribute) and f.attr in STRIP_METHODS and "ravel" != f.attr:
            return c(f.value)
        if isinstance(f, ast.Attribute) and f.attr == "ravel":
            return c(f.value) + ".ravel()"
        fname = unparse(f)
        if fname.split(".")[-1] in STRIP_FUNCS and fname.split(".")[0] in ("_np", "np", "numpy") and node.args:
            return c(node.args[0])
        args = [c(a) for a in node.args] + ["%s=%s" % (k.arg, c(k.value)) for k in node.keywords]
        return "%s(%s)" % (c(f), ",".join(args))
    if isinstance(node, ast.Subscript):
        return "%s[%s]" % (c(node.value), c(node.slice))
    if isinstance(node, ast.Slice):
        return "%s:%s" % (c(node.lower) if node.lower else "", c(node.upper) if node.upper else "")
    if isinstance(node, ast.Tuple):
        return "(" + ",".join(c(e) for e in node.elts) + ")"
    if isinstance(node, ast.List):
        return "[" + ",".join(c(e) for e in node.elts) + "]"
    if isinstance(node, ast.BinOp) and (isinstance(node.op, ast.Add) or (isinstance(node.op, ast.Mult) and commutative_mult)):
        # flatten associative-commutative chains and sort the operands
        ops = []

        def flat(n):
            if isinstance(n, ast.BinOp) and type(n.op) is type(node.op):
                flat(n.left)
                flat(n.right)
            elif isinstance(n, ast.Name) and n.id not in keep and (defs.lookup(n.id, getattr(n, "lineno", None)) or ("", None))[0] == "expr" \
                    and isinstance(defs.lookup(n.id, getattr(n, "lineno", None))[1], ast.BinOp) and type(defs.lookup(n.id, getattr(n, "lineno", None))[1].op) is type(node.op):
                flat(defs.lookup(n.id, getattr(n, "lineno", None))[1])
            else:
                ops.append(c(n))

        flat(node)
        return "(" + ("+" if isinstance(node.op, ast.Add) else "*").join(sorted(ops)) + ")"
    if isinstance(node, ast.BinOp):
        a, b = c(node.left), c(node.right)
        op = type(node.op).__name__
        if op == "Add" or (op == "Mult" and commutative_mult):
            a, b = sorted([a, b])
        sym = {"Add": "+", "Sub": "-", "Mult": "*", "Div": "/", "MatMult": "@", "FloorDiv": "//", "Mod": "%", "Pow": "**"}.get(op, op)
        return "(%s%s%s)" % (a, sym, b)
    if isinstance(node, ast.UnaryOp):
        return "%s(%s)" % (type(node.op).__name__, c(node.operand))
    if isinstance(node, ast.Compare) and len(node.ops) == 1:
        a, b = c(node.left), c(node.comparators[0])
        op = type(node.ops[0]).__name__
        if op in ("Eq", "NotEq"):
            a, b = sorted([a, b])
        return "(%s %s %s)" % (a, op, b)
    if isinstance(node, ast.Starred):
        return "*" + c(node.value)
    if isinstance(node, ast.BoolOp):
        return "(" + (" %s " % type(node.op).__name__).join(sorted(c(v) for v in node.values)) + ")"
    if isinstance(node, ast.IfExp):
        return "(%s if %s else %s)" % (c(node.body), c(node.test), c(node.orelse))
    if isinstance(node, ast.JoinedStr):
        return "fstr"
    return unparse(node)


def match(pattern, text):
    """Whole-string match where `*` in pattern is the only wildcard."""
    return re.fullmatch(re.escape(pattern).replace("\\*", ".*"), text) is not None


def enclosing_loops(fn, target):
    """List of ast.For / ast.While statements enclosing node ``target`` inside fn (outermost first)."""
    path = []

    def rec(node, stack):
        if node is target:
            path.extend(stack)
            return True
        for child in ast.iter_child_nodes(node):
            ns = stack + [node] if isinstance(node, (ast.For, ast.While)) else stack
            if rec(child, ns):
                return True
        return False

    rec(fn, [])
    return path


class _NoDefs:
    multi = set()
    defs = {}

    def lookup(self, name, line):
        return None


def canon_text(src):
    """Canonical form of a source expression given as text (no local definitions): lets expected forms be written
    as ordinary Python and normalised by the same rules as the code under analysis."""
    return canon(ast.parse(src, mode="eval").body, _NoDefs())
