"""IDX role typing of call sites: canonical *provenance expressions*.

``canon(node)`` rewrites an argument expression into a canonical provenance string by inlining
single-assignment locals (including tuple unpacking), stripping dtype conversions
(``.astype``, ``np.array(x, dtype=..)``, ``np.asarray``), and sorting commutative operands.
Two expressions with the same canonical form denote the same value of the enclosing function's
parameters; renaming or re-ordering locals does not change it.
"""

import ast
import copy
import re

from .core import AnalysisError
from .src import arg_names, unparse, walk_stmts


class Defs:
    """Reaching definitions of local names (straight-line approximation).

    Every plain assignment is recorded with its line and the line ranges of the compound-statement bodies that
    enclose it.  A use at line L resolves to the latest assignment before L whose enclosing bodies all contain L
    (i.e. the assignment dominates the use in structured code without loops re-entering).  Names that are
    augmented-assigned, or whose latest candidate sits in a branch not containing the use, stay opaque."""

    def __init__(self, fn, extra_scopes=(), opaque_mutated=True):
        self.fn = fn
        self.opaque_mutated = opaque_mutated
        self.params = set(arg_names(fn)) | {a.arg for a in fn.args.kwonlyargs}
        self.all = {}  # name -> [(line, ranges, record)]
        self.multi = set()
        self.stmt_end = {}
        self.mutated = set()
        self.loopvars = {}
        self.loops = {}  # name -> [(For stmt, tuple position or None, ordinal)]
        self._nloops = 0
        for scope in [fn] + list(extra_scopes):
            self.params |= set(arg_names(scope))
        self._scan(fn.body, [])
        for scope in extra_scopes:
            pass
        # legacy view: latest definition per name (used where no use-site line is available)
        self.defs = {}
        for name, lst in self.all.items():
            lst.sort(key=lambda d: d[0])  # source order (the canonical tree may list the branches of an `if` the other way round)
            self.defs[name] = lst[-1][2]
            branches = {tuple(r) for _, r, _ in lst}
            if len(lst) > 1 and len(branches) > 1:
                # assigned in different branches: ambiguous without a use site
                self.ambiguous = getattr(self, "ambiguous", set()) | {name}

    def _scan(self, body, ranges):
        for st in body:
            if isinstance(st, ast.Assign) and len(st.targets) == 1:
                self._bind(st.targets[0], st.value, st.lineno, ranges)
                # a multi-line statement does not define the names used inside itself (`a, s = f(x,\n s)`)
                self.stmt_end[st.lineno] = max(self.stmt_end.get(st.lineno, 0), getattr(st, "end_lineno", st.lineno))
            elif isinstance(st, ast.AugAssign) and isinstance(st.target, ast.Name):
                self.multi.add(st.target.id)
            # containers updated in place: their value at a use is not their allocation, keep the name
            for t in (st.targets if isinstance(st, ast.Assign) else [st.target] if isinstance(st, ast.AugAssign) else []):
                if isinstance(t, ast.Subscript) and isinstance(t.value, ast.Name):
                    self.mutated.add(t.value.id)
            if isinstance(st, ast.Expr) and isinstance(st.value, ast.Call) and isinstance(st.value.func, ast.Attribute) and isinstance(st.value.func.value, ast.Name) \
                    and st.value.func.attr in ("append", "extend", "add", "remove", "update", "insert", "sort", "fill"):
                self.mutated.add(st.value.func.value.id)
            elif isinstance(st, ast.For):
                self._nloops += 1
                if isinstance(st.target, ast.Name):
                    self.loopvars[st.target.id] = st
                    self.loops.setdefault(st.target.id, []).append((st, None, self._nloops))
                elif isinstance(st.target, (ast.Tuple, ast.List)):
                    for i, t in enumerate(st.target.elts):
                        if isinstance(t, ast.Name):
                            self.loops.setdefault(t.id, []).append((st, i, self._nloops))
            for field in ("body", "orelse", "finalbody"):
                sub = getattr(st, field, None)
                if sub and isinstance(sub, list) and isinstance(sub[0], ast.stmt):
                    rng = (sub[0].lineno, max(getattr(x, "end_lineno", x.lineno) for x in sub))
                    # a `with` body always executes: it does not restrict where its definitions are visible
                    self._scan(sub, ranges if isinstance(st, ast.With) else ranges + [rng])
            if isinstance(st, ast.Try):
                for h in st.handlers:
                    rng = (h.body[0].lineno, max(getattr(x, "end_lineno", x.lineno) for x in h.body))
                    self._scan(h.body, ranges + [rng])
            if isinstance(st, (ast.FunctionDef,)):
                self._scan(st.body, ranges)

    def _bind(self, target, value, line, ranges):
        if isinstance(target, ast.Name):
            self.all.setdefault(target.id, []).append((line, list(ranges), ("expr", value)))
        elif isinstance(target, (ast.Tuple, ast.List)):
            for i, t in enumerate(target.elts):
                if isinstance(t, ast.Name):
                    self.all.setdefault(t.id, []).append((line, list(ranges), ("unpack", value, i)))
                elif isinstance(t, (ast.Tuple, ast.List)):
                    for j, tt in enumerate(t.elts):
                        if isinstance(tt, ast.Name):
                            self.all.setdefault(tt.id, []).append((line, list(ranges), ("unpack2", value, i, j)))

    def loop_of(self, name, line):
        """(For stmt, tuple position, ordinal) of the innermost loop binding `name` whose body contains `line`."""
        best = None
        for st, pos, k in self.loops.get(name, ()):
            if line is None or st.lineno <= line <= getattr(st, "end_lineno", st.lineno):
                if best is None or st.lineno >= best[0].lineno:
                    best = (st, pos, k)
        return best

    def alloc(self, name, line):
        """The definition (allocation) of an in-place updated container reaching `line`."""
        return self.lookup(name, line, _alloc=True)

    def lookup(self, name, line, _alloc=False):
        """Definition record reaching a use of `name` at `line`, or None if the name must stay opaque."""
        if name in self.multi or name not in self.all or (self.opaque_mutated and name in self.mutated and not _alloc):
            return None
        lst = self.all[name]
        if line is None:
            return lst[-1][2] if len(lst) == 1 else None
        before = [d for d in lst if d[0] < line and self.stmt_end.get(d[0], d[0]) < line]
        if not before:
            # used before any assignment in source order (e.g. closure defined earlier): unique definition only
            if any(d[0] <= line <= self.stmt_end.get(d[0], d[0]) for d in lst):
                return None  # the use sits inside the only statement(s) that define the name
            return lst[0][2] if len(lst) == 1 and lst[0][0] > line else None
        dline, ranges, rec = before[-1]
        if all(lo <= line <= hi for lo, hi in ranges):
            return rec
        return None


def _np_call(node, name, nargs):
    return (isinstance(node, ast.Call) and isinstance(node.func, ast.Attribute) and node.func.attr == name and isinstance(node.func.value, ast.Name)
            and node.func.value.id in ("_np", "np", "numpy") and len(node.args) == nargs and not node.keywords)


STRIP_METHODS = {"astype", "copy", "ravel"}
STRIP_FUNCS = {"array", "asarray", "ascontiguousarray", "dtype"}


def canon(node, defs, keep=(), _depth=0, _seen=frozenset(), commutative_mult=True, lv=False):
    """lv=True additionally replaces loop variables by `‹k:iterable›` (k = ordinal of the loop in the function), so
    the canonical form does not depend on what a loop variable is called."""
    if _depth > 200:
        raise AnalysisError("provenance expression too deep")
    c = lambda n: canon(n, defs, keep, _depth + 1, _seen, commutative_mult, lv)

    def res(n):
        """The defining expression of a local that merely names a fragment of an idiom matched below."""
        k = 0
        while isinstance(n, ast.Name) and n.id not in keep and k < 10:
            d = defs.lookup(n.id, getattr(n, "lineno", None))
            if d is None or d[0] != "expr" or id(d) in _seen:
                break
            n, k = d[1], k + 1
        return n

    if isinstance(node, ast.Name):
        if node.id in keep:
            return node.id
        d = defs.lookup(node.id, getattr(node, "lineno", None))
        if d is not None and id(d) in _seen:
            return node.id  # cyclic definition (loop-carried value): keep the name
        if d is not None:
            c = lambda n: canon(n, defs, keep, _depth + 1, _seen | {id(d)}, commutative_mult, lv)
            if d[0] == "expr":
                return c(d[1])
            if d[0] == "unpack":
                return "%s[%d]" % (c(d[1]), d[2])
            return "%s[%d][%d]" % (c(d[1]), d[2], d[3])
        if lv and hasattr(defs, "loop_of"):
            lp = defs.loop_of(node.id, getattr(node, "lineno", None))
            if lp is not None and id(lp[0]) not in _seen:
                c = lambda n: canon(n, defs, keep, _depth + 1, _seen | {id(lp[0])}, commutative_mult, lv)
                base = "‹%d:%s›" % (lp[2], c(lp[0].iter))
                return base if lp[1] is None else "%s[%d]" % (base, lp[1])
        return node.id
    if isinstance(node, ast.Constant):
        return repr(node.value)
    if isinstance(node, ast.Attribute):
        return c(node.value) + "." + node.attr
    if isinstance(node, ast.Call):
        f = node.func
        # index-of-true idioms on 1-d masks: flatnonzero(m) == argwhere(m).flatten() == where(m)[0] == nonzero(m)[0]
        if _np_call(node, "flatnonzero", 1):
            return "nz(%s)" % c(node.args[0])
        if isinstance(f, ast.Attribute) and f.attr in ("flatten", "ravel") and not node.args and _np_call(res(f.value), "argwhere", 1):
            return "nz(%s)" % c(res(f.value).args[0])
        is_np_func = isinstance(f, ast.Attribute) and isinstance(f.value, ast.Name) and f.value.id in ("_np", "np", "numpy")
        if isinstance(f, ast.Attribute) and f.attr in STRIP_METHODS and "ravel" != f.attr and not is_np_func:
            return c(f.value)
        if isinstance(f, ast.Attribute) and f.attr == "ravel" and not is_np_func and not node.args and not node.keywords:
            return c(f.value) + ".ravel()"
        fname = unparse(f)
        if fname.split(".")[-1] in STRIP_FUNCS and fname.split(".")[0] in ("_np", "np", "numpy") and node.args:
            return c(node.args[0])
        # dtype= keywords are conversions like .astype: not part of the provenance
        args = [c(a) for a in node.args] + ["%s=%s" % (k.arg, c(k.value)) for k in node.keywords if k.arg != "dtype"]
        return "%s(%s)" % (c(f), ",".join(args))
    if isinstance(node, ast.Subscript):
        if isinstance(node.slice, ast.Constant) and node.slice.value == 0 and (_np_call(res(node.value), "where", 1) or _np_call(res(node.value), "nonzero", 1)):
            return "nz(%s)" % c(res(node.value).args[0])
        return "%s[%s]" % (c(node.value), c(node.slice))
    if isinstance(node, ast.Slice):
        return "%s:%s" % (c(node.lower) if node.lower else "", c(node.upper) if node.upper else "")
    if isinstance(node, ast.Tuple):
        return "(" + ",".join(c(e) for e in node.elts) + ")"
    if isinstance(node, ast.List):
        return "[" + ",".join(c(e) for e in node.elts) + "]"
    if isinstance(node, ast.BinOp) and (isinstance(node.op, ast.Add) or (isinstance(node.op, ast.Mult) and commutative_mult)):
        # flatten associative-commutative chains and sort the operands
        ops = []

        def flat(n):
            if isinstance(n, ast.BinOp) and type(n.op) is type(node.op):
                flat(n.left)
                flat(n.right)
            elif isinstance(n, ast.Name) and n.id not in keep and (defs.lookup(n.id, getattr(n, "lineno", None)) or ("", None))[0] == "expr" \
                    and isinstance(defs.lookup(n.id, getattr(n, "lineno", None))[1], ast.BinOp) and type(defs.lookup(n.id, getattr(n, "lineno", None))[1].op) is type(node.op):
                flat(defs.lookup(n.id, getattr(n, "lineno", None))[1])
            else:
                ops.append(c(n))

        flat(node)
        return "(" + ("+" if isinstance(node.op, ast.Add) else "*").join(sorted(ops)) + ")"
    if isinstance(node, ast.BinOp):
        a, b = c(node.left), c(node.right)
        op = type(node.op).__name__
        if op == "Add" or (op == "Mult" and commutative_mult):
            a, b = sorted([a, b])
        sym = {"Add": "+", "Sub": "-", "Mult": "*", "Div": "/", "MatMult": "@", "FloorDiv": "//", "Mod": "%", "Pow": "**"}.get(op, op)
        return "(%s%s%s)" % (a, sym, b)
    if isinstance(node, ast.UnaryOp):
        return "%s(%s)" % (type(node.op).__name__, c(node.operand))
    if isinstance(node, ast.Compare) and len(node.ops) == 1:
        a, b = c(node.left), c(node.comparators[0])
        op = type(node.ops[0]).__name__
        if op in ("Eq", "NotEq"):
            a, b = sorted([a, b])
        return "(%s %s %s)" % (a, op, b)
    if isinstance(node, ast.Starred):
        return "*" + c(node.value)
    if isinstance(node, ast.BoolOp):
        return "(" + (" %s " % type(node.op).__name__).join(sorted(c(v) for v in node.values)) + ")"
    if isinstance(node, ast.IfExp):
        return "(%s if %s else %s)" % (c(node.body), c(node.test), c(node.orelse))
    if isinstance(node, (ast.ListComp, ast.GeneratorExp, ast.SetComp)) and len(node.generators) == 1 and isinstance(node.generators[0].target, ast.Name):
        # comprehension variable renamed to a fixed placeholder: [f(x) for x in xs if p(x)] is the same for every x
        g = node.generators[0]
        var, ph = g.target.id, "‹c%d›" % sum(1 for k in keep if str(k).startswith("‹c"))
        n2 = copy.deepcopy(node)
        for n in ast.walk(n2):
            if isinstance(n, ast.Name) and n.id == var:
                n.id = ph
        g2 = n2.generators[0]
        c2 = lambda n: canon(n, defs, tuple(keep) + (ph,), _depth + 1, _seen, commutative_mult, lv)
        conds = "".join(" if " + c2(x) for x in g2.ifs)
        br = {"ListComp": "[%s]", "GeneratorExp": "(%s)", "SetComp": "{%s}"}[type(node).__name__]
        return br % ("%s for %s in %s%s" % (c2(n2.elt), ph, c(g.iter), conds))
    if isinstance(node, ast.JoinedStr):
        return "fstr"
    return unparse(node)


def inline(node, defs, _depth=0, keep=()):
    """A copy of the expression `node` in which every local that has one reaching plain definition (`name = expr`) is
    replaced by that expression, recursively: `t = a.weak_form(); return t * b` reads `a.weak_form() * b`.  Names the
    provenance analysis keeps opaque (augmented, redefined in another branch, parameters, loop variables) stay."""
    import copy

    if _depth > 50:
        raise AnalysisError("inline: definitions nested too deeply")

    class _In(ast.NodeTransformer):
        def visit_Name(self, n):
            if isinstance(n.ctx, ast.Load) and n.id not in keep:
                d = defs.lookup(n.id, getattr(n, "lineno", None))
                if d is not None and d[0] == "expr":
                    return inline(d[1], defs, _depth + 1, keep)
            return n

        def visit_Lambda(self, n):
            return n

    return _In().visit(copy.deepcopy(node))


def match(pattern, text):
    """Whole-string match where `*` in pattern is the only wildcard."""
    return re.fullmatch(re.escape(pattern).replace("\\*", ".*"), text) is not None


def enclosing_loops(fn, target):
    """List of ast.For / ast.While statements enclosing node ``target`` inside fn (outermost first)."""
    path = []

    def rec(node, stack):
        if node is target:
            path.extend(stack)
            return True
        for child in ast.iter_child_nodes(node):
            ns = stack + [node] if isinstance(node, (ast.For, ast.While)) else stack
            if rec(child, ns):
                return True
        return False

    rec(fn, [])
    return path


class _NoDefs:
    multi = set()
    defs = {}

    def lookup(self, name, line):
        return None


class Store:
    __slots__ = ("target", "op", "value", "node", "guards", "loops", "tnode", "vnode")

    def __repr__(self):
        return "%s %s %s" % (self.target, self.op, self.value)


def stores(body, defs, keep=(), lv=True, _guards=(), _loops=()):
    """Every assignment below `body` (not descending into nested defs) as Store records with canonical target and
    value, the stack of enclosing `if` tests ((canonical test, branch)) and the enclosing loop statements."""
    out = []
    for st in body:
        if isinstance(st, (ast.Assign, ast.AugAssign)):
            targets = st.targets if isinstance(st, ast.Assign) else [st.target]
            for t in targets:
                s = Store()
                s.node, s.tnode, s.vnode = st, t, st.value
                s.op = "=" if isinstance(st, ast.Assign) else type(st.op).__name__ + "="
                if isinstance(t, ast.Name):
                    s.target = t.id
                else:
                    s.target = canon(t, defs, keep, lv=lv).replace(" ", "")
                s.value = canon(st.value, defs, keep, lv=lv).replace(" ", "")
                s.guards, s.loops = tuple(_guards), tuple(_loops)
                out.append(s)
        elif isinstance(st, ast.Expr) and isinstance(st.value, ast.Call):
            # effectful call statement (list.append, set.add, np.add.at, ...)
            s = Store()
            s.node, s.tnode, s.vnode, s.op, s.target = st, None, st.value, "call", None
            s.value = canon(st.value, defs, keep, lv=lv).replace(" ", "")
            s.guards, s.loops = tuple(_guards), tuple(_loops)
            out.append(s)
        elif isinstance(st, ast.Return):
            s = Store()
            s.node, s.tnode, s.vnode, s.op, s.target = st, None, st.value, "return", None
            s.value = canon(st.value, defs, keep, lv=lv).replace(" ", "") if st.value is not None else "None"
            s.guards, s.loops = tuple(_guards), tuple(_loops)
            out.append(s)
        elif isinstance(st, ast.If):
            g = canon(st.test, defs, keep, lv=lv).replace(" ", "")
            out += stores(st.body, defs, keep, lv, _guards + ((g, True),), _loops)
            out += stores(st.orelse, defs, keep, lv, _guards + ((g, False),), _loops)
        elif isinstance(st, (ast.For, ast.While)):
            out += stores(st.body, defs, keep, lv, _guards, _loops + (st,))
            out += stores(st.orelse, defs, keep, lv, _guards, _loops)
        elif isinstance(st, ast.With):
            out += stores(st.body, defs, keep, lv, _guards, _loops)
        elif isinstance(st, ast.Try):
            for blk in (st.body, st.orelse, st.finalbody):
                out += stores(blk, defs, keep, lv, _guards, _loops)
            for h in st.handlers:
                out += stores(h.body, defs, keep, lv, _guards, _loops)
    return out


def expect(src, defs, line, keep=(), lv=True, **bind):
    """Canonical form of the expected expression `src` (ordinary Python) as if it stood at `line` of the analysed
    function: names in `bind` are replaced by the given AST nodes (or source strings) found in the code, all other
    names resolve through the function's own definitions.  Expected and actual forms thus go through the same
    normalisation, so a rule states *what* must be computed, never how the code spells it."""
    tree = ast.parse(src, mode="eval").body

    class Sub(ast.NodeTransformer):
        def visit_Name(self, n):
            if n.id in bind:
                b = bind[n.id]
                if isinstance(b, str):
                    # a binding given as text may itself mention placeholders (N="G.number_of_vertices")
                    if depth[0] > 8:
                        raise AnalysisError("expect: cyclic placeholder bindings in %r" % src)
                    depth[0] += 1
                    b = self.visit(ast.Expression(body=ast.parse(b, mode="eval").body)).body if b != n.id else ast.Name(id=b, ctx=ast.Load())
                    depth[0] -= 1
                    return b
                return copy.deepcopy(b)
            return n

    depth = [0]

    tree = Sub().visit(ast.Expression(body=tree)).body
    # the expected text goes through the loader's canonical spelling too (x.dot(y) / x @ y, constant on the right, ...)
    from .normal import Canon

    tree = Canon().visit(ast.Expression(body=tree)).body
    ast.fix_missing_locations(tree)
    # every node (expected text and substituted code alike) is read at the same program point
    for n in ast.walk(tree):
        if isinstance(n, ast.expr):
            n.lineno = n.end_lineno = line
            n.col_offset = n.end_col_offset = 0
    return canon(tree, defs, keep, lv=lv).replace(" ", "")


def canon_text(src):
    """Canonical form of a source expression given as text (no local definitions): lets expected forms be written
    as ordinary Python and normalised by the same rules as the code under analysis."""
    from .normal import Canon

    return canon(Canon().visit(ast.parse(src, mode="eval")).body, _NoDefs())


def found_or(ok, names, *mention):
    """Three-valued answer of a recogniser that looks for a local defined as a given expression: True when found;
    False when it is not found but some local's definition mentions the same table(s) (a deviating definition: wrong
    index order, wrong table row, ...); None when nothing in the loop mentions them (the construction is written in a
    way the recogniser does not read - a limit of the analysis, not a verdict)."""
    if ok:
        return True
    texts = [ast.unparse(st.value if hasattr(st, "value") else st).replace(" ", "") for st in (names.values() if isinstance(names, dict) else names)]
    return False if any(all(m.replace(" ", "") in t for m in mention) for t in texts) else None
