"""C06 — Hypersingular and Maxwell operators equal their single-layer decompositions."""

from .. import assemblers as A
from .. import kernels as K
from .. import guards, rules, shapesets as S, symex
from ..alg import V, vsum
from ..core import AnalysisError
from ..symex import Arr, Interp, opaque_atom
from . import c11

LEVEL = "other"
TECHNIQUE = "symbolic extraction of the regular and singular assemblers of each family into normal forms over role-named atoms, compared with the single-layer decomposition spec; table/edge-convention sibling lints"
LEVEL_TEXT = (
    "For the Laplace/Helmholtz/modified-Helmholtz hypersingular and the Maxwell electric and magnetic field "
    "operators, the regular and the singular assembler are each proved to accumulate exactly K * weights * Jacobians "
    "* (curl_i . curl_j - k^2 phi_i psi_j n_x.n_y), resp. G l_i l_j (-ik RT_i.RT_j - (1/(ik)) (2/J_x)(2/J_y)), resp. "
    "G (ikD-1)/D^2 (x-y).(RT_i x RT_j) l_i l_j -- the single-layer decomposition of the statement with the library's "
    "own curl, normal, component and divergence maps -- so regular == singular == spec as integrands.  Also: the "
    "reference gradients sum to zero (constants annihilated), every edge-length copy follows _EDGE_LOCAL, the Piola "
    "transform is J phi^/det J with the rwg0 reference functions, and the Maxwell integrands are symmetric under "
    "exchange of the roles (complex symmetry)."
)
LEVEL_NOTE = "Not decided: equality of assembled matrices 'to rounding' (numerical)."
EXPLANATION = "rules ASM-REGULAR/ASM-SINGULAR (5 families), REFGRAD, EDGE-CONV, PIOLA, ROLE-SYMMETRY, ADJ-9"
ASSUMPTIONS = ["Numba arithmetic semantics", "grid tables (jac_inv_trans, jacobians, normals, integration elements) denote what their names say"]

NK = K.NK
TYPES = ("laplace_hypersingular", "helmholtz_hypersingular", "modified_helmholtz_hypersingular", "maxwell_electric_field", "maxwell_magnetic_field")


def refgrad(ctx):
    """The spec's reference gradient table equals the gradient of the registered P1 shapeset; columns sum to zero."""
    r = ctx.rule("REFGRAD", "reference P1 gradients used by the hypersingular assemblers == gradient of the p1_discontinuous shapeset; they sum to zero over the three functions", 2)
    sreg = S.registry(ctx)
    ent = sreg["p1_discontinuous"]
    g = S.gradient(ctx, ent["gradient"], 1, 3)  # g[0][direction][fun]
    ok = all(g[0][c][f].eq(V.const(A.REFGRAD[c][f])) for c in range(2) for f in range(3))
    r.check(ok, "REFGRAD == shapeset gradient", S.SH, ent["gradient"], 0, "p1 reference gradient table", "p1 shapeset gradient differs from [[-1,1,0],[-1,0,1]] used by the hypersingular integrand (ASM rules tie the code's literal to this table)")
    r.check(all(sum(A.REFGRAD[c]) == 0 for c in range(2)), "sum_j grad phi_j = 0", S.SH, ent["gradient"], 0, "reference gradients sum", "reference gradients do not sum to zero: the hypersingular matrix would not annihilate constants")
    # evaluate derivative consistency: gradient table is the derivative of the evaluate table
    ev = S.evaluate(ctx, ent["evaluate"], 1, 3)
    okd = all(ev[0][f].diff("ξ%d" % c).eq(g[0][c][f]) for c in range(2) for f in range(3))
    r.check(okd, "gradient == d/dξ evaluate", S.SH, ent["gradient"], 0, "p1 gradient vs evaluate", "p1 shapeset gradient is not the derivative of the p1 shapeset")


def piola(ctx):
    r = ctx.rule("PIOLA", "get_piola_transform == J * phi^_f / (integration element) with the rwg0 reference functions", 9)
    m = ctx.repo.mod(NK)
    fn = m.fn("get_piola_transform")
    symex.reset()
    hooks = A.Hooks(ctx, "geom").as_dict()
    hooks["opaque_calls"] = {}
    N, NE = opaque_atom("#pts"), opaque_atom("#els")
    pts = Arr("P", "input", ndim=2, shape=[2, N])
    els = Arr("elements", "input", ndim=1, shape=[NE])
    it = Interp(m, fn, {"grid_data": A.Grid("G"), "elements": els, "local_points": pts}, hooks)
    res = it.run()
    if not isinstance(res, Arr):
        raise AnalysisError("get_piola_transform does not return its result array")
    k, q = symex.fresh("k"), symex.fresh("q")
    symex.RANGES[k], symex.RANGES[q] = NE, N
    sreg = S.registry(ctx)
    py = S.evaluate(ctx, sreg["rwg0"]["evaluate"], 2, 3)
    env = {"ξ0": opaque_atom("P", [0, V.atom(q)]), "ξ1": opaque_atom("P", [1, V.atom(q)])}
    e = opaque_atom("elements", [V.atom(k)])
    for f in range(3):
        for d in range(3):
            got = it.read(res, [V.atom(k), V.const(f), V.const(d), V.atom(q)], fn)
            want = vsum(opaque_atom("G.jacobians", [e, d, c]) * py[c][f].subs(env) for c in range(2)) / opaque_atom("G.integration_elements", [e])
            r.check(got.eq(want), "function %d component %d" % (f, d), NK, fn.name, fn.lineno, "piola transform [%d,%d]" % (f, d),
                    "Piola-mapped reference function differs from J phi^/int_elem with the rwg0 shapeset")


def role_symmetry(ctx):
    """Electric / magnetic integrand specs are invariant under (i, x) <-> (j, y) given the symmetry of the Helmholtz single layer kernel."""
    r = ctx.rule("ROLE-SYMMETRY", "Maxwell electric and magnetic integrands are symmetric under exchange of the test and trial roles (complex-symmetric matrices for equal spaces)", 2)
    kp = [K.KR, K.KI]
    a = A.Pt("G", opaque_atom("E1"), [V.atom("ξ0"), V.atom("ξ1")], V.atom("w1"), "nm")
    b = A.Pt("G", opaque_atom("E2"), [V.atom("η0"), V.atom("η1")], V.atom("w2"), "nm")
    i, j = V.atom("i"), V.atom("j")
    for at in ("maxwell_electric_field", "maxwell_magnetic_field"):
        c1 = A.integrand_core(at, a, b, i, j, kp)
        c2 = A.integrand_core(at, b, a, j, i, kp)
        k1 = A._single_atom(A.K_atom(a, b, False))
        c2 = c2.subs({A._single_atom(A.K_atom(b, a, False)): V.atom(k1)})
        fname = K.registries(ctx)["assembly_functions_regular"][at]
        r.check(c1.eq(c2), at, NK, fname, ctx.repo.mod(NK).fn(fname).lineno, "role symmetry of " + at, "integrand changes under exchange of (test function, test point) with (trial function, trial point)")


def run(ctx):
    rules.assembler_integrands(ctx, types=TYPES)
    rules.kernel_specs(ctx, ("laplace", "helmholtz", "modified_helmholtz"), rule_id="K-SPEC-SL")
    refgrad(ctx)
    c11.edge_convention(ctx)
    piola(ctx)
    role_symmetry(ctx)
    rules.factory_sites(ctx, "boundary")
    guards.factory_guards(ctx, "boundary")
    rules.elements_adjacent_complete(ctx)  # the predicate that routes a pair to the singular rule (ADJ-9)
    from .. import spaces as _spaces

    _spaces.localised_inherit(ctx)  # singular parts, sparse forms, potentials and FMM point maps are computed on the localised companion space
    from .. import singular as _sing

    _sing.check_segments(ctx)  # (tools/wiring.py) the singular part of every dense operator: per-pair segments, offsets
    _sing.check_offsets(ctx)
    from .. import spaces as _spc

    _spc.paired_defaults(ctx)  # RWG / SNC and BC / RBC are built from the same options under the same keywords
    from . import c11 as _c11g

    _c11g.geometry(ctx)  # (tools/wiring.py) normals, Jacobians, integration elements against their definitions for a general triangle of any size
