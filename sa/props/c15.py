"""C15 — Linear solvers return solutions of the stated system in the right spaces."""

import ast

from .. import roles
from ..core import AnalysisError
from ..src import arg_names, calls_in, unparse
from . import c14

LEVEL = "other"
TECHNIQUE = "sibling-table lint over the five solver paths (lu single/blocked, gmres single/blocked, cg) on canonical provenance expressions"
LEVEL_TEXT = (
    "Only the plumbing clause of the statement is decided: each solver path hands scipy the operator and right-hand "
    "side of the stated system (weak form with projections onto the dual space, or strong form with coefficients "
    "guarded by a range/space compatibility test), forwards tolerance/restart/maxiter, returns functions built in the "
    "domain space(s) of A from the solver's solution vector, reports residuals and counts of the callback object that "
    "was actually handed to the iteration, and precomputed LU factors factor the same matrix that lu() would solve."
)
LEVEL_NOTE = "Out of reach statically: convergence, info == 0 and accuracy (properties of scipy and of conditioning, not of this code's shape)."
EXPLANATION = "rules SOLVER-SYSTEM, SOLVER-CALL, SOLVER-RESULT, SOLVER-RETURNS, LU-PATHS, CG-RESIDUAL, PACKING"
ASSUMPTIONS = ["scipy.sparse.linalg.gmres/cg and scipy.linalg.solve/lu_solve/lu_factor behave as documented"]

IT = "bempp_cl/api/linalg/iterative_solvers.py"
DS = "bempp_cl/api/linalg/direct_solvers.py"


def _branch_defs(fn, flag):
    """{(branch, name): canonical value} for assignments in the `if <flag>:` / else branches."""
    defs = roles.Defs(fn)
    ifs = [s for s in fn.body if isinstance(s, ast.If) and isinstance(s.test, ast.Name) and s.test.id == flag]
    if len(ifs) != 1:
        raise AnalysisError("%s: `if %s:` split not found" % (fn.name, flag))
    out = {}
    for br, body in (("strong", ifs[0].body), ("weak", ifs[0].orelse)):
        for st in body:
            if isinstance(st, ast.Assign) and isinstance(st.targets[0], ast.Name):
                out[(br, st.targets[0].id)] = roles.canon(st.value, defs, commutative_mult=False).replace(" ", "")
        guards = [s for s in body if isinstance(s, ast.If) and any(isinstance(x, ast.Raise) for x in s.body)]
        out[(br, "__guard__")] = [unparse(g.test).replace(" ", "") for g in guards]
    return out, ifs[0]


def run(ctx):
    m = ctx.repo.mod(IT)
    r_sys = ctx.rule("SOLVER-SYSTEM", "weak form => (A.weak_form(), projections onto A's dual space(s)); strong form => (A.strong_form(), coefficients), guarded by range/space compatibility on the single-operator paths", 12)
    r_call = ctx.rule("SOLVER-CALL", "scipy receives (A_op, b_vec), rtol=tol, maxiter (and restart) and the callback object whose results are returned", 3)
    r_res = ctx.rule("SOLVER-RESULT", "solutions are built from the solver's vector in A's domain space(s)", 3)
    r_ret = ctx.rule("SOLVER-RETURNS", "the four return shapes (with/without residuals and iteration count) agree across the iterative paths", 3)
    table = {
        "cg": ("single", "cg"), "_gmres_single_op_imp": ("single", "gmres"), "_gmres_block_op_imp": ("blocked", "gmres"),
    }
    shapes = {}
    for fname, (kind, solver) in table.items():
        fn = m.fn(fname)
        p = arg_names(fn)
        A, b = p[0], p[1]
        br, ifnode = _branch_defs(fn, "use_strong_form")
        exp = {
            ("strong", "A_op"): "%s.strong_form()" % A, ("weak", "A_op"): "%s.weak_form()" % A,
            ("strong", "b_vec"): ("%s.coefficients" % b) if kind == "single" else "coefficients_from_grid_functions_list(%s)" % b,
            ("weak", "b_vec"): ("%s.projections(%s.dual_to_range)" % (b, A)) if kind == "single" else "projections_from_grid_functions_list(%s,%s.dual_to_range_spaces)" % (b, A),
        }
        for key, want in exp.items():
            got = br.get(key)
            r_sys.check(got == want, "%s: %s/%s" % (fname, key[0], key[1]), IT, fname, ifnode.lineno, "%s %s %s = %s" % (fname, key[0], key[1], got),
                        "%s form uses %s = `%s`, expected `%s`" % (key[0], key[1], got, want))
        if kind == "single":
            g = br.get(("strong", "__guard__"), [])
            r_sys.check(any(x == "not%s.range.is_compatible(%s.space)" % (A, b) for x in g), "%s: strong-form guard" % fname, IT, fname, ifnode.lineno, "%s strong form guard %s" % (fname, g),
                        "strong form is used without checking that A.range is compatible with the space of b")
        # scipy call
        defs = roles.Defs(fn)
        calls = [c for c in calls_in(fn) if unparse(c.func) == "scipy.sparse.linalg." + solver]
        if len(calls) != 1:
            raise AnalysisError("%s: scipy %s call not found" % (fname, solver))
        c = calls[0]
        kws = {k.arg: unparse(k.value) for k in c.keywords}
        okc = [unparse(a) for a in c.args] == ["A_op", "b_vec"] and kws.get("rtol") == "tol" and kws.get("maxiter") == "maxiter" and kws.get("callback") == "callback" \
            and (solver == "cg" or kws.get("restart") == "restart")
        cb = [s for s in fn.body if isinstance(s, ast.Assign) and unparse(s.targets[0]) == "callback"]
        cbv = unparse(cb[0].value).replace(" ", "") if cb else None
        want_cb = "IterationCounter(return_residuals,True,A_op,b_vec)" if solver == "cg" else "IterationCounter(return_residuals)"
        r_call.check(okc and cbv == want_cb, fname, IT, fname, c.lineno, "%s scipy call %s %s callback=%s" % (fname, [unparse(a) for a in c.args], kws, cbv),
                     "scipy.%s is called with %s %s and callback `%s` (expected `%s`)" % (solver, [unparse(a) for a in c.args], kws, cbv, want_cb))
        # result construction
        res = [s for s in fn.body if isinstance(s, ast.Assign) and unparse(s.targets[0]) == "res_fun"]
        got = roles.canon(res[0].value, defs).replace(" ", "") if res else None
        sol = "scipy.sparse.linalg.%s(" % solver
        want = ("GridFunction(%s.domain,coefficients=" % A) if kind == "single" else "grid_function_list_from_coefficients("
        okr = got is not None and got.startswith(want) and (sol in got) and "[0].ravel()" in got and (kind == "single" or got.endswith(",%s.domain_spaces)" % A))
        r_res.check(okr, fname, IT, fname, res[0].lineno if res else fn.lineno, "%s result %s" % (fname, (got or "")[:60]), "result is `%s`" % (got or "")[:160])
        rets = [unparse(s.value).replace(" ", "") for s in sorted((x for x in ast.walk(fn) if isinstance(x, ast.Return) and x.value is not None), key=lambda x: x.lineno)]
        conds = [unparse(s.test).replace(" ", "") for s in fn.body if isinstance(s, ast.If) and any(isinstance(x, ast.Return) for x in s.body)]
        shapes[fname] = (rets, conds)
    ref = (["(res_fun,info,callback.residuals,callback.count)", "(res_fun,info,callback.residuals)", "(res_fun,info,callback.count)", "(res_fun,info)"],
           ["return_residualsandreturn_iteration_count", "return_residuals", "return_iteration_count"])
    for fname, (rets, conds) in shapes.items():
        r_ret.check(rets == ref[0] and conds == ref[1], fname, IT, fname, m.fn(fname).lineno, "%s return shapes %s" % (fname, rets), "return tuples are %s under %s" % (rets, conds))
    # CG residual uses the operator and rhs it was given
    r_cg = ctx.rule("CG-RESIDUAL", "IterationCounter: CG residual is rhs - operator * x of the objects passed in; counter and residual list are what the properties return", 1)
    ic = m.fn("IterationCounter.__call__")
    s = unparse(ic).replace(" ", "")
    init = unparse(m.fn("IterationCounter.__init__")).replace(" ", "")
    okc = ("res=self._rhs-self._operator*x" in s and "self._count+=1" in s and "self._residuals.append(_np.linalg.norm(res))" in s
           and "self._operator=operator" in init and "self._rhs=rhs" in init and "self._iteration_is_cg=iteration_is_cg" in init
           and unparse(m.fn("IterationCounter.count")).replace(" ", "").endswith("returnself._count") and unparse(m.fn("IterationCounter.residuals")).replace(" ", "").endswith("returnself._residuals"))
    r_cg.check(okc, "IterationCounter", IT, "IterationCounter.__call__", ic.lineno, "iteration counter bookkeeping", "the callback's residual/count bookkeeping changed shape")
    # direct solvers
    dm = ctx.repo.mod(DS)
    r_lu = ctx.rule("LU-PATHS", "lu(): projections onto the dual space(s), dense weak form, solution returned in the domain space(s); compute_lu_factors factors the same matrix", 5)
    fn = dm.fn("lu")
    p = arg_names(fn)
    A, b = p[0], p[1]
    ifs = [s for s in fn.body if isinstance(s, ast.If) and "BlockedOperatorBase" in unparse(s.test)]
    if len(ifs) != 1:
        raise AnalysisError("lu: blocked/single split not found")
    for kind, body in (("blocked", ifs[0].body), ("single", ifs[0].orelse)):
        shim = ast.FunctionDef(name="lu", args=fn.args, body=body, decorator_list=[], lineno=fn.lineno)
        vec = [s for s in body if isinstance(s, ast.Assign) and unparse(s.targets[0]) == "vec"]
        gv = unparse(vec[0].value).replace(" ", "") if vec else None
        wv = "%s.projections(%s.dual_to_range)" % (b, A) if kind == "single" else "projections_from_grid_functions_list(%s,%s.dual_to_range_spaces)" % (b, A)
        src = unparse(shim).replace(" ", "")
        oks = "mat=%s.weak_form().to_dense()" % A in src and "sol=solve(mat,vec)" in src and "sol=lu_solve(lu_factor,vec)" in src and "iflu_factorisnotNone:" in src
        ret = [s for s in body if isinstance(s, ast.Return)]
        gr = unparse(ret[0].value).replace(" ", "") if ret else None
        wr = "GridFunction(%s.domain,coefficients=sol)" % A if kind == "single" else "grid_function_list_from_coefficients(sol,%s.domain_spaces)" % A
        r_lu.check(gv == wv, "lu %s rhs" % kind, DS, "lu", vec[0].lineno if vec else fn.lineno, "lu %s rhs %s" % (kind, gv), "right-hand side is `%s`, expected `%s`" % (gv, wv))
        r_lu.check(oks and gr == wr, "lu %s solve/return" % kind, DS, "lu", ret[0].lineno if ret else fn.lineno, "lu %s returns %s" % (kind, gr), "solve/return path is `%s` (expected `%s`)" % (gr, wr))
    cf = dm.fn("compute_lu_factors")
    rv = unparse([s for s in cf.body if isinstance(s, ast.Return)][0].value).replace(" ", "")
    am = ctx.repo.mod("bempp_cl/api/__init__.py")
    okm = rv == "lu_factor(as_matrix(%s.weak_form()))" % arg_names(cf)[0]
    if am.has_fn("as_matrix"):
        okm = okm and "to_dense" in unparse(am.fn("as_matrix"))
    r_lu.check(okm, "compute_lu_factors", DS, "compute_lu_factors", cf.lineno, "compute_lu_factors returns " + rv, "LU factors are computed from `%s`, not from the dense weak form lu() solves with" % rv)
    c14.packing(ctx)
