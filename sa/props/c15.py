"""C15 — Linear solvers return solutions of the stated system in the right spaces."""

import ast

from .. import argbind, blocks, dtypes, roles
from ..core import AnalysisError
from ..src import arg_names, calls_in, unparse
from . import c14

LEVEL = "other"
TECHNIQUE = "sibling-table lint over the five solver paths (lu single/blocked, gmres single/blocked, cg) on canonical provenance expressions; inherited term and packing rules of C14 (strong form, dtype fold, running offsets)"
LEVEL_TEXT = (
    "Only the plumbing clause of the statement is decided: each solver path hands scipy the operator and right-hand "
    "side of the stated system (weak form with projections onto the dual space, or strong form with coefficients "
    "guarded by a range/space compatibility test), forwards tolerance/restart/maxiter, returns functions built in the "
    "domain space(s) of A from the solver's solution vector, reports residuals and counts of the callback object that "
    "was actually handed to the iteration, and precomputed LU factors factor the same matrix that lu() would solve."
)
LEVEL_NOTE = "Out of reach statically: convergence, info == 0 and accuracy (properties of scipy and of conditioning, not of this code's shape)."
EXPLANATION = "rules SOLVER-SYSTEM, SOLVER-CALL, SOLVER-RESULT, SOLVER-RETURNS, LU-PATHS, CG-RESIDUAL, PACKING"
ASSUMPTIONS = ["scipy.sparse.linalg.gmres/cg and scipy.linalg.solve/lu_solve/lu_factor behave as documented"]

IT = "bempp_cl/api/linalg/iterative_solvers.py"
DS = "bempp_cl/api/linalg/direct_solvers.py"


def _branch_values(S, name, flag):
    """{True/False: Store} of the definitions of `name` directly under `if <flag>:` / else."""
    out = {}
    for s in S:
        if s.op == "=" and isinstance(s.tnode, ast.Name) and s.tnode.id == name and len(s.guards) == 1 and s.guards[0][0] == flag:
            if s.guards[0][1] in out:
                return {}
            out[s.guards[0][1]] = s
    return out


def iterative(ctx, m, fname, kind, solver, r_sys, r_call, r_res, r_ret):
    fn = m.fn(fname)
    p = arg_names(fn)
    A, b = p[0], p[1]
    need = {"tol", "maxiter", "use_strong_form", "return_residuals", "return_iteration_count"} | ({"restart"} if solver == "gmres" else set())
    if not need <= set(p):
        raise AnalysisError("%s: public parameters %s missing" % (fname, sorted(need - set(p))))
    defs = roles.Defs(fn)
    S = roles.stores(fn.body, defs, lv=False)
    calls = [c for c in calls_in(fn) if unparse(c.func).endswith("linalg." + solver)]
    if len(calls) != 1:
        raise AnalysisError("%s: scipy %s call not found" % (fname, solver))
    c = calls[0]
    if len(c.args) != 2 or not all(isinstance(x, ast.Name) for x in c.args):
        raise AnalysisError("%s: scipy %s is not called with two local names" % (fname, solver))
    OP, RHS = c.args[0].id, c.args[1].id
    ex = lambda src, line=c.lineno, **kw: roles.expect(src, defs, line, lv=False, A=A, B=b, **kw)
    want = {
        (True, OP): ex("A.strong_form()"), (False, OP): ex("A.weak_form()"),
        (True, RHS): ex("B.coefficients") if kind == "single" else ex("coefficients_from_grid_functions_list(B)"),
        (False, RHS): ex("B.projections(A.dual_to_range)") if kind == "single" else ex("projections_from_grid_functions_list(B, A.dual_to_range_spaces)"),
    }
    for nm, what in ((OP, "operator"), (RHS, "right-hand side")):
        bv = _branch_values(S, nm, "use_strong_form")
        for strong in (True, False):
            got = bv[strong].value if strong in bv else None
            r_sys.check(got == want[(strong, nm)], "%s: %s/%s" % (fname, "strong" if strong else "weak", what), IT, fname, bv[strong].node.lineno if strong in bv else c.lineno,
                        "%s %s %s = %s" % (fname, "strong" if strong else "weak", what, got),
                        "%s form hands scipy the %s `%s`, expected `%s`" % ("strong" if strong else "weak", what, got, want[(strong, nm)]))
    if kind == "single":
        guard = ex("not A.range.is_compatible(B.space)")
        g = [n for n in ast.walk(fn) if isinstance(n, ast.If) and any(isinstance(x, ast.Raise) for x in n.body) and roles.canon(n.test, defs).replace(" ", "") == guard]
        inside = [n for n in g if any(n in ast.walk(i) for i in ast.walk(fn) if isinstance(i, ast.If) and roles.canon(i.test, defs) == "use_strong_form" and n in i.body)]
        r_sys.check(len(inside) == 1, "%s: strong-form guard" % fname, IT, fname, c.lineno, "%s strong form guard" % fname,
                    "strong form is used without raising when A.range is not compatible with the space of b")
    # scipy call: tolerance, restart, maxiter and the callback object
    kws = {k.arg: roles.canon(k.value, defs).replace(" ", "") for k in c.keywords}
    cbn = next((k.value for k in c.keywords if k.arg == "callback"), None)
    want_cb = ex("IterationCounter(return_residuals, True, OP, RHS)", OP=OP, RHS=RHS) if solver == "cg" else ex("IterationCounter(return_residuals)")
    okc = kws.get("rtol") == "tol" and kws.get("maxiter") == "maxiter" and (solver == "cg" or kws.get("restart") == "restart") and isinstance(cbn, ast.Name) and kws.get("callback") == want_cb
    r_call.check(okc, fname, IT, fname, c.lineno, "%s scipy call %s" % (fname, kws),
                 "scipy.%s receives %s (expected rtol=tol, maxiter=maxiter%s, callback=%s)" % (solver, kws, "" if solver == "cg" else ", restart=restart", want_cb))
    # returns: first element built from the solver's vector in A's domain space(s); status, residuals and count of the same call / callback
    rets = sorted((s for s in S if s.op == "return"), key=lambda s: s.node.lineno)
    res_want = ex("GridFunction(A.domain, coefficients=CALL[0].ravel())", CALL=c) if kind == "single" else ex("grid_function_list_from_coefficients(CALL[0].ravel(), A.domain_spaces)", CALL=c)
    res_got = None
    if rets and isinstance(rets[0].vnode, ast.Tuple):
        res_got = roles.canon(rets[0].vnode.elts[0], defs).replace(" ", "")
    r_res.check(res_got == res_want, fname, IT, fname, rets[0].node.lineno if rets else fn.lineno, "%s result %s" % (fname, (res_got or "")[:60]),
                "the returned solution is `%s`, expected `%s`" % ((res_got or "")[:200], res_want[:200]))
    CB = cbn.id if isinstance(cbn, ast.Name) else "callback"
    shape = lambda src: ex(src, rets[-1].node.lineno if rets else c.lineno, R=res_want_node(rets), CALL=c, CB=CB)

    def res_want_node(rs):
        return rs[0].vnode.elts[0] if rs and isinstance(rs[0].vnode, ast.Tuple) else ast.Name(id="_", ctx=ast.Load())

    both = {ex("return_residuals and return_iteration_count"), ex("return_iteration_count and return_residuals")}
    want_rets = [(both, "(R, CALL[1], CB.residuals, CB.count)"), ({"return_residuals"}, "(R, CALL[1], CB.residuals)"), ({"return_iteration_count"}, "(R, CALL[1], CB.count)"), (None, "(R, CALL[1])")]
    ok = len(rets) == 4
    msg = "%d return statements (expected 4)" % len(rets)
    if ok:
        for s, (g, src) in zip(rets, want_rets):
            gok = (s.guards == ()) if g is None else (len(s.guards) == 1 and s.guards[0][1] is True and s.guards[0][0] in g)
            if not gok or s.value != shape(src):
                ok = False
                msg = "return at line %d is `%s` under %s; expected `%s` under %s" % (s.node.lineno, s.value[:120], s.guards, src, sorted(g) if g else "no condition")
                break
    r_ret.check(ok, fname, IT, fname, fn.lineno, "%s return shapes" % fname, msg)


def counter(ctx, m):
    r_cg = ctx.rule("CG-RESIDUAL", "IterationCounter: CG residual is rhs - operator * x of the objects passed in; counter and residual list are what the properties return", 1)
    ic = m.fn("IterationCounter.__call__")
    init = m.fn("IterationCounter.__init__")
    di, dc = roles.Defs(init), roles.Defs(ic)
    pi = arg_names(init)
    Si = {s.target: s.value for s in roles.stores(init.body, di, lv=False) if s.op == "=" and not s.guards}
    need = {"store_residuals", "iteration_is_cg", "operator", "rhs"}
    ok_init = need <= set(pi) and Si.get("self._operator") == "operator" and Si.get("self._rhs") == "rhs" and Si.get("self._iteration_is_cg") == "iteration_is_cg" \
        and Si.get("self._store_residuals") == "store_residuals" and Si.get("self._count") == "0" and Si.get("self._residuals") == "[]"
    Sc = roles.stores(ic.body, dc, lv=False)
    x = arg_names(ic)[1]
    cnt = [s for s in Sc if s.op == "Add=" and s.target == "self._count" and s.value == "1" and not s.guards and not s.loops]
    app = [s for s in Sc if s.op == "call" and unparse(s.vnode.func) == "self._residuals.append" and s.guards == (("self._store_residuals", True),)]
    ok_call = len(cnt) == 1 and len(app) == 1
    why = "count/append bookkeeping"
    if ok_call:
        arg = app[0].vnode.args[0]
        inner = arg.args[0] if isinstance(arg, ast.Call) and unparse(arg.func).endswith("linalg.norm") and len(arg.args) == 1 else None
        ok_call = isinstance(inner, ast.Name)
        if ok_call:
            br = {s.guards[-1][1]: s.value for s in Sc if s.op == "=" and isinstance(s.tnode, ast.Name) and s.tnode.id == inner.id and len(s.guards) == 2 and s.guards[-1][0] == "self._iteration_is_cg"}
            cgres = {roles.canon(ast.parse("self._rhs - self._operator * %s" % x, mode="eval").body, dc, commutative_mult=False).replace(" ", ""),
                     roles.canon(ast.parse("self._rhs - self._operator @ %s" % x, mode="eval").body, dc, commutative_mult=False).replace(" ", "")}
            got_cg = [roles.canon(s.vnode, dc, commutative_mult=False).replace(" ", "") for s in Sc if s.op == "=" and isinstance(s.tnode, ast.Name) and s.tnode.id == inner.id and len(s.guards) == 2 and s.guards[-1] == ("self._iteration_is_cg", True)]
            ok_call = len(got_cg) == 1 and got_cg[0] in cgres and br.get(False) == x
            why = "residual under CG is `%s` (expected rhs - operator * x), otherwise `%s` (expected the callback argument)" % (got_cg, br.get(False))
    props = True
    for prop, slot in (("IterationCounter.count", "self._count"), ("IterationCounter.residuals", "self._residuals")):
        f = m.fn(prop)
        rs = [s for s in roles.stores(f.body, roles.Defs(f), lv=False) if s.op == "return"]
        props = props and len(rs) == 1 and rs[0].value == slot
    r_cg.check(ok_init and ok_call and props, "IterationCounter", IT, "IterationCounter.__call__", ic.lineno, "iteration counter bookkeeping",
               "constructor stores its arguments: %s; per-iteration bookkeeping: %s (%s); properties return the counters: %s" % (ok_init, ok_call, why, props))


def direct(ctx):
    dm = ctx.repo.mod(DS)
    r_lu = ctx.rule("LU-PATHS", "lu(): projections onto the dual space(s), dense weak form, solution returned in the domain space(s); compute_lu_factors factors the same matrix", 3)
    fn = dm.fn("lu")
    p = arg_names(fn)
    A, b = p[0], p[1]
    if "lu_factor" not in p:
        raise AnalysisError("lu: public parameter lu_factor missing")
    defs = roles.Defs(fn)
    S = roles.stores(fn.body, defs, lv=False)
    ln = fn.body[-1].end_lineno
    ex = lambda src, **kw: roles.expect(src, defs, ln, lv=False, A=A, B=b, **kw)
    blocked = ex("isinstance(A, BlockedOperatorBase)")
    have = {s.guards for s in S if s.op == "return"}
    if {g[0] for gs in have for g in gs[:1]} != {blocked}:
        raise AnalysisError("lu: blocked/single split on isinstance(A, BlockedOperatorBase) not found")
    for kind, flag in (("blocked", True), ("single", False)):
        vec = "projections_from_grid_functions_list(B, A.dual_to_range_spaces)" if kind == "blocked" else "B.projections(A.dual_to_range)"
        rets = [s for s in S if s.op == "return" and s.guards == ((blocked, flag),)]
        gv = None
        ok_ret = False
        gr = None
        if len(rets) == 1:
            v = rets[0].vnode
            # the solution variable: argument of the result constructor
            if kind == "single" and isinstance(v, ast.Call) and unparse(v.func) == "GridFunction" and len(v.args) == 1 and roles.canon(v.args[0], defs).replace(" ", "") == ex("A.domain"):
                sol = next((k.value for k in v.keywords if k.arg == "coefficients"), None)
            elif kind == "blocked" and isinstance(v, ast.Call) and unparse(v.func) == "grid_function_list_from_coefficients" and len(v.args) == 2 and roles.canon(v.args[1], defs).replace(" ", "") == ex("A.domain_spaces"):
                sol = v.args[0]
            else:
                sol = None
            gr = rets[0].value
            if isinstance(sol, ast.Name):
                # (the loader's canonical form spells the test positively: `if lu_factor is None: <solve> else: <lu_solve>`)
                sols = {s.guards[-1][1]: s for s in S if s.op == "=" and isinstance(s.tnode, ast.Name) and s.tnode.id == sol.id and len(s.guards) == 2 and s.guards[0] == (blocked, flag)
                        and s.guards[1][0] in (ex("lu_factor is None"),)}
                br, opts = {}, {}
                for pol, s in sols.items():
                    v_ = s.vnode
                    if isinstance(v_, ast.Call) and v_.keywords and all(k.arg in ("check_finite", "overwrite_a", "overwrite_b") and isinstance(k.value, ast.Constant) for k in v_.keywords):
                        # scipy options that do not change the solution of a well-posed call; the overwrite flags are judged below
                        opts[pol] = {k.arg: k.value.value for k in v_.keywords}
                        br[pol] = roles.canon(ast.copy_location(ast.Call(func=v_.func, args=v_.args, keywords=[]), v_), defs).replace(" ", "")
                    else:
                        br[pol] = s.value
                gv = br
                ok_ret = br.get(False) == ex("lu_solve(lu_factor, %s)" % vec) and br.get(True) == ex("solve(A.weak_form().to_dense(), %s)" % vec)
                for pol, o in opts.items():
                    if o.get("overwrite_a"):
                        ok_ret = False
                        gv = "%s with overwrite_a=True: the dense weak form held by the operator is destroyed by the first solve" % br
                    if o.get("overwrite_b") and kind == "single":
                        ok_ret = False
                        gv = "%s with overwrite_b=True: B.projections(...) may return the grid function's own projection array, which the solve then overwrites (a second solve with the same right-hand side, or with precomputed factors, solves another system)" % br
        r_lu.check(ok_ret, "lu %s solve/return" % kind, DS, "lu", rets[0].node.lineno if rets else fn.lineno, "lu %s returns %s" % (kind, gr),
                   "the %s path returns `%s` with the solution defined as %s; expected the result in A's domain space(s) from lu_solve(lu_factor, rhs) / solve(dense weak form, rhs) with rhs = %s" % (kind, gr, gv, vec))
    cf = dm.fn("compute_lu_factors")
    cd = roles.Defs(cf)
    rv = [s for s in roles.stores(cf.body, cd, lv=False) if s.op == "return"]
    am = ctx.repo.mod("bempp_cl/api/__init__.py")
    okm = len(rv) == 1 and rv[0].value == roles.expect("lu_factor(as_matrix(A.weak_form()))", cd, cf.body[-1].lineno, lv=False, A=arg_names(cf)[0])
    if am.has_fn("as_matrix"):
        f = am.fn("as_matrix")
        okm = okm and any(isinstance(n, ast.Call) and isinstance(n.func, ast.Attribute) and n.func.attr == "to_dense" for n in ast.walk(f))
    r_lu.check(okm, "compute_lu_factors", DS, "compute_lu_factors", cf.lineno, "compute_lu_factors returns " + (rv[0].value if rv else ""), "LU factors are not computed from the dense weak form that lu() solves with")


def run(ctx):
    m = ctx.repo.mod(IT)
    r_sys = ctx.rule("SOLVER-SYSTEM", "weak form => (A.weak_form(), projections onto A's dual space(s)); strong form => (A.strong_form(), coefficients), guarded by range/space compatibility on the single-operator paths", 12)
    r_call = ctx.rule("SOLVER-CALL", "scipy receives (A_op, b_vec), rtol=tol, maxiter (and restart) and the callback object whose results are returned", 3)
    r_res = ctx.rule("SOLVER-RESULT", "solutions are built from the solver's vector in A's domain space(s)", 3)
    r_ret = ctx.rule("SOLVER-RETURNS", "the four return shapes (with/without residuals and iteration count) agree across the iterative paths", 3)
    for fname, (kind, solver) in {"cg": ("single", "cg"), "_gmres_single_op_imp": ("single", "gmres"), "_gmres_block_op_imp": ("blocked", "gmres")}.items():
        iterative(ctx, m, fname, kind, solver, r_sys, r_call, r_res, r_ret)
    counter(ctx, m)
    direct(ctx)
    c14.packing(ctx)
    dtypes.dtype_folds(ctx)
    blocks.packing_offsets(ctx)
    argbind.solver_argument_binding(ctx)
    # the systems solved in strong form are A.strong_form(): its term (inverse mass matrix of (range, dual) times weak form) is C14's rule
    c14.homomorphism(ctx)
    from .. import gridfun as _gf
    from . import c10 as _c10

    _gf.representations(ctx)  # (tools/wiring.py) right-hand sides are read as projections / coefficients, solutions returned as coefficient vectors
    _c10.compat(ctx)
    _c10.compat_use(ctx)
    from .. import sparse as _sp15

    _sp15.mass_matrices(ctx)  # (tools/wiring.py) strong-form solves multiply by the inverse mass matrix of (range, dual) pairs
    from .. import state as _state

    _state.process_state(ctx)  # no result object keeps its per-call data in state shared between instances or calls
