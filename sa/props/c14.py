"""C14 — Operator, grid-function and potential algebra is coherent."""

import ast

from .. import proto, roles
from ..core import AnalysisError
from ..proto import NC, NCEval
from ..src import arg_names, calls_in, unparse

LEVEL = "other"
TECHNIQUE = "class-protocol lints: attribute resolution over the operator class families, non-commutative term normalisation for the homomorphism clauses, must-precede guard rules, definite-assignment analysis, count-domain typing of vector packing"
LEVEL_TEXT = (
    "Decides, for every combinator class of the four operator families, that the attributes it reads on itself and "
    "on its operands exist, that _matvec / to_dense / to_sparse / _assemble / evaluate denote one and the same "
    "linear map (sum = A+B, scaled = alpha A, product = A B in that order, boundary product = W(A) M^-1 W(B), "
    "real-on-complex = f(Re) + i f(Im)), that construction of a combined object is preceded by a compatibility test "
    "of the right operand pairs whose failure raises, that every documented factory option reaches its return "
    "without reading an unassigned local, and that vectors are cut with the dof counts of the right spaces."
)
LEVEL_NOTE = "Receivers whose class cannot be determined statically are skipped (no type checker is available in this sandbox).  Not decided: numerical agreement of expression trees; value-level (as opposed to space-level) ill-typed combinations."
EXPLANATION = "rules ATTR-RESOLVE, HOMOMORPHISM, COMPAT-GUARD, DEF-ASSIGN, PACKING"
ASSUMPTIONS = ["scipy LinearOperator supplies shape/dtype/matvec plumbing for the discrete operator classes", "operands stored in _op/_op1/_op2 are members of the same class family (they are only ever constructed that way)"]

BO = "bempp_cl/api/assembly/boundary_operator.py"
PO = "bempp_cl/api/assembly/potential_operator.py"
DO = "bempp_cl/api/assembly/discrete_boundary_operator.py"
BL = "bempp_cl/api/assembly/blocked_operator.py"
GF = "bempp_cl/api/assembly/grid_function.py"
SLOTS = {"_op", "_op1", "_op2", "op", "op1", "op2"}


def attr_rules(ctx):
    r = ctx.rule("ATTR-RESOLVE", "attributes read on self and on operand slots resolve in the class family (closed hierarchies only)", 3)
    n = 0
    n += proto.attribute_resolution(ctx, r, PO, "PotentialOperator", SLOTS)
    n += proto.attribute_resolution(ctx, r, BO, "BoundaryOperator", SLOTS)
    n += proto.attribute_resolution(ctx, r, BL, "BlockedOperatorBase", SLOTS)
    if n < 100:
        raise AnalysisError("attribute resolution examined only %d uses" % n)
    # embedded positive
    cls = ast.parse("class A(object):\n    def f(self):\n        return self._op.points\n    def g(self):\n        return 1").body[0]
    bad = [x for x in ast.walk(cls) if isinstance(x, ast.Attribute) and x.attr == "points"]
    r.must_fire(bool(bad) and "points" not in {"f", "g"}, "self._op.points on a family without `points`")


def _ret(fn):
    rets = [s for s in ast.walk(fn) if isinstance(s, ast.Return) and s.value is not None]
    if len(rets) != 1:
        raise AnalysisError("%s: expected a single return" % fn.name)
    return rets[0].value


def homomorphism(ctx):
    r = ctx.rule("HOMOMORPHISM", "combinator classes: every representation (matvec, dense, sparse, weak form, evaluate) is the same linear map of the parts, operands in order", 14)
    # discrete operators
    dm = ctx.repo.mod(DO)
    A, B, O, x = NC.op("A"), NC.op("B"), NC.op("O"), NC.op("x")
    al = NC.scalar("alpha")
    spec = {"_ScaledDiscreteOperator": al * O, "_SumDiscreteOperator": A + B, "_ProductDiscreteOperator": A * B}
    for cname, want in spec.items():
        for meth in ("_matvec", "to_dense", "to_sparse"):
            fn = dm.fn("%s.%s" % (cname, meth))
            leaves = {"self._op1": A, "self._op2": B, "self._op": O, "self._alpha": al, "x": x}
            ev = NCEval(leaves, morphisms=("to_dense", "to_sparse"))
            try:
                got = ev.ev(_ret(fn))
                ok = got == (want * x if meth == "_matvec" else want)
                msg = "%s.%s computes %r, the class denotes %r" % (cname, meth, got, want)
            except AnalysisError as e:
                ok, msg = False, str(e)
            r.check(ok, "%s.%s" % (cname, meth), DO, "%s.%s" % (cname, meth), fn.lineno, "%s.%s term" % (cname, meth), msg)
    # real operator on complex vectors: f(Re x) + 1j f(Im x)
    for cname, meth, leaf in (("GenericDiscreteBoundaryOperator", "_matvec", "self._evaluator.matvec"), ("DenseDiscreteBoundaryOperator", "_matmat", None), ("SparseDiscreteBoundaryOperator", "_matmat", None)):
        fn = dm.fn("%s.%s" % (cname, meth))
        arg = arg_names(fn)[1]
        re, im = NC.op("Re"), NC.op("Im")
        F = NC.op("F")
        full = re + NC.scalar("i") * im
        oks = []
        for ret in [s for s in ast.walk(fn) if isinstance(s, ast.Return)]:
            calls = {}
            leaves = {"_np.real(%s)" % arg: re, "_np.imag(%s)" % arg: im, arg: full, "real(%s)" % arg: re, "imag(%s)" % arg: im,
                      "self.to_dense()": F, "self.to_sparse()": F, "self._evaluator": F}
            ev = NCEval(leaves, morphisms=("matvec",))
            try:
                oks.append(ev.ev(ret.value) == F * full)
            except AnalysisError:
                oks.append(False)
        r.check(bool(oks) and all(oks), "%s.%s real-on-complex" % (cname, meth), DO, "%s.%s" % (cname, meth), fn.lineno, "%s.%s complex split" % (cname, meth),
                "some return path does not equal F (Re x + i Im x) as a linear map")
    # boundary operator combinators
    bm = ctx.repo.mod(BO)
    W = {"self._op1": NC.op("W1"), "self._op2": NC.op("W2"), "self._op": NC.op("W"), "self._alpha": al}
    bspec = {
        "_SumBoundaryOperator": NC.op("W1") + NC.op("W2"),
        "_ScaledBoundaryOperator": al * NC.op("W"),
        "_ProductBoundaryOperator": NC.op("W1") * NC.op("Minv2") * NC.op("W2"),
    }
    for cname, want in bspec.items():
        fn = bm.fn(cname + "._assemble")
        ev = NCEval(dict(W), morphisms=("weak_form",), calls={"self._op2.strong_form()": NC.op("Minv2") * NC.op("W2")})
        try:
            got = ev.ev(_ret(fn))
            ok, msg = got == want, "%s._assemble builds %r, expected %r" % (cname, got, want)
        except AnalysisError as e:
            ok, msg = False, str(e)
        r.check(ok, cname + "._assemble", BO, cname + "._assemble", fn.lineno, cname + " weak form term", msg)
    # strong form = M^-1(range, dual) * weak form
    fn = bm.fn("BoundaryOperator.strong_form")
    defs = roles.Defs(fn)
    got = roles.canon(_ret(fn), defs, commutative_mult=False).replace(" ", "")
    want_map = roles.expect("get_inverse_mass_matrix(self.range, self.dual_to_range)", defs, fn.body[-1].lineno, lv=False)
    okm = any(s.target == "self._range_map" and s.value == want_map for s in roles.stores(fn.body, defs, lv=False))
    r.check(got == "(self._range_map*self.weak_form())" and okm, "BoundaryOperator.strong_form", BO, "BoundaryOperator.strong_form", fn.lineno, "strong form " + got,
            "strong form is `%s` with range map from (range, dual_to_range): %s" % (got, okm))
    # spaces of the combinators
    for cname, exp in (("_SumBoundaryOperator", ["op1.domain", "op1.range", "op1.dual_to_range"]), ("_ScaledBoundaryOperator", ["op.domain", "op.range", "op.dual_to_range"]),
                       ("_ProductBoundaryOperator", ["op2.domain", "op1.range", "op1.dual_to_range"])):
        fn = bm.fn(cname + ".__init__")
        sup = [c for c in calls_in(fn) if unparse(c.func).endswith("__init__")]
        got = [unparse(a) for a in sup[0].args[:3]] if sup else None
        r.check(got == exp, cname + " spaces", BO, cname + ".__init__", fn.lineno, "%s spaces %s" % (cname, got), "combined operator is given (domain, range, dual) = %s, expected %s" % (got, exp))
    # operator applied to a grid function yields the projections of the image
    fn = bm.fn("BoundaryOperator.__mul__")
    gcalls = [c for c in calls_in(fn) if unparse(c.func) == "GridFunction"]
    mdefs = roles.Defs(fn)
    other = arg_names(fn)[1]
    okg = len(gcalls) == 1 and len(gcalls[0].args) == 1 and roles.canon(gcalls[0].args[0], mdefs) == "self.range" and {
        k.arg: roles.canon(k.value, mdefs, commutative_mult=False).replace(" ", "") for k in gcalls[0].keywords} == {
        "projections": "(self.weak_form()*%s.coefficients)" % other, "dual_space": "self.dual_to_range"}
    r.check(okg, "BoundaryOperator * GridFunction", BO, "BoundaryOperator.__mul__", fn.lineno, "operator times grid function",
            "A * f is not GridFunction(A.range, projections=A.weak_form() * f.coefficients, dual_space=A.dual_to_range)")
    # potential operators
    pm = ctx.repo.mod(PO)
    P = {"self._op1": NC.op("P1"), "self._op2": NC.op("P2"), "self._op": NC.op("P"), "self._alpha": al, "grid_fun": NC.op("g")}
    for cname, want in (("_SumPotentialOperator", (NC.op("P1") + NC.op("P2")) * NC.op("g")), ("_ScaledPotentialOperator", al * NC.op("P") * NC.op("g"))):
        fn = pm.fn(cname + ".evaluate")
        try:
            got = NCEval(P, morphisms=("evaluate",)).ev(_ret(fn))
            ok, msg = got == want, "%s.evaluate computes %r, expected %r" % (cname, got, want)
        except AnalysisError as e:
            ok, msg = False, str(e)
        r.check(ok, cname + ".evaluate", PO, cname + ".evaluate", fn.lineno, cname + " evaluate term", msg)
    fn = pm.fn("PotentialOperator.evaluate")
    r.check(roles.canon(_ret(fn), roles.Defs(fn)).replace(" ", "") == "self._evaluator.evaluate(%s.coefficients)" % arg_names(fn)[1], "PotentialOperator.evaluate", PO, "PotentialOperator.evaluate", fn.lineno,
            "potential evaluate " + unparse(_ret(fn)), "a potential operator is not evaluated on the coefficients of the grid function")


def guards(ctx):
    r = ctx.rule("COMPAT-GUARD", "combining operands is preceded by a compatibility test of the right pairs whose failure raises", 7)
    bm = ctx.repo.mod(BO)

    def check(rel, qn, sink, want, what):
        fn = ctx.repo.mod(rel).fn(qn)
        gs = proto.guard_before(fn, sink)
        pairs = set()
        for g in gs:
            pairs |= proto.compat_pairs(g.test)
        missing = [sorted(w) for w in want if frozenset(w) not in pairs]
        r.check(not missing, "%s (%s)" % (qn, what), rel, qn, fn.lineno, "%s guard missing %s" % (qn, missing), "no raising guard compares %s before %s" % (missing, what))

    is_super = lambda n: isinstance(n, ast.Call) and unparse(n.func).endswith("__init__")
    check(BO, "_SumBoundaryOperator.__init__", is_super, [("op1.domain", "op2.domain"), ("op1.range", "op2.range"), ("op1.dual_to_range", "op2.dual_to_range")], "constructing the sum")
    check(BO, "_ProductBoundaryOperator.__init__", is_super, [("op2.range", "op1.domain")], "constructing the product")
    # operator x grid function: guard inside the isinstance branch
    fn = bm.fn("BoundaryOperator.__mul__")
    okm = False
    for st in ast.walk(fn):
        if isinstance(st, ast.If) and "GridFunction" in unparse(st.test):
            inner = [s for s in st.body if isinstance(s, ast.If) and any(isinstance(x, ast.Raise) for x in s.body)]
            okm = any(frozenset(["self.domain", "other.space"]) in proto.compat_pairs(g.test) for g in inner) and isinstance(st.body[0], ast.If)
    r.check(okm, "BoundaryOperator.__mul__ (grid function)", BO, "BoundaryOperator.__mul__", fn.lineno, "operator x grid function guard", "no raising guard compares self.domain with the grid function's space first")
    is_ctor = lambda name: (lambda n: isinstance(n, ast.Call) and unparse(n.func) == name)
    check(PO, "PotentialOperator.__add__", is_ctor("_SumPotentialOperator"), [("self", "obj")], "constructing the sum")
    # grid functions
    gm = ctx.repo.mod(GF)
    for meth in ("__add__",):
        fn = gm.fn("GridFunction." + meth)
        gs = [s for s in ast.walk(fn) if isinstance(s, ast.If) and any(isinstance(x, ast.Raise) for x in s.body)]
        pairs = set()
        for g in gs:
            pairs |= proto.compat_pairs(g.test)
        r.check(frozenset(["self.space", "other.space"]) in pairs, "GridFunction." + meth, GF, "GridFunction." + meth, fn.lineno, "grid function sum guard", "no raising guard compares the two function spaces")
    # discrete sum / product shape guards
    dm = ctx.repo.mod(DO)
    for cname, pair in (("_SumDiscreteOperator", ("op1.shape", "op2.shape")), ("_ProductDiscreteOperator", ("op1.shape[1]", "op2.shape[0]"))):
        fn = dm.fn(cname + ".__init__")
        gs = proto.guard_before(fn, is_super)
        pairs = set()
        for g in gs:
            pairs |= proto.compat_pairs(g.test)
        r.check(frozenset(pair) in pairs, cname + ".__init__", DO, cname + ".__init__", fn.lineno, cname + " shape guard", "no raising guard compares %s with %s" % pair)


def def_assign(ctx):
    r = ctx.rule("DEF-ASSIGN", "operator factories: no local is read on a path (reachable with documented/default arguments) where it is unassigned", 1)
    n = 0
    found = False
    for rel in ctx.repo.py_files("bempp_cl/api/operators"):
        m = ctx.repo.mod(rel)
        modnames = set(m.aliases) | set(m.assigns) | set(m.functions) | set(m.classes)
        for qn, fn in m.functions.items():
            if "<" in qn:
                continue
            n += 1
            res = proto.maybe_unassigned(fn, modnames)
            if res:
                found = True
                names = sorted(x for x, _ in res)
                r.fail("%s::%s" % (rel.split("operators/")[-1], qn), rel, qn, res[0][1], "possibly unassigned locals %s" % names,
                       "locals %s are assigned only under `if target is not None` (or a similar optional-argument test) but read unconditionally afterwards" % names)
    if n < 40:
        raise AnalysisError("definite-assignment analysis saw only %d factory functions" % n)
    if not found:
        r.ok("%d factory functions" % n)
    src = ast.parse("def f(a, t=None):\n    if a == 'p':\n        x = 1\n    elif a == 'q':\n        if t is not None:\n            x = 2\n    return x").body[0]
    r.must_fire(bool(proto.maybe_unassigned(src, set())), "local assigned only under `if t is not None`")


def packing(ctx):
    r = ctx.rule("PACKING", "vectors are cut with the dof count of the space they are expressed in: projections by the dual space, coefficients by the space", 2)
    m = ctx.repo.mod(BL)
    n = 0
    for qn in ("grid_function_list_from_coefficients", "grid_function_list_from_projections"):
        fn = m.fn(qn)
        defs = roles.Defs(fn)
        for c in calls_in(fn):
            if unparse(c.func) != "GridFunction":
                continue
            kws = {k.arg: k.value for k in c.keywords}
            for kind in ("coefficients", "projections"):
                v = kws.get(kind)
                if v is None or not (isinstance(v, ast.Subscript) and isinstance(v.slice, ast.Slice) and v.slice.lower is not None and v.slice.upper is not None):
                    continue
                n += 1
                # length = upper - lower
                up, lo = v.slice.upper, v.slice.lower
                length = None
                if isinstance(up, ast.BinOp) and isinstance(up.op, ast.Add):
                    if unparse(up.left) == unparse(lo):
                        length = up.right
                    elif unparse(up.right) == unparse(lo):
                        length = up.left
                got = roles.canon(length, defs) if length is not None else "?"
                owner = roles.canon(kws["dual_space"], defs) if kind == "projections" and "dual_space" in kws else roles.canon(c.args[0], defs)
                want = owner + ".global_dof_count"
                r.check(got == want, "%s: %s slice" % (qn, kind), BL, qn, c.lineno, "%s slice length %s" % (kind, got), "%s vector is cut with `%s`, expected `%s`" % (kind, got, want))
    if n < 2:
        raise AnalysisError("packing rule found %d slicing sites" % n)


def run(ctx):
    attr_rules(ctx)
    homomorphism(ctx)
    guards(ctx)
    def_assign(ctx)
    packing(ctx)
