"""C14 — Operator, grid-function and potential algebra is coherent."""

import ast
import re as re_

from .. import aliasmut, blocks, dtypes, dunder_sub, gridfun, misc_guards, polarity, proto, roles
from ..core import AnalysisError
from ..proto import NC, NCEval
from ..src import arg_names, calls_in, unparse

LEVEL = "other"
TECHNIQUE = "class-protocol lints: attribute resolution over the operator class families, non-commutative term normalisation for the homomorphism clauses, must-precede guard rules, definite-assignment analysis, count-domain typing of vector packing; finite-domain abstract execution of every compatibility guard (polarity), of the block bookkeeping state machines and of the dtype flags; running-offset dataflow rules for packing"
LEVEL_TEXT = (
    "Decides, for every combinator class of the four operator families, that the attributes it reads on itself and "
    "on its operands exist, that _matvec / to_dense / to_sparse / _assemble / evaluate denote one and the same "
    "linear map (sum = A+B, scaled = alpha A, product = A B in that order, boundary product = W(A) M^-1 W(B), "
    "real-on-complex = f(Re) + i f(Im)), that construction of a combined object is preceded by a compatibility test "
    "of the right operand pairs whose failure raises, that every documented factory option reaches its return "
    "without reading an unassigned local, and that vectors are cut with the dof counts of the right spaces."
)
LEVEL_NOTE = "Receivers whose class cannot be determined statically are skipped (no type checker is available in this sandbox).  Not decided: numerical agreement of expression trees; value-level (as opposed to space-level) ill-typed combinations."
EXPLANATION = "rules ATTR-RESOLVE, HOMOMORPHISM (incl. blocked combinators and blocked strong form), COMPAT-GUARD, DEF-ASSIGN, PACKING, BLOCK-MATVEC, GF-ALGEBRA"
ASSUMPTIONS = ["scipy LinearOperator supplies shape/dtype/matvec plumbing for the discrete operator classes", "operands stored in _op/_op1/_op2 are members of the same class family (they are only ever constructed that way)"]

BO = "bempp_cl/api/assembly/boundary_operator.py"
PO = "bempp_cl/api/assembly/potential_operator.py"
DO = "bempp_cl/api/assembly/discrete_boundary_operator.py"
BL = "bempp_cl/api/assembly/blocked_operator.py"
GF = "bempp_cl/api/assembly/grid_function.py"
SLOTS = {"_op", "_op1", "_op2", "op", "op1", "op2"}


def attr_rules(ctx):
    r = ctx.rule("ATTR-RESOLVE", "attributes read on self and on operand slots resolve in the class family (closed hierarchies only)", 3)
    n = 0
    n += proto.attribute_resolution(ctx, r, PO, "PotentialOperator", SLOTS)
    n += proto.attribute_resolution(ctx, r, BO, "BoundaryOperator", SLOTS)
    n += proto.attribute_resolution(ctx, r, BL, "BlockedOperatorBase", SLOTS)
    if n < 100:
        raise AnalysisError("attribute resolution examined only %d uses" % n)
    # embedded positive
    cls = ast.parse("class A(object):\n    def f(self):\n        return self._op.points\n    def g(self):\n        return 1").body[0]
    bad = [x for x in ast.walk(cls) if isinstance(x, ast.Attribute) and x.attr == "points"]
    r.must_fire(bool(bad) and "points" not in {"f", "g"}, "self._op.points on a family without `points`")


def _ret(fn):
    rets = [s for s in ast.walk(fn) if isinstance(s, ast.Return) and s.value is not None]
    if len(rets) != 1:
        raise AnalysisError("%s: expected a single return" % fn.name)
    # locals that merely name a sub-expression are read through (`w = self._op1.weak_form(); return w + ...`)
    return roles.inline(rets[0].value, roles.Defs(fn))


def homomorphism(ctx):
    r = ctx.rule("HOMOMORPHISM", "combinator classes: every representation (matvec, dense, sparse, weak form, evaluate) is the same linear map of the parts, operands in order", 14)
    # discrete operators
    dm = ctx.repo.mod(DO)
    A, B, O, x = NC.op("A"), NC.op("B"), NC.op("O"), NC.op("x")
    al = NC.scalar("alpha")
    spec = {"_ScaledDiscreteOperator": al * O, "_SumDiscreteOperator": A + B, "_ProductDiscreteOperator": A * B}
    for cname, want in spec.items():
        for meth in ("_matvec", "to_dense", "to_sparse"):
            fn = dm.fn("%s.%s" % (cname, meth))
            leaves = {"self._op1": A, "self._op2": B, "self._op": O, "self._alpha": al, "x": x}
            ev = NCEval(leaves, morphisms=("to_dense", "to_sparse"))
            try:
                got = ev.ev(_ret(fn))
                ok = got == (want * x if meth == "_matvec" else want)
                msg = "%s.%s computes %r, the class denotes %r" % (cname, meth, got, want)
            except AnalysisError:
                raise  # an expression the term algebra cannot read: cannot analyse, not a verdict
            r.check(ok, "%s.%s" % (cname, meth), DO, "%s.%s" % (cname, meth), fn.lineno, "%s.%s term" % (cname, meth), msg)
    # real operator on complex vectors: f(Re x) + 1j f(Im x)
    for cname, meth, leaf in (("GenericDiscreteBoundaryOperator", "_matvec", "self._evaluator.matvec"), ("DenseDiscreteBoundaryOperator", "_matmat", None), ("SparseDiscreteBoundaryOperator", "_matmat", None)):
        fn = dm.fn("%s.%s" % (cname, meth))
        arg = arg_names(fn)[1]
        re, im = NC.op("Re"), NC.op("Im")
        F = NC.op("F")
        full = re + NC.scalar("i") * im
        oks = []
        for ret in [s for s in ast.walk(fn) if isinstance(s, ast.Return)]:
            calls = {}
            leaves = {"_np.real(%s)" % arg: re, "_np.imag(%s)" % arg: im, arg: full, "real(%s)" % arg: re, "imag(%s)" % arg: im,
                      "self.to_dense()": F, "self.to_sparse()": F, "self._evaluator": F}
            ev = NCEval(leaves, morphisms=("matvec",))
            oks.append(ev.ev(ret.value) == F * full)  # (an expression the algebra cannot read: cannot analyse, not a verdict)
        r.check(bool(oks) and all(oks), "%s.%s real-on-complex" % (cname, meth), DO, "%s.%s" % (cname, meth), fn.lineno, "%s.%s complex split" % (cname, meth),
                "some return path does not equal F (Re x + i Im x) as a linear map")
    # boundary operator combinators
    bm = ctx.repo.mod(BO)
    W = {"self._op1": NC.op("W1"), "self._op2": NC.op("W2"), "self._op": NC.op("W"), "self._alpha": al}
    bspec = {
        "_SumBoundaryOperator": NC.op("W1") + NC.op("W2"),
        "_ScaledBoundaryOperator": al * NC.op("W"),
        "_ProductBoundaryOperator": NC.op("W1") * NC.op("Minv2") * NC.op("W2"),
    }
    for cname, want in bspec.items():
        fn = bm.fn(cname + "._assemble")
        ev = NCEval(dict(W), morphisms=("weak_form",), calls={"self._op2.strong_form()": NC.op("Minv2") * NC.op("W2"), "self._op1.strong_form()": NC.op("Minv1") * NC.op("W1")})
        try:
            got = ev.ev(_ret(fn))
            ok, msg = got == want, "%s._assemble builds %r, expected %r" % (cname, got, want)
        except AnalysisError:
            raise  # an expression the term algebra cannot read: cannot analyse, not a verdict
        r.check(ok, cname + "._assemble", BO, cname + "._assemble", fn.lineno, cname + " weak form term", msg)
    # blocked combinators: same terms, and the block spaces are taken from the operand that provides them
    blm = ctx.repo.mod(BL)
    blspec = {
        "SumBlockedOperator": (NC.op("W1") + NC.op("W2"), {"range_spaces": "self._op1", "dual_to_range_spaces": "self._op1", "domain_spaces": "self._op1"}),
        "ScaledBlockedOperator": (al * NC.op("W"), {"range_spaces": "self._op", "dual_to_range_spaces": "self._op", "domain_spaces": "self._op"}),
        "ProductBlockedOperator": (NC.op("W1") * NC.op("Minv2") * NC.op("W2"), {"range_spaces": "self._op1", "dual_to_range_spaces": "self._op1", "domain_spaces": "self._op2"}),
    }
    for cname, (want, spaces) in blspec.items():
        fn = blm.fn(cname + "._assemble")
        ev = NCEval(dict(W), morphisms=("weak_form",), calls={"self._op2.strong_form()": NC.op("Minv2") * NC.op("W2"), "self._op1.strong_form()": NC.op("Minv1") * NC.op("W1")})
        try:
            got = ev.ev(_ret(fn))
            ok, msg = got == want, "%s._assemble builds %r, expected %r" % (cname, got, want)
        except AnalysisError:
            raise  # an expression the term algebra cannot read: cannot analyse, not a verdict
        r.check(ok, cname + "._assemble", BL, cname + "._assemble", fn.lineno, cname + " weak form term", msg)
        bad = []
        for prop, src in spaces.items():
            pf = blm.fn("%s.%s" % (cname, prop))
            got_s = roles.canon(_ret(pf), roles.Defs(pf)).replace(" ", "")
            if got_s not in ("tuple(%s.%s)" % (src, prop), "%s.%s" % (src, prop)):
                bad.append("%s = %s (expected %s.%s)" % (prop, got_s, src, prop))
        r.check(not bad, cname + " spaces", BL, cname, blm.fn(cname + ".range_spaces").lineno, "%s block spaces %s" % (cname, bad), "; ".join(bad))
    # blocked strong form: diag(M^-1(range_i, dual_i)) * weak form
    fn = blm.fn("BlockedOperatorBase.strong_form")
    bdefs = roles.Defs(fn)
    Sb = roles.stores(fn.body, bdefs, lv=True)
    rets = [s for s in Sb if s.op == "return"]
    diag = [s for s in Sb if s.op == "=" and isinstance(s.tnode, ast.Subscript) and len(s.loops) == 1]
    okb, whyb = False, "structure not recognised"
    if len(rets) == 1 and len(diag) == 1 and isinstance(diag[0].loops[0].target, ast.Name):
        K_ = diag[0].loops[0].target.id
        ln = diag[0].node.lineno
        arr = unparse(diag[0].tnode.value)
        full = roles.canon(diag[0].loops[0].iter, bdefs).replace(" ", "") == "range(len(self.range_spaces))"
        tgt_ok = diag[0].target == roles.expect("A[K, K]", bdefs, ln, A=arr, K=K_)
        val_ok = diag[0].value == roles.expect("get_inverse_mass_matrix(self.range_spaces[K], self.dual_to_range_spaces[K])", bdefs, ln, K=K_)
        pub = [s for s in Sb if s.target == "self._range_map"]
        pub_ok = len(pub) == 1 and isinstance(pub[0].vnode, ast.Call) and unparse(pub[0].vnode.func) == "BlockedDiscreteOperator" and len(pub[0].vnode.args) == 1 and unparse(pub[0].vnode.args[0]) == arr
        ret_ok = roles.canon(rets[0].vnode, bdefs, commutative_mult=False).replace(" ", "") == "(self._range_map*self.weak_form())"
        okb = full and tgt_ok and val_ok and pub_ok and ret_ok
        whyb = "diagonal over all rows: %s; block (k,k): %s; value M^-1(range_k, dual_k): %s; published as BlockedDiscreteOperator: %s; returns range_map * weak_form: %s" % (full, tgt_ok, val_ok, pub_ok, ret_ok)
    r.check(okb, "BlockedOperatorBase.strong_form", BL, "BlockedOperatorBase.strong_form", fn.lineno, "blocked strong form", whyb)
    # strong form = M^-1(range, dual) * weak form
    fn = bm.fn("BoundaryOperator.strong_form")
    defs = roles.Defs(fn)
    got = roles.canon(_ret(fn), defs, commutative_mult=False).replace(" ", "")
    want_map = roles.expect("get_inverse_mass_matrix(self.range, self.dual_to_range)", defs, fn.body[-1].lineno, lv=False)
    okm = any(s.target == "self._range_map" and s.value == want_map for s in roles.stores(fn.body, defs, lv=False))
    r.check(got == "(self._range_map*self.weak_form())" and okm, "BoundaryOperator.strong_form", BO, "BoundaryOperator.strong_form", fn.lineno, "strong form " + got,
            "strong form is `%s` with range map from (range, dual_to_range): %s" % (got, okm))
    # spaces of the combinators
    for cname, exp in (("_SumBoundaryOperator", ["op1.domain", "op1.range", "op1.dual_to_range"]), ("_ScaledBoundaryOperator", ["op.domain", "op.range", "op.dual_to_range"]),
                       ("_ProductBoundaryOperator", ["op2.domain", "op1.range", "op1.dual_to_range"])):
        fn = bm.fn(cname + ".__init__")
        sup = [c for c in calls_in(fn) if unparse(c.func).endswith("__init__")]
        got = [unparse(a) for a in sup[0].args[:3]] if sup else None
        r.check(got == exp, cname + " spaces", BO, cname + ".__init__", fn.lineno, "%s spaces %s" % (cname, got), "combined operator is given (domain, range, dual) = %s, expected %s" % (got, exp))
    # operator applied to a grid function yields the projections of the image
    fn = bm.fn("BoundaryOperator.__mul__")
    gcalls = [c for c in calls_in(fn) if unparse(c.func) == "GridFunction"]
    mdefs = roles.Defs(fn)
    other = arg_names(fn)[1]
    okg = len(gcalls) == 1 and len(gcalls[0].args) == 1 and roles.canon(gcalls[0].args[0], mdefs) == "self.range" and {
        k.arg: roles.canon(k.value, mdefs, commutative_mult=False).replace(" ", "") for k in gcalls[0].keywords} == {
        "projections": "(self.weak_form()*%s.coefficients)" % other, "dual_space": "self.dual_to_range"}
    r.check(okg, "BoundaryOperator * GridFunction", BO, "BoundaryOperator.__mul__", fn.lineno, "operator times grid function",
            "A * f is not GridFunction(A.range, projections=A.weak_form() * f.coefficients, dual_space=A.dual_to_range)")
    # potential operators
    pm = ctx.repo.mod(PO)
    P = {"self._op1": NC.op("P1"), "self._op2": NC.op("P2"), "self._op": NC.op("P"), "self._alpha": al, "grid_fun": NC.op("g")}
    for cname, want in (("_SumPotentialOperator", (NC.op("P1") + NC.op("P2")) * NC.op("g")), ("_ScaledPotentialOperator", al * NC.op("P") * NC.op("g"))):
        fn = pm.fn(cname + ".evaluate")
        try:
            got = NCEval(P, morphisms=("evaluate",)).ev(_ret(fn))
            ok, msg = got == want, "%s.evaluate computes %r, expected %r" % (cname, got, want)
        except AnalysisError:
            raise  # an expression the term algebra cannot read: cannot analyse, not a verdict
        r.check(ok, cname + ".evaluate", PO, cname + ".evaluate", fn.lineno, cname + " evaluate term", msg)
    fn = pm.fn("PotentialOperator.evaluate")
    r.check(roles.canon(_ret(fn), roles.Defs(fn)).replace(" ", "") == "self._evaluator.evaluate(%s.coefficients)" % arg_names(fn)[1], "PotentialOperator.evaluate", PO, "PotentialOperator.evaluate", fn.lineno,
            "potential evaluate " + unparse(_ret(fn)), "a potential operator is not evaluated on the coefficients of the grid function")


def guards(ctx):
    r = ctx.rule("COMPAT-GUARD", "combining operands is preceded by a compatibility test of the right pairs whose failure raises", 7)
    bm = ctx.repo.mod(BO)

    def check(rel, qn, sink, want, what):
        fn = ctx.repo.mod(rel).fn(qn)
        gs = proto.guard_before(fn, sink)
        pairs = set()
        for g in gs:
            pairs |= proto.compat_pairs(g.test)
        missing = [sorted(w) for w in want if frozenset(w) not in pairs]
        r.check(not missing, "%s (%s)" % (qn, what), rel, qn, fn.lineno, "%s guard missing %s" % (qn, missing), "no raising guard compares %s before %s" % (missing, what))

    is_super = lambda n: isinstance(n, ast.Call) and unparse(n.func).endswith("__init__")
    check(BO, "_SumBoundaryOperator.__init__", is_super, [("op1.domain", "op2.domain"), ("op1.range", "op2.range"), ("op1.dual_to_range", "op2.dual_to_range")], "constructing the sum")
    check(BO, "_ProductBoundaryOperator.__init__", is_super, [("op2.range", "op1.domain")], "constructing the product")
    check(BL, "SumBlockedOperator.__init__", is_super, [("op1.domain_spaces", "op2.domain_spaces"), ("op1.range_spaces", "op2.range_spaces"), ("op1.dual_to_range_spaces", "op2.dual_to_range_spaces")], "constructing the blocked sum")
    check(BL, "ProductBlockedOperator.__init__", is_super, [("op2.range_spaces", "op1.domain_spaces")], "constructing the blocked product")
    # operator x grid function: guard inside the isinstance branch
    fn = bm.fn("BoundaryOperator.__mul__")
    okm = False
    for st in ast.walk(fn):
        if isinstance(st, ast.If) and "GridFunction" in unparse(st.test):
            inner = [s for s in st.body if isinstance(s, ast.If) and any(isinstance(x, ast.Raise) for x in s.body)]
            okm = any(frozenset(["self.domain", "other.space"]) in proto.compat_pairs(g.test) for g in inner) and isinstance(st.body[0], ast.If)
    r.check(okm, "BoundaryOperator.__mul__ (grid function)", BO, "BoundaryOperator.__mul__", fn.lineno, "operator x grid function guard", "no raising guard compares self.domain with the grid function's space first")
    is_ctor = lambda name: (lambda n: isinstance(n, ast.Call) and unparse(n.func) == name)
    check(PO, "PotentialOperator.__add__", is_ctor("_SumPotentialOperator"), [("self", "obj")], "constructing the sum")
    # grid functions
    gm = ctx.repo.mod(GF)
    for meth in ("__add__",):
        fn = gm.fn("GridFunction." + meth)
        gs = [s for s in ast.walk(fn) if isinstance(s, ast.If) and any(isinstance(x, ast.Raise) for x in s.body)]
        pairs = set()
        for g in gs:
            pairs |= proto.compat_pairs(g.test)
        r.check(frozenset(["self.space", "other.space"]) in pairs, "GridFunction." + meth, GF, "GridFunction." + meth, fn.lineno, "grid function sum guard", "no raising guard compares the two function spaces")
    # discrete sum / product shape guards
    dm = ctx.repo.mod(DO)
    for cname, pair in (("_SumDiscreteOperator", ("op1.shape", "op2.shape")), ("_ProductDiscreteOperator", ("op1.shape[1]", "op2.shape[0]"))):
        fn = dm.fn(cname + ".__init__")
        gs = proto.guard_before(fn, is_super)
        pairs = set()
        for g in gs:
            pairs |= proto.compat_pairs(g.test)
        r.check(frozenset(pair) in pairs, cname + ".__init__", DO, cname + ".__init__", fn.lineno, cname + " shape guard", "no raising guard compares %s with %s" % pair)


def def_assign(ctx):
    r = ctx.rule("DEF-ASSIGN", "operator factories: no local is read on a path (reachable with documented/default arguments) where it is unassigned", 1)
    n = 0
    found = False
    for rel in ctx.repo.py_files("bempp_cl/api/operators"):
        m = ctx.repo.mod(rel)
        modnames = set(m.aliases) | set(m.assigns) | set(m.functions) | set(m.classes)
        for qn, fn in m.functions.items():
            if "<" in qn:
                continue
            n += 1
            res = proto.maybe_unassigned(fn, modnames)
            if res:
                found = True
                names = sorted(x for x, _ in res)
                r.fail("%s::%s" % (rel.split("operators/")[-1], qn), rel, qn, res[0][1], "possibly unassigned locals %s" % names,
                       "locals %s are assigned only under `if target is not None` (or a similar optional-argument test) but read unconditionally afterwards" % names)
    if n < 40:
        raise AnalysisError("definite-assignment analysis saw only %d factory functions" % n)
    if not found:
        r.ok("%d factory functions" % n)
    src = ast.parse("def f(a, t=None):\n    if a == 'p':\n        x = 1\n    elif a == 'q':\n        if t is not None:\n            x = 2\n    return x").body[0]
    r.must_fire(bool(proto.maybe_unassigned(src, set())), "local assigned only under `if t is not None`")


def packing(ctx):
    r = ctx.rule("PACKING", "vectors are cut with the dof count of the space they are expressed in: projections by the dual space, coefficients by the space", 2)
    m = ctx.repo.mod(BL)
    n = 0
    for qn in ("grid_function_list_from_coefficients", "grid_function_list_from_projections"):
        fn = m.fn(qn)
        defs = roles.Defs(fn)
        for c in calls_in(fn):
            if unparse(c.func) != "GridFunction":
                continue
            kws = {k.arg: k.value for k in c.keywords}
            for kind in ("coefficients", "projections"):
                v = kws.get(kind)
                if v is None or not (isinstance(v, ast.Subscript) and isinstance(v.slice, ast.Slice) and v.slice.lower is not None and v.slice.upper is not None):
                    continue
                n += 1
                # length = upper - lower
                up, lo = v.slice.upper, v.slice.lower
                length = None
                if isinstance(up, ast.BinOp) and isinstance(up.op, ast.Add):
                    if unparse(up.left) == unparse(lo):
                        length = up.right
                    elif unparse(up.right) == unparse(lo):
                        length = up.left
                got = roles.canon(length, defs) if length is not None else "?"
                owner = roles.canon(kws["dual_space"], defs) if kind == "projections" and "dual_space" in kws else roles.canon(c.args[0], defs)
                want = owner + ".global_dof_count"
                r.check(got == want, "%s: %s slice" % (qn, kind), BL, qn, c.lineno, "%s slice length %s" % (kind, got), "%s vector is cut with `%s`, expected `%s`" % (kind, got, want))
    if n < 2:
        raise AnalysisError("packing rule found %d slicing sites" % n)


def block_matvec(ctx):
    """BlockedDiscreteOperator._matvec/_matmat: res[rows of block row i] += op[i, j] . x[columns of block column j]."""
    r = ctx.rule("BLOCK-MATVEC", "blocked discrete operator: block (i, j) acts on the j-th column slice of x and accumulates into the i-th row slice of the result; offsets are running sums of the block sizes", 2)
    m = ctx.repo.mod(BL)
    for meth in ("_matvec", "_matmat"):
        fn = m.fn("BlockedDiscreteOperator." + meth)
        defs = roles.Defs(fn)
        X = arg_names(fn)[1]
        S = roles.stores(fn.body, defs, lv=False)
        rets = [s for s in S if s.op == "return" and isinstance(s.vnode, ast.Name) and not s.guards]
        ok, why = False, "does not return one local result array"
        two = meth == "_matmat"
        if len(rets) == 1:
            R = rets[0].vnode.id
            acc = [s for s in S if s.op == "Add=" and len(s.loops) == 2]
            cnt = {}
            for s in S:
                if s.op == "Add=" and isinstance(s.tnode, ast.Name) and not s.guards:
                    cnt.setdefault(len(s.loops), []).append(s)
            why = "loop nest / running offsets not recognised"
            accs = [s for s in acc if not isinstance(s.tnode, ast.Name) or s.tnode.id not in [c.target for cs in cnt.values() for c in cs if isinstance(c.vnode, ast.Subscript)]]
            loops2 = {s.loops for s in acc}
            if len(loops2) == 1:
                lI, lJ = next(iter(loops2))
                if isinstance(lI.target, ast.Name) and isinstance(lJ.target, ast.Name) and roles.canon(lI.iter, defs) == "range(self._ndims[0])" and roles.canon(lJ.iter, defs) == "range(self._ndims[1])":
                    I, J = lI.target.id, lJ.target.id
                    ex = lambda src, line, **kw: roles.expect(src, defs, line, lv=False, I=I, J=J, X=X, R=R, **kw)
                    rd = [s for s in S if s.op == "Add=" and isinstance(s.tnode, ast.Name) and s.loops == (lI,) and not s.guards and s.value == ex("self._rows[I]", s.node.lineno)]
                    cd = [s for s in S if s.op == "Add=" and isinstance(s.tnode, ast.Name) and s.loops == (lI, lJ) and not s.guards and s.value == ex("self._cols[J]", s.node.lineno)]
                    if len(rd) == 1 and len(cd) == 1:
                        RD, CD = rd[0].target, cd[0].target
                        rd0 = any(isinstance(st, ast.Assign) and unparse(st.targets[0]) == RD and isinstance(st.value, ast.Constant) and st.value.value == 0 and st.lineno < lI.lineno for st in fn.body)
                        cd0 = [s for s in S if s.op == "=" and s.target == CD and s.value == "0" and s.loops == (lI,) and s.node.lineno < lJ.lineno]
                        views = [s for s in S if s.op == "=" and isinstance(s.tnode, ast.Name) and s.loops == (lI,) and s.value == ex("R[RD:RD + self._rows[I], :]" if two else "R[RD:RD + self._rows[I]]", s.node.lineno, RD=RD)]
                        xs = [s for s in S if s.op == "=" and isinstance(s.tnode, ast.Name) and s.loops == (lI, lJ) and s.value == ex("X[CD:CD + self._cols[J], :]" if two else "X[CD:CD + self._cols[J]]", s.node.lineno, CD=CD)]
                        why = "row offset starts at 0: %s; column offset reset per block row: %s; row view: %d; column slice: %d" % (rd0, bool(cd0), len(views), len(xs))
                        if rd0 and len(cd0) == 1 and len(views) == 1 and len(xs) == 1:
                            LV, LX = views[0].target, xs[0].target
                            sums = [s for s in S if s.op == "Add=" and s.loops == (lI, lJ) and (unparse(s.tnode) == LV or unparse(s.tnode) == LV + "[:]")]
                            re, im, F = NC.op("Re"), NC.op("Im"), NC.op("F")
                            full = re + NC.scalar("i") * im
                            leaves = {LX: full, "_np.real(%s)" % LX: re, "_np.imag(%s)" % LX: im, "self._operators[%s, %s]" % (I, J): F}
                            good = bool(sums)
                            for s_ in sums:
                                good = good and NCEval(leaves, morphisms=("dot",)).ev(s_.vnode) == F * full  # (unreadable: cannot analyse)
                            order = bool(sums) and all(s_.node.lineno < cd[0].node.lineno for s_ in sums) and xs[0].node.lineno < min(s_.node.lineno for s_ in sums) and rd[0].node.lineno > lJ.lineno
                            # every write to the row view inside the block loop accumulates, and some accumulation happens on every path
                            writes = [s for s in S if s.loops == (lI, lJ) and (unparse(s.tnode) == LV or unparse(s.tnode) == LV + "[:]")]
                            only_acc = all(s.op == "Add=" for s in writes)
                            gset = {s.guards for s in sums}
                            covered = () in gset or any(((t, True),) in gset and ((t, False),) in gset for g in gset for (t, _) in g[:1])
                            ok = good and order and only_acc and covered
                            why = "every accumulation is op[i,j] applied to the column slice (complex split included): %s; offsets advance after use: %s; the row slice is only ever accumulated into: %s; a contribution is added on every path: %s" % (good, order, only_acc, covered)
        r.check(ok, "BlockedDiscreteOperator." + meth, BL, "BlockedDiscreteOperator." + meth, fn.lineno, "blocked %s" % meth, why)


def gf_algebra(ctx):
    """GridFunction arithmetic: every result is built in self.space from the same linear combination of the
    operands' coefficient (or projection) vectors."""
    r = ctx.rule("GF-ALGEBRA", "grid function +, scalar *, unary -, -, / build GridFunction(self.space, <same linear combination of the coefficient or projection vectors>), projections only together with self.dual_space", 6)
    m = ctx.repo.mod(GF)
    c1, c2, p1, p2 = NC.op("c1"), NC.op("c2"), NC.op("p1"), NC.op("p2")

    def results(fn, other):
        """[(guards, kind, NC term, keyword dict)] for every GridFunction(...) returned by fn."""
        d = roles.Defs(fn)
        out = []
        for s in roles.stores(fn.body, d, lv=False):
            if s.op != "return":
                continue
            v = s.vnode
            if isinstance(v, ast.Call) and unparse(v.func) == "GridFunction":
                kws = {k.arg: k.value for k in v.keywords}
                leaves = {"self.coefficients": c1, "self._projections": p1, "self.projections()": p1, "self._coefficients": c1}
                if other:
                    leaves.update({other + ".coefficients": c2, other + ".projections()": p2, other: NC.scalar("alpha")})
                kind = "coefficients" if "coefficients" in kws else "projections" if "projections" in kws else None
                try:
                    term = NCEval(leaves).ev(kws[kind]) if kind else None
                except AnalysisError:
                    term = None
                space = unparse(v.args[0]) if v.args else None
                out.append((s.guards, kind, term, space, unparse(kws["dual_space"]) if "dual_space" in kws else None))
            else:
                out.append((s.guards, "expr", unparse(v) if v is not None else None, None, None))
        return out

    # __add__
    fn = m.fn("GridFunction.__add__")
    o = arg_names(fn)[1]
    res = results(fn, o)
    ok = len(res) == 2
    whys = []
    for g, kind, term, space, dual in res:
        if kind == "projections":
            cond = {t.replace(" ", "") for t, b in g if b}
            need = {"(self.dual_spaceEq%s.dual_space)" % o, "(%s.dual_spaceEqself.dual_space)" % o}
            good = term == p1 + p2 and space == "self.space" and dual == "self.dual_space" and bool(cond & need) and any("representation" in t for t in cond)
        elif kind == "coefficients":
            good = term == c1 + c2 and space == "self.space"
        else:
            good = False
        ok = ok and good
        whys.append("%s: %r in %s (dual %s) under %d guard(s): %s" % (kind, term, space, dual, len(g), good))
    r.check(ok, "GridFunction.__add__", GF, fn.name, fn.lineno, "grid function sum", "; ".join(whys))
    # __mul__
    fn = m.fn("GridFunction.__mul__")
    a = arg_names(fn)[1]
    res = [x for x in results(fn, a) if x[1] in ("projections", "coefficients")]
    al = NC.scalar("alpha")
    ok = len(res) == 2 and {x[1] for x in res} == {"projections", "coefficients"}
    for g, kind, term, space, dual in res:
        rep_dual = any("representation" in t and "'dual'" in t and b for t, b in g)
        if kind == "projections":
            ok = ok and term == al * p1 and space == "self.space" and dual == "self.dual_space" and rep_dual
        else:
            ok = ok and term == al * c1 and space == "self.space" and not rep_dual
    r.check(ok, "GridFunction.__mul__", GF, fn.name, fn.lineno, "grid function scaling", "scalar multiple is not alpha * (projections with self.dual_space | coefficients) in self.space: %s" % [(x[1], repr(x[2]), x[3], x[4]) for x in res])
    # derived operations
    def single_return(name):
        f = m.fn("GridFunction." + name)
        rs = [s for s in roles.stores(f.body, roles.Defs(f), lv=False) if s.op == "return" and not (isinstance(s.vnode, ast.Name) and s.vnode.id == "NotImplemented")]
        return f, rs
    f, rs = single_return("__neg__")
    r.check(len(rs) == 1 and rs[0].value.replace(" ", "") in ("self.__mul__(USub(1.0))", "self.__mul__(USub(1))", "(USub(1.0)*self)", "(self*USub(1.0))"), "GridFunction.__neg__", GF, f.name, f.lineno, "grid function negation", "negation is `%s`" % (rs[0].value if rs else None))
    f, rs = single_return("__sub__")
    o = arg_names(f)[1]
    r.check(len(rs) == 1 and rs[0].value.replace(" ", "") in ("(USub(%s)+self)" % o, "(self+USub(%s))" % o), "GridFunction.__sub__", GF, f.name, f.lineno, "grid function difference", "difference is `%s`" % (rs[0].value if rs else None))
    f, rs = single_return("__rmul__")
    a = arg_names(f)[1]
    r.check(len(rs) == 1 and rs[0].value.replace(" ", "") in ("(%s*self)" % a, "(self*%s)" % a), "GridFunction.__rmul__", GF, f.name, f.lineno, "grid function right scaling", "alpha * f is `%s`" % (rs[0].value if rs else None))
    f, rs = single_return("__div__")
    a = arg_names(f)[1]
    f2, rs2 = single_return("__truediv__")
    okd = len(rs) == 1 and roles.canon(rs[0].vnode, roles.Defs(f), commutative_mult=False).replace(" ", "") in ("(self*(1.0/%s))" % a, "(self*(1/%s))" % a) and len(rs2) == 1 and rs2[0].value.replace(" ", "") == "self.__div__(%s)" % arg_names(f2)[1]
    r.check(okd, "GridFunction.__truediv__", GF, f2.name, f2.lineno, "grid function division", "f / alpha is `%s` via `%s`" % (rs[0].value if rs else None, rs2[0].value if rs2 else None))


def run(ctx):
    attr_rules(ctx)
    homomorphism(ctx)
    guards(ctx)
    polarity.guard_polarity(ctx)
    misc_guards.compat_definition(ctx)
    def_assign(ctx)
    packing(ctx)
    dtypes.dtype_folds(ctx)
    block_matvec(ctx)
    gf_algebra(ctx)
    gridfun.representations(ctx)
    space_hash(ctx)
    combinator_shapes(ctx)
    dunder_algebra(ctx)
    dunder_sub.zero_operator(ctx)
    dunder_sub.subclass_dunders(ctx)
    dunder_sub.transpose_adjoint(ctx)
    dunder_sub.subclass_products(ctx)
    dunder_sub.real_on_complex(ctx)
    aliasmut.alias_mutation(ctx)  # an operand is a value: a sum / product must not modify the array its operand holds
    dunder_sub.blocked_to_dense(ctx)
    blocks.block_bookkeeping(ctx)
    blocks.packing_offsets(ctx)
    blocks.generalized(ctx)
    from . import c10 as _c10

    _c10.compat(ctx)
    _c10.compat_use(ctx)  # (tools/wiring.py) grid-function and operator algebra compare spaces through their compatible representations
    from .. import sparse as _sp14, gridfun as _gf14

    _sp14.mass_matrices(ctx)  # (tools/wiring.py) strong forms and grid-function algebra go through the mass-matrix helpers and the norm
    _gf14.l2_norm_rule(ctx)
    from .. import state as _state

    _state.process_state(ctx)  # no result object keeps its per-call data in state shared between instances or calls


def combinator_shapes(ctx):
    """Discrete combinators announce the shape and dtype of the map they denote, and keep their operands in the slots
    the term rules read."""
    r = ctx.rule("COMBINATOR-SHAPE", "discrete sum / product / scaled operators: shape and dtype of the denoted map (product: rows of the left, columns of the right factor; dtype = result type of the parts); operands stored in the slots _matvec reads", 3)
    dm = ctx.repo.mod(DO)
    spec = {
        "_ScaledDiscreteOperator": (("op", "alpha"), "_np.result_type(%(a)s.dtype,type(%(b)s))", "%(a)s.shape", {"self._op": 0, "self._alpha": 1}),
        "_SumDiscreteOperator": (("op1", "op2"), "_np.result_type(%(a)s.dtype,%(b)s.dtype)", "%(a)s.shape", {"self._op1": 0, "self._op2": 1}),
        "_ProductDiscreteOperator": (("op1", "op2"), "_np.result_type(%(a)s.dtype,%(b)s.dtype)", "(%(a)s.shape[0],%(b)s.shape[1])", {"self._op1": 0, "self._op2": 1}),
    }
    for cname, (_, dt, shp, slots) in spec.items():
        fn = dm.fn(cname + ".__init__")
        defs = roles.Defs(fn)
        pa = arg_names(fn)[1:]
        sup = [c for c in ast.walk(fn) if isinstance(c, ast.Call) and unparse(c.func).endswith("__init__") and len(c.args) == 2]
        sub = {"a": pa[0], "b": pa[1]}
        alt_dt = {dt % sub, (dt % {"a": pa[1], "b": pa[0]}) if "type(" not in dt else dt % sub}
        St = {s.target: s.value for s in roles.stores(fn.body, defs, lv=False) if s.op == "=" and not s.loops}
        ok = len(sup) == 1 and roles.canon(sup[0].args[0], defs).replace(" ", "") in alt_dt and roles.canon(sup[0].args[1], defs).replace(" ", "") == shp % sub \
            and all(St.get(k) == pa[i] for k, i in slots.items())
        r.check(ok, cname, DO, cname + ".__init__", fn.lineno, "shape/dtype of " + cname,
                "announces dtype `%s`, shape `%s`, slots %s; expected dtype %s, shape %s, slots %s" % (
                    roles.canon(sup[0].args[0], defs)[:60] if sup else None, roles.canon(sup[0].args[1], defs)[:60] if sup else None, {k: St.get(k) for k in slots}, dt % sub, shp % sub, {k: pa[i] for k, i in slots.items()}))


def space_hash(ctx):
    """Space compatibility is decided by a hash: it must cover every table the assemblers read from a space."""
    SPC = "bempp_cl/api/space/space.py"
    m = ctx.repo.mod(SPC)
    r = ctx.rule("HASH-COVERS", "FunctionSpace._generate_hash digests every table assemblers read from a space (dof maps, support, both multiplier tables, dof transformation) plus shapeset identifier and grid id; == compares those hashes on compatible representations", 3)
    fn = m.fn("FunctionSpace._generate_hash")
    defs = roles.Defs(fn)
    S = roles.stores(fn.body, defs, lv=False)
    gens = {s.tnode.id for s in S if s.op == "=" and isinstance(s.tnode, ast.Name) and isinstance(s.vnode, ast.Call) and unparse(s.vnode.func).split(".")[-1] == "md5"}
    fed = set()
    for s in S:
        if s.op == "call" and isinstance(s.vnode.func, ast.Attribute) and s.vnode.func.attr == "update" and isinstance(s.vnode.func.value, ast.Name) and s.vnode.func.value.id in gens and not s.guards and not s.loops:
            fed.add(roles.canon(s.vnode.args[0], defs).replace(" ", ""))
    T = "self.dof_transformation.tocsr().sorted_indices()"
    need = {"self.local2global.tobytes()", "self.support_elements.tobytes()", "self.normal_multipliers.tobytes()", "self.local_multipliers.tobytes()", T + ".indices", T + ".indptr", T + ".data"}
    missing = sorted(need - fed)
    r.check(not missing, "digested tables", SPC, fn.name, fn.lineno, "space hash misses %s" % missing, "tables not covered by the hash (two spaces differing only there would compare equal): %s" % missing)
    rets = [s for s in S if s.op == "return"]
    okr = len(rets) == 1 and gens and all(x in rets[0].value for x in ("self.identifier", "self.grid_id")) and any("%s.hexdigest()" % g in rets[0].value for g in gens)
    r.check(okr, "hash value", SPC, fn.name, fn.lineno, "space hash value", "the hash is `%s`: it must combine the shapeset identifier, the grid id and the digest" % (rets[0].value if rets else None))
    cf = m.fn("check_if_compatible")
    dc = roles.Defs(cf)
    pc = arg_names(cf)
    Sc = roles.stores(cf.body, dc, lv=False)
    rc = [s for s in Sc if s.op == "return"]
    rep = "return_compatible_representation(%s,%s)" % (pc[0], pc[1])
    cmp_ok = any(s.value.replace(" ", "") in ("(%s[0].hashEq%s[1].hash)" % (rep, rep), "(%s[1].hashEq%s[0].hash)" % (rep, rep)) for s in rc)
    eqf = m.fn("FunctionSpace.__eq__")
    re_ = [s for s in roles.stores(eqf.body, roles.Defs(eqf), lv=False) if s.op == "return"]
    eq_ok = len(re_) == 1 and re_[0].value.replace(" ", "") == "check_if_compatible(self,%s)" % arg_names(eqf)[1]
    r.check(cmp_ok and eq_ok, "equality by hash", SPC, cf.name, cf.lineno, "space equality", "== does not compare the hashes of the compatible representations (compare ok=%s, __eq__ forwards ok=%s)" % (cmp_ok, eq_ok))


def dunder_algebra(ctx):
    """Operator arithmetic of the four families: the dunder methods build the combinator that denotes the expression
    written (operand order included), for a scalar and for an operator as the other operand."""
    from .. import dispatch

    r = ctx.rule("DUNDER-ALGEBRA", "A + B, -A, A - B, s*A, A*s, A*B, A @ B of boundary / blocked / potential / discrete operators construct the combinator denoting exactly that expression", 20)
    A, B, s_ = NC.op("A"), NC.op("B"), NC.scalar("s")
    fams = (
        (BO, "BoundaryOperator", ("BoundaryOperator",)), (BL, "BlockedOperatorBase", ("BlockedOperatorBase",)),
        (PO, "PotentialOperator", ("PotentialOperator",)), (DO, "_DiscreteOperatorBase", ("_DiscreteOperatorBase",)),
    )
    for rel, cls, bases in fams:
        m = ctx.repo.mod(rel)
        meths = {qn.split(".", 1)[1]: fn for qn, fn in m.functions.items() if qn.startswith(cls + ".") and qn.count(".") == 1}

        def run(meth, other, depth=0):
            """NC term of self.<meth>(other) where other is an NC term (scalar iff it has no operator letter)."""
            if depth > 6 or meth not in meths:
                raise AnalysisError("%s.%s: not analysable" % (cls, meth))
            fn = meths[meth]
            pa = arg_names(fn)
            o = pa[1] if len(pa) > 1 else None
            is_scalar = other is not None and all(not w for (sc, w) in other.t)
            env = {}
            if o:
                for np_ in ("np", "_np"):
                    env["%s.isscalar(%s)" % (np_, o)] = is_scalar
                for b in bases:
                    env["isinstance(%s, %s)" % (o, b)] = not is_scalar
                env["isinstance(%s, GridFunction)" % o] = False
                env["isinstance(%s, Iterable)" % o] = False
                env["self._is_compatible(%s)" % o] = True
            kind, node = dispatch.select(fn, env)
            if kind != "return" or node is None:
                raise AnalysisError("%s.%s does not return a value for %s operand" % (cls, meth, "a scalar" if is_scalar else "an operator"))
            return term(node, {o: other} if o else {}, depth)

        def term(n, loc, depth):
            if isinstance(n, ast.Name):
                if n.id == "self":
                    return A
                if n.id in loc:
                    return loc[n.id]
            if isinstance(n, ast.Constant) and isinstance(n.value, (int, float)) and n.value == int(n.value):
                return NC.const(int(n.value))
            if isinstance(n, ast.UnaryOp) and isinstance(n.op, ast.USub):
                return NC.const(-1) * term(n.operand, loc, depth)
            if isinstance(n, ast.Call):
                f = unparse(n.func)
                args = [term(a, loc, depth) for a in n.args]
                short = f.split(".")[-1]
                if re_.fullmatch(r"_?Scaled\w*", short) and len(args) == 2:
                    return args[1] * args[0]
                if re_.fullmatch(r"_?Sum\w*", short) and len(args) == 2:
                    return args[0] + args[1]
                if re_.fullmatch(r"_?Product\w*", short) and len(args) == 2:
                    return args[0] * args[1]
                if isinstance(n.func, ast.Attribute) and unparse(n.func.value) == "self" and n.func.attr in meths and len(args) == 1:
                    return run(n.func.attr, args[0], depth + 1)
            raise AnalysisError("%s: expression outside the term subset: %s" % (cls, unparse(n)[:60]))

        cases = [("__add__", B, A + B), ("__sub__", B, A - B), ("__neg__", None, NC.const(-1) * A), ("__mul__", s_, s_ * A), ("__rmul__", s_, s_ * A)]
        if cls != "PotentialOperator":
            cases.append(("__mul__", B, A * B))
        if "__matmul__" in meths:
            cases.append(("__matmul__", s_, s_ * A))
            if cls != "PotentialOperator":
                cases.append(("__matmul__", B, A * B))
        for meth, other, want in cases:
            if meth not in meths:
                continue
            try:
                got = run(meth, other)
                ok, msg = got == want, "%s.%s(%s) builds %r, the expression denotes %r" % (cls, meth, "scalar" if other is s_ else "operator" if other is not None else "", got, want)
            except AnalysisError:
                raise  # an expression the term algebra cannot read: cannot analyse, not a verdict
            r.check(ok, "%s.%s %s" % (cls, meth, "(scalar)" if other is s_ else "(operator)" if other is not None else ""), rel, "%s.%s" % (cls, meth), meths[meth].lineno, "%s.%s %s" % (cls, meth, "scalar" if other is s_ else "operator"), msg)
