"""C10 — Barycentric and dual-grid spaces represent the functions they claim to."""

import ast
import re
from fractions import Fraction as F

from .. import bary, baryvert, bcfan, dualasm, idxspace, roles, shapesets as S
from ..core import AnalysisError
from ..src import arg_names, unparse

LEVEL = "other"
TECHNIQUE = "literal-table lint: coefficient/dof tables re-derived in exact rationals from the connectivity pattern extracted from the code; provenance rules for the assembly of the DUAL1 matrix and of the barycentric vertices (abstract execution of the memo states), index-space typing of coarse vs barycentric element tables; bundle-consistency (sibling agreement) of the Buffa-Christiansen fan helper calls over the abstractly executed boundary cases"
LEVEL_TEXT = (
    "The sub-triangle numbering of the barycentric refinement is extracted from the code as a symbolic 6x3 table; "
    "every dependent literal table (P1 barycentric coefficients, DUAL0 element pairs, DUAL1 dof lists and values, "
    "RWG/SNC barycentric coefficients and edge-length multipliers, BC reference-edge sub-triangles) is re-derived from "
    "it on the reference triangle in exact arithmetic and compared entry by entry.  By affinity the result holds on "
    "every grid."
)
LEVEL_NOTE = (
    "Exhaustive over the literal tables.  Of the data-dependent Buffa-Christiansen fan coefficients only the plumbing is "
    "decided (which pole's edges / cell count / reference position reach which helper, rule BC-FAN-BUNDLES), not the "
    "weights.  Not decided: mixed mass matrices as numbers, DOF bookkeeping loops on arbitrary meshes."
)
EXPLANATION = (
    "tables derived from the 18 connectivity assignments and _EDGE_LOCAL: P1 nodal values, dual dof slots, exact "
    "normal fluxes of the reference RT0 functions through the 18 sub-edges; compared with the literals in the sources"
)
ASSUMPTIONS = [
    "shape functions are affine/RT0 on each sub-triangle, so agreement at the three sub-triangle vertices (P1) or of the three edge fluxes (RT0) is agreement everywhere",
    "barycentric dof numbering 3*(6*element + j) + r as set by local2global[support] = arange(...).reshape(-1, 3)",
]

SS = "bempp_cl/api/space/scalar_spaces.py"
DS = "bempp_cl/api/space/scalar_dual_spaces.py"
MS = "bempp_cl/api/space/maxwell_spaces.py"
SP = "bempp_cl/api/space/space.py"
GRID_ = "bempp_cl/api/grid/grid.py"


def _table_arg(fn, callee, pos, what):
    """The literal table passed at position `pos` of the call of `callee` in fn: its defining assignment."""
    cs = [c for c in ast.walk(fn) if isinstance(c, ast.Call) and unparse(c.func).split(".")[-1] == callee]
    if len(cs) != 1 or len(cs[0].args) <= pos:
        raise AnalysisError("%s: the %s table is not passed to %s" % (fn.name, what, callee))
    if not isinstance(cs[0].args[pos], ast.Name):
        # the table written in place of the argument (or named on the line before: the loader reads that the same way)
        return ast.copy_location(ast.Assign(targets=[ast.Name(id="‹table›", ctx=ast.Store())], value=roles.inline(cs[0].args[pos], roles.Defs(fn))), cs[0].args[pos])
    st = _find_assign(fn, cs[0].args[pos].id)
    if st is None:
        raise AnalysisError("%s: %s table `%s` has no defining assignment" % (fn.name, what, cs[0].args[pos].id))
    # locals naming a fragment of the table expression (`raw = _np.array([...]); local_coords = raw.T`) are read through
    return ast.copy_location(ast.Assign(targets=st.targets, value=roles.inline(st.value, roles.Defs(fn))), st)


def _affine(node, defs, syms, first=False):
    """Exact affine form {symbol: coefficient, 1: constant} of an integer index expression over the loop variables
    `syms`; first=True evaluates element 0 of a vector expression built from arange(n) and scalars."""
    if isinstance(node, ast.Constant) and isinstance(node.value, int):
        return {1: F(node.value)}
    if isinstance(node, ast.Name):
        if node.id in syms:
            return {node.id: F(1)}
        d = defs.lookup(node.id, node.lineno)
        if d is None or d[0] != "expr":
            return None
        return _affine(d[1], defs, syms, first)
    if first and isinstance(node, ast.Call) and unparse(node.func) in ("_np.arange", "np.arange") and len(node.args) == 1:
        return {1: F(0)}
    if isinstance(node, ast.Subscript) and isinstance(node.slice, ast.Constant) and node.slice.value == 0 and not first:
        return _affine(node.value, defs, syms, True)
    if isinstance(node, ast.BinOp) and isinstance(node.op, (ast.Add, ast.Sub, ast.Mult)):
        a, b = _affine(node.left, defs, syms, first), _affine(node.right, defs, syms, first)
        if a is None or b is None:
            return None
        if isinstance(node.op, ast.Mult):
            if set(a) <= {1}:
                a, b = b, a
            if not set(b) <= {1}:
                return None
            c = b.get(1, F(0))
            out = {k: v * c for k, v in a.items()}
        else:
            sg = 1 if isinstance(node.op, ast.Add) else -1
            out = dict(a)
            for k, v in b.items():
                out[k] = out.get(k, F(0)) + sg * v
        return {k: v for k, v in out.items() if v != 0}
    return None


def _placement(fn, scaled):
    """generate_*_map: for the position-th support element (index I) and coarse local dof K the 18 values
    coeffs[K] (row-major: row j = sub-triangle j, column r = its local dof r) go to barycentric dofs
    18*I .. 18*I+17 = 3*(6*I + j) + r and to coarse dof 3*I + K.  Returns (ok, why, names) where names carries the
    scaling operands for the RWG variant."""
    defs = roles.Defs(fn)
    pa = [a.arg for a in fn.args.args]
    rets = [s for s in fn.body if isinstance(s, ast.Return)]
    if len(rets) != 1 or not isinstance(rets[0].value, ast.Tuple) or len(rets[0].value.elts) != 3 or not all(isinstance(e, ast.Name) for e in rets[0].value.elts):
        return None, "does not return (coarse dofs, barycentric dofs, values) from locals", {}
    CD, BD, VAL = (e.id for e in rets[0].value.elts)
    S = roles.stores(fn.body, defs, lv=False)
    st = {}
    for nm in (CD, BD, VAL):
        xs = [s for s in S if s.op == "=" and isinstance(s.tnode, ast.Subscript) and unparse(s.tnode.value) == nm]
        if len(xs) != 1 or len(xs[0].loops) != 2 or xs[0].guards:
            return None, "`%s` is not filled by one unguarded store inside (support element, coarse local dof)" % nm, {}
        st[nm] = xs[0]
    lE, lK = st[CD].loops
    if st[BD].loops != (lE, lK) or st[VAL].loops != (lE, lK):
        return None, "the three stores are not in the same loop nest", {}
    if not (isinstance(lE.target, ast.Tuple) and len(lE.target.elts) == 2 and isinstance(lK.target, ast.Name) and roles.canon(lE.iter, defs) == "enumerate(%s)" % pa[1]
            and roles.canon(lK.iter, defs) == "range(3)"):
        return None, "loops are not `for position, element in enumerate(support_elements)` / `for k in range(3)`", {}
    I, K = lE.target.elts[0].id, lK.target.id
    cnt = [s for s in S if s.op == "Add=" and isinstance(s.tnode, ast.Name) and s.loops == (lE, lK) and not s.guards]
    if not cnt:
        dec = [s for s in S if s.op in ("Sub=", "Mult=") and isinstance(s.tnode, ast.Name) and s.loops == (lE, lK) and not s.guards]
        if len(dec) == 1:
            return False, "the running position `%s` is updated with %s instead of advancing by 18 per (element, coarse dof): the blocks of values overwrite each other or are written before the start" % (dec[0].target, dec[0].op), {}
    if len(cnt) == 1 and isinstance(cnt[0].vnode, ast.Constant) and isinstance(cnt[0].vnode.value, int) and cnt[0].vnode.value != 18:
        return False, "the running position advances by %d per (element, coarse dof), the block written there has 18 entries" % cnt[0].vnode.value, {}
    if len(cnt) != 1 or not (isinstance(cnt[0].vnode, ast.Constant) and cnt[0].vnode.value == 18):
        return None, "no single running counter advanced by 18 per (element, coarse dof)", {}
    N = cnt[0].target
    if not any(isinstance(x, ast.Assign) and unparse(x.targets[0]) == N and isinstance(x.value, ast.Constant) and x.value.value == 0 and x.lineno < lE.lineno for x in fn.body):
        return False, "the counter does not start at 0", {}
    for nm in (CD, BD, VAL):
        s = st[nm]
        if s.target != roles.expect("A[N:N + 18]", defs, s.node.lineno, lv=False, A=nm, N=N) or s.node.lineno > cnt[0].node.lineno:
            return False, "`%s` is not written at [count, count + 18) before the counter advances" % nm, {}
    if _affine(st[CD].vnode, defs, {I, K}) != {I: F(3), K: F(1)}:
        return False, "coarse dof is `%s`, not 3*position + k" % unparse(st[CD].vnode), {}
    v = st[BD].vnode
    if isinstance(v, ast.Name):
        d = defs.lookup(v.id, v.lineno)
        v = d[1] if d and d[0] == "expr" else v
    if not (isinstance(v, ast.Call) and unparse(v.func) in ("_np.arange", "np.arange") and len(v.args) == 2):
        return None, "barycentric dofs are not a contiguous arange(lo, hi)", {}
    lo, hi = _affine(v.args[0], defs, {I, K}), _affine(v.args[1], defs, {I, K})
    if lo != {I: F(18)} or hi != {I: F(18), 1: F(18)}:
        return False, "barycentric dofs run over [%s, %s), not over [18*position, 18*position + 18) = the 3 dofs of each of the 6 sub-triangles of the element" % (lo, hi), {}
    val = st[VAL].vnode
    if isinstance(val, ast.Name):
        d = defs.lookup(val.id, val.lineno)
        val = d[1] if d and d[0] == "expr" else val
    if not (isinstance(val, ast.Call) and isinstance(val.func, ast.Attribute) and val.func.attr in ("ravel", "flatten") and not val.args):
        return None, "values are not the row-major flattening of a 6 x 3 table", {}
    x = val.func.value
    if isinstance(x, ast.Name):
        d = defs.lookup(x.id, x.lineno)
        x = d[1] if d and d[0] == "expr" else x
    row = roles.expect("C[K]", defs, st[VAL].node.lineno, lv=False, C=pa[-1], K=K)
    names = {}
    if not scaled:
        if roles.canon(x, defs).replace(" ", "") != row:
            return False, "values are `%s`, not coeffs[k] flattened" % unparse(x)[:60], {}
        return True, "", names
    # coeffs[k] * outer_edges[k] / dof_mult
    if not (isinstance(x, ast.BinOp) and isinstance(x.op, ast.Div) and isinstance(x.right, ast.Name) and isinstance(x.left, ast.BinOp) and isinstance(x.left.op, ast.Mult)):
        return False, "values are `%s`, not coeffs[k] * outer_edges[k] / dof_mult" % unparse(x)[:80], {}
    names["dof_mult"] = x.right.id
    got = None
    for a, b in ((x.left.left, x.left.right), (x.left.right, x.left.left)):
        if roles.canon(a, defs).replace(" ", "") == row and isinstance(b, ast.Subscript) and isinstance(b.value, ast.Name) and isinstance(b.slice, ast.Name) and b.slice.id == K:
            got = b.value.id
    if got is None:
        return False, "values are `%s`, not coeffs[k] * outer_edges[k] / dof_mult" % unparse(x)[:80], {}
    names["outer_edges"] = got
    return True, "", names


def _find_assign(fn, name):
    for st in ast.walk(fn):
        if isinstance(st, ast.Assign) and len(st.targets) == 1 and isinstance(st.targets[0], ast.Name) and st.targets[0].id == name:
            return st
    return None


def p1_table(ctx, B, pts):
    m = ctx.repo.mod(SS)
    fn = m.fn("p1_barycentric_continuous_function_space")
    st = _table_arg(fn, "generate_p1_map", 2, "coefficient")
    got = bary.frac_table(st.value)
    r = ctx.rule("P1-BARY", "P1 barycentric coefficients: coeffs[k][j][r] == phi_k(vertex r of sub-triangle j)", 3)
    if len(got) != 3 or any(len(t) != 6 or any(len(row) != 3 for row in t) for t in got):
        raise AnalysisError("p1 barycentric coeffs is not 3 x 6 x 3")
    for k in range(3):
        want = [[bary.phi(k, pts[B[j][rr]]) for rr in range(3)] for j in range(6)]
        ok = got[k] == want
        detail = ""
        if not ok:
            # diagnose a row rotation
            for s in range(1, 6):
                if [got[k][(j + s) % 6] for j in range(6)] == want:
                    detail = " (rows are displaced by %d sub-triangle(s))" % s
            bad = [(j, [str(x) for x in got[k][j]], [str(x) for x in want[j]]) for j in range(6) if got[k][j] != want[j]][:2]
            detail += " first mismatches (row, literal, derived): %s" % bad
        r.check(ok, "coeffs[%d]" % k, SS, fn.name, st.lineno, "p1 barycentric coeffs[%d]" % k,
                "literal table differs from the nodal values of coarse function %d on the sub-triangles%s" % (k, detail))
    # placement: 18 values per coarse dof, row-major, starting at bary dof 3*(6*index)
    g = m.fn("generate_p1_map")
    okp, whyp, _ = _placement(g, False)
    if okp is None:
        raise AnalysisError("%s: construction not recognised: %s" % (g.name, whyp))
    r2 = ctx.rule("P1-BARY-PLACE", "generate_p1_map writes row j of coeffs[k] to the dofs of barycentric element 6*index + j, coarse dof 3*index + k", 1)
    r2.check(okp, "generate_p1_map", SS, "generate_p1_map", g.lineno, "generate_p1_map placement", whyp)
    bad = ast.parse("def g(grid_data, support_elements, coeffs):\n    a = _np.empty(9)\n    b = _np.empty(9)\n    v = _np.empty(9)\n    count = 0\n    for index, e in enumerate(support_elements):\n"
                    "        for k in range(3):\n            a[count:count + 18] = 3 * index + k\n            b[count:count + 18] = _np.arange(18 * e, 18 * e + 18)\n"
                    "            v[count:count + 18] = coeffs[k].ravel()\n            count += 18\n    return a, b, v").body[0]
    r2.must_fire(_placement(bad, False)[0] is False, "barycentric dofs numbered by element number instead of support position")


def dual0(ctx, B):
    m = ctx.repo.mod(DS)
    fn = m.fn("dual0_function_space")
    r = ctx.rule("DUAL0-ELEMENTS", "DUAL0: the two sub-triangles attached to coarse vertex v are exactly those containing V_v", 3)
    # find the two appended bary dof expressions: 6*face_n + f(vertex)
    exprs = []
    for n in ast.walk(fn):
        if isinstance(n, ast.Call) and isinstance(n.func, ast.Attribute) and n.func.attr == "append" and unparse(n.func.value) == "_bary_dofs":
            exprs.append(n.args[0])
    if len(exprs) != 2:
        raise AnalysisError("dual0: expected two _bary_dofs.append sites, found %d" % len(exprs))

    def ev(node, env):
        if isinstance(node, ast.Constant):
            return node.value
        if isinstance(node, ast.Name):
            return env[node.id]
        if isinstance(node, ast.BinOp):
            a, b = ev(node.left, env), ev(node.right, env)
            return {ast.Add: a + b, ast.Sub: a - b, ast.Mult: a * b, ast.Mod: a % b if b else 0, ast.FloorDiv: a // b if b else 0}[type(node.op)]
        raise AnalysisError("dual0: unsupported dof expression %s" % unparse(node))

    for v in range(3):
        try:
            got = sorted(ev(e, {"face_n": 0, "vertex": v}) for e in exprs)
        except KeyError as ke:
            raise AnalysisError("dual0: dof expression uses unknown name %s" % ke)
        want = sorted(j for j in range(6) if "V%d" % v in B[j])
        r.check(got == want, "vertex %d" % v, DS, fn.name, exprs[0].lineno, "dual0 sub-triangles of vertex %d" % v,
                "code attaches sub-triangles %s to coarse vertex %d, the refinement puts V%d in %s" % (got, v, v, want))


def _dual1_lists(fn):
    """The three `for n in [..]` / enumerate([[..],..]) literal dof lists with their values."""
    out = {}
    for node in ast.walk(fn):
        if isinstance(node, ast.For) and isinstance(node.iter, ast.List) and all(isinstance(e, ast.Constant) for e in node.iter.elts):
            vals = [s for s in ast.walk(node) if isinstance(s, ast.Assign) and unparse(s.targets[0]) == "values[count]"]
            if len(vals) == 1:
                out.setdefault("centre", []).append(([e.value for e in node.iter.elts], vals[0].value, node.lineno))
        if (isinstance(node, ast.For) and isinstance(node.iter, ast.Call) and unparse(node.iter.func) == "enumerate"
                and isinstance(node.iter.args[0], ast.List) and all(isinstance(e, ast.List) for e in node.iter.args[0].elts)):
            lists = [[c.value for c in e.elts] for e in node.iter.args[0].elts]
            vals = [s for s in ast.walk(node) if isinstance(s, ast.Assign) and unparse(s.targets[0]) == "values[count]"]
            conds = [s for s in node.body if isinstance(s, ast.If)]
            kind = None
            if conds:
                t = unparse(conds[0].test)
                if "element_edges" in t:
                    kind = "edge"
                elif ".elements" in t:
                    kind = "vertex"
            if kind and len(vals) == 1:
                out.setdefault(kind, []).append((lists, vals[0].value, node.lineno))
    return out


def dual1(ctx, B):
    m = ctx.repo.mod(DS)
    fn = m.fn("dual1_function_space")
    L = _dual1_lists(fn)
    for kind in ("centre", "edge", "vertex"):
        if len(L.get(kind, [])) != 1:
            raise AnalysisError("dual1: cannot locate the %s dof list" % kind)
    slot = lambda sym: sorted(3 * j + rr for j in range(6) for rr in range(3) if B[j][rr] == sym)
    r = ctx.rule("DUAL1-DOFS", "DUAL1: barycentre / edge-midpoint / vertex dof lists are the slots of C / M_e / V_v in the refinement table", 7)
    lst, val, ln = L["centre"][0]
    r.check(sorted(lst) == slot("C"), "barycentre dofs", DS, fn.name, ln, "dual1 barycentre dofs %s" % lst,
            "barycentre value is written to dofs %s; the barycentre C occupies dofs %s (those listed are %s)"
            % (lst, slot("C"), _who(B, lst)))
    lists, val_e, ln_e = L["edge"][0]
    for e in range(3):
        r.check(sorted(lists[e]) == slot("M%d" % e), "edge %d dofs" % e, DS, fn.name, ln_e, "dual1 edge %d dofs %s" % (e, lists[e]),
                "edge-midpoint value of edge %d is written to dofs %s; M%d occupies %s" % (e, lists[e], e, slot("M%d" % e)))
    lists, val_v, ln_v = L["vertex"][0]
    for v in range(3):
        r.check(sorted(lists[v]) == slot("V%d" % v), "vertex %d dofs" % v, DS, fn.name, ln_v, "dual1 vertex %d dofs %s" % (v, lists[v]),
                "vertex value of vertex %d is written to dofs %s; V%d occupies %s" % (v, lists[v], v, slot("V%d" % v)))
    r2 = ctx.rule("DUAL1-VALUES", "DUAL1 nodal values: 1 at the barycentre, 1/2 at edge midpoints, 1/valence at vertices", 3)
    r2.check(_is_num(val, 1), "barycentre value", DS, fn.name, ln, "dual1 barycentre value " + unparse(val), "barycentre value is %s, documented 1" % unparse(val))
    r2.check(_is_num(val_e, F(1, 2)), "edge value", DS, fn.name, ln_e, "dual1 edge value " + unparse(val_e), "edge midpoint value is %s, documented 1/2" % unparse(val_e))
    okv = isinstance(val_v, ast.BinOp) and isinstance(val_v.op, ast.Div) and _is_num(val_v.left, 1) and isinstance(val_v.right, ast.Name)
    if okv:
        # resolve the divisor inside the loop that contains the assignment (names are re-bound in an earlier counting pass)
        holder = None
        for node in ast.walk(fn):
            if isinstance(node, ast.For) and any(s is L["vertex"][0][1] for s in ast.walk(node)):
                if isinstance(node.iter, ast.Call) and unparse(node.iter) == "range(3)":
                    holder = node
        cnt = ""
        if holder is not None:
            shim = ast.FunctionDef(name="_", args=fn.args, body=holder.body, decorator_list=[], lineno=holder.lineno)
            cnt = roles.canon(val_v.right, roles.Defs(shim)).replace(" ", "")
        import re

        mm = re.fullmatch(r"\((.+)\.indexptr\[\(1\+(.+)\)\]-(.+)\.indexptr\[(.+)\]\)", cnt)
        okv = bool(mm) and mm.group(1) == mm.group(3) and mm.group(2) == mm.group(4) and mm.group(1).endswith("vertex_neighbors")
    r2.check(okv, "vertex value", DS, fn.name, ln_v, "dual1 vertex value " + unparse(val_v),
             "vertex value is %s, documented 1/(number of coarse triangles at the vertex)" % unparse(val_v))


def _who(B, lst):
    names = []
    for d in lst:
        j, rr = divmod(d, 3)
        names.append(B[j][rr] if 0 <= j < 6 else "?")
    return names


def _is_num(node, val):
    try:
        return bary.frac(node) == F(val)
    except AnalysisError:
        return False


def rwg_tables(ctx, B, pts):
    """RWG / SNC barycentric coefficient tables and the edge-length multipliers of generate_rwg0_map."""
    m = ctx.repo.mod(MS)
    el = bary.edge_local(ctx)
    sreg = S.registry(ctx)
    ent = sreg["rwg0"]
    py = S.evaluate(ctx, ent["evaluate"], 2, 3)  # py[c][f] over ξ0, ξ1

    def ref_fun(k, p):
        env = {"ξ0": S.V.const(p[0]), "ξ1": S.V.const(p[1])}
        out = []
        for c in range(2):
            v = py[c][k].subs(env).aspoly()
            out.append(v.constval().re if v is not None else None)
        return out

    # exact flux of reference function k through sub-edge l of sub-triangle j (outward)
    def flux(k, j, l):
        a, b = el[l]
        p, q = pts[B[j][a]], pts[B[j][b]]
        mid = ((p[0] + q[0]) / 2, (p[1] + q[1]) / 2)
        n = (q[1] - p[1], -(q[0] - p[0]))  # outward normal * length for a positively oriented triangle
        f = ref_fun(k, mid)
        return f[0] * n[0] + f[1] * n[1]

    def on_coarse_edge(j, l):
        a, b = el[l]
        s, t = B[j][a], B[j][b]
        for e, (u, v) in enumerate(el):
            if {s, t} in ({"V%d" % u, "M%d" % e}, {"V%d" % v, "M%d" % e}):
                return e
        return None

    want = [[[flux(k, j, l) * (2 if on_coarse_edge(j, l) is not None else 1) for l in range(3)] for j in range(6)] for k in range(3)]
    r = ctx.rule("RWG-BARY", "RWG/SNC barycentric coefficients == exact normal fluxes of the reference RT0 functions through the 18 sub-edges (x2 on outer half-edges)", 6)
    tables = {}
    for fname in ("rwg0_barycentric_function_space", "snc0_barycentric_function_space"):
        fn = m.fn(fname)
        st = _table_arg(fn, "generate_rwg0_map", 3, "coefficient")
        lc = _table_arg(fn, "generate_rwg0_map", 2, "local coordinate")
        got = bary.frac_table(st.value)
        tables[fname] = (got, bary.frac_table(lc.value))
        for k in range(3):
            ok = got[k] == want[k]
            bad = [(j, [str(x) for x in got[k][j]], [str(x) for x in want[k][j]]) for j in range(6) if got[k][j] != want[k][j]][:2]
            r.check(ok, "%s coeffs[%d]" % (fname, k), MS, fname, st.lineno, "%s coeffs[%d]" % (fname, k),
                    "literal table differs from the exact sub-edge fluxes of coarse function %d; (row, literal, derived): %s" % (k, bad))
    # edge-length multipliers
    g = m.fn("generate_rwg0_map")
    r2 = ctx.rule("RWG-BARY-LEN", "generate_rwg0_map: dof_mult[j][l] is the length of sub-edge l of sub-triangle j (full coarse edge for outer halves); outer_edges[k] is coarse edge k", 19)
    seg = {}
    gdefs = roles.Defs(g)
    pts_arrays = tuple({n.value.id for n in ast.walk(g) if isinstance(n, ast.Subscript) and isinstance(n.value, ast.Name) and isinstance(n.slice, ast.Tuple) and len(n.slice.elts) == 2
                        and isinstance(n.slice.elts[0], ast.Slice) and isinstance(n.slice.elts[1], ast.Constant)})
    norm_of = {}  # local -> its value with fragment-naming locals read through (the point arrays stay names)
    for stt in ast.walk(g):
        if isinstance(stt, ast.Assign) and isinstance(stt.targets[0], ast.Name):
            v_ = roles.inline(stt.value, gdefs, keep=pts_arrays)
            if isinstance(v_, ast.Call) and unparse(v_.func).endswith("linalg.norm") and v_.args:
                norm_of[stt.targets[0].id] = v_
    for nm_, v_ in norm_of.items():
        if True:
            arg = v_.args[0]
            if isinstance(arg, ast.BinOp) and isinstance(arg.op, ast.Sub):
                idx = []
                for side in (arg.left, arg.right):
                    if (isinstance(side, ast.Subscript) and isinstance(side.slice, ast.Tuple) and isinstance(side.slice.elts[0], ast.Slice)
                            and isinstance(side.slice.elts[1], ast.Constant)):
                        idx.append(side.slice.elts[1].value)
                if len(idx) == 2:
                    seg[nm_] = tuple(idx)
    # the points the lengths are measured between: the seven local points mapped to the *listed element* (not to its position)
    bases = set()
    for nm_ in seg:
        a_ = norm_of[nm_].args[0]
        bases |= {unparse(a_.left.value), unparse(a_.right.value)}
    gp = arg_names(g)
    lp = [l for l in ast.walk(g) if isinstance(l, ast.For) and isinstance(l.target, ast.Tuple) and len(l.target.elts) == 2 and unparse(l.iter).replace(" ", "") == "enumerate(%s)" % gp[1]]
    okpts, whypts = False, "the sub-edge lengths are not all measured on one array of mapped points (found %s)" % sorted(bases)
    if len(bases) == 1 and len(lp) == 1:
        LV = bases.pop()
        pos_, item_ = (t.id for t in lp[0].target.elts)
        dfs = [s_ for s_ in ast.walk(lp[0]) if isinstance(s_, ast.Assign) and unparse(s_.targets[0]) == LV]
        got_lv = unparse(dfs[0].value).replace(" ", "") if len(dfs) == 1 else None
        okpts = got_lv == "%s.local2global(%s,%s)" % (gp[0], item_, gp[2])
        whypts = "the points the sub-edge lengths are measured between are `%s`, expected the local points mapped to the listed element: %s.local2global(%s, %s)" % (got_lv, gp[0], item_, gp[2])
    r2.check(okpts, "mapped points", MS, "generate_rwg0_map", g.lineno, "points of the edge-length table", whypts)
    okp, whyp, names = _placement(g, True)
    if okp is None:
        raise AnalysisError("%s: construction not recognised: %s" % (g.name, whyp))
    r4 = ctx.rule("RWG-BARY-PLACE", "generate_rwg0_map scales coeffs[k] by outer_edges[k]/dof_mult and writes row j to barycentric element 6*index + j", 1)
    r4.check(okp, "generate_rwg0_map", MS, "generate_rwg0_map", g.lineno, "generate_rwg0_map placement", whyp)
    dm = _find_assign(g, names.get("dof_mult", "dof_mult"))
    oe = _find_assign(g, names.get("outer_edges", "outer_edges"))
    if dm is None or oe is None:
        raise AnalysisError("generate_rwg0_map: the edge-length tables (dof_mult / outer_edges) were not found")
    node = dm.value.args[0] if isinstance(dm.value, ast.Call) else dm.value
    lc = tables["rwg0_barycentric_function_space"][1]  # 2 x 7 (after .T)
    loc = [(lc[0][i], lc[1][i]) for i in range(len(lc[0]))]
    r3 = ctx.rule("RWG-BARY-COORDS", "local_coords lists V0,M0,V1,M2,V2,M1,C in the order generate_rwg0_map indexes them; both copies identical", 2)
    r3.check(tables["rwg0_barycentric_function_space"][1] == tables["snc0_barycentric_function_space"][1]
             and tables["rwg0_barycentric_function_space"][0] == tables["snc0_barycentric_function_space"][0],
             "rwg0 vs snc0 literal tables", MS, "snc0_barycentric_function_space", m.fn("snc0_barycentric_function_space").lineno,
             "snc0 barycentric tables differ from rwg0", "the two literal copies (RWG, SNC) of coeffs/local_coords differ")
    r3.check(set(loc) == set(pts.values()) and len(loc) == 7, "local_coords point set", MS, "rwg0_barycentric_function_space",
             m.fn("rwg0_barycentric_function_space").lineno, "local_coords points", "local_coords is not the set {V0,V1,V2,M0,M1,M2,C}")

    def segpts(name):
        if name not in seg:
            return None
        return frozenset(loc[i] for i in seg[name])

    for j in range(6):
        for l in range(3):
            cell = node.elts[j].elts[l]
            nm = cell.id if isinstance(cell, ast.Name) else None
            a, b = el[l]
            e = on_coarse_edge(j, l)
            if e is None:
                wantseg = frozenset([pts[B[j][a]], pts[B[j][b]]])
            else:
                wantseg = frozenset([pts["V%d" % el[e][0]], pts["V%d" % el[e][1]]])
            r2.check(nm is not None and segpts(nm) == wantseg, "dof_mult[%d][%d]" % (j, l), MS, "generate_rwg0_map", dm.lineno,
                     "dof_mult[%d][%d] = %s" % (j, l, unparse(cell)),
                     "entry `%s` is not the length of sub-edge %d of sub-triangle %d (%s-%s)" % (unparse(cell), l, j, B[j][a], B[j][b]))
    oes = [c.id if isinstance(c, ast.Name) else None for c in oe.value.elts]
    okoe = len(oes) == 3 and all(segpts(oes[k]) == frozenset([pts["V%d" % el[k][0]], pts["V%d" % el[k][1]]]) for k in range(3))
    r2.check(okoe, "outer_edges", MS, "generate_rwg0_map", oe.lineno, "outer_edges = %s" % unparse(oe.value), "outer_edges[k] is not the length of coarse edge k")


def compat(ctx):
    """return_compatible_representation switches all spaces as soon as one is barycentric; assemblers call it first."""
    m = ctx.repo.mod(SP)
    fn = m.fn("return_compatible_representation")
    r = ctx.rule("COMPAT-REPR", "return_compatible_representation converts every space when any is barycentric and raises if one has no barycentric form; sparse and singular assemblers call it before reading space tables", 3)
    d = roles.Defs(fn)
    va = fn.args.vararg.arg if fn.args.vararg else None
    St = roles.stores(fn.body, d, lv=False)
    rets = [s for s in St if s.op == "return"]
    ln = fn.body[-1].lineno
    ex = lambda src: roles.expect(src, d, ln, lv=False, A=va or "args")
    anyb = {ex("any([s.is_barycentric for s in A])"), ex("any(s.is_barycentric for s in A)")}
    conv = {ex("[s.barycentric_representation() for s in A]"), ex("tuple(s.barycentric_representation() for s in A)"), ex("list(s.barycentric_representation() for s in A)")}

    def plain(g):  # guard stack says "no space is barycentric"
        return len(g) >= 1 and ((g[0][0] in anyb and g[0][1] is False) or (g[0][0] in {"Not(%s)" % a for a in anyb} and g[0][1] is True))

    def bary_branch(g):
        return len(g) >= 1 and ((g[0][0] in anyb and g[0][1] is True) or (g[0][0] in {"Not(%s)" % a for a in anyb} and g[0][1] is False))

    keep = [s for s in rets if plain(s.guards) and s.value == (va or "")]
    sw = [s for s in rets if bary_branch(s.guards) and s.value in conv]
    # a raise for spaces without barycentric form, tested on the converted list, before the converted spaces are returned
    raises = [n for n in ast.walk(fn) if isinstance(n, ast.If) and any(isinstance(x, ast.Raise) for x in n.body)
              and roles.canon(n.test, d).replace(" ", "") in {"Not(all(%s))" % c for c in conv}]
    ok = va is not None and len(keep) == 1 and len(sw) == 1 and len(rets) == 2 and len(raises) == 1 and raises[0].lineno < sw[0].node.lineno
    r.check(ok, "return_compatible_representation", SP, fn.name, fn.lineno, "compatible representation switch",
            "expected: return the spaces unchanged iff none is barycentric, otherwise convert EVERY space with barycentric_representation() and raise when one has none "
            "(unchanged-return ok=%s, all-converted return ok=%s, raise on missing representation ok=%s)" % (len(keep) == 1, len(sw) == 1, len(raises) == 1))
    for rel, fname in (("bempp_cl/core/sparse_assembler.py", "SparseAssembler.assemble"), ("bempp_cl/core/singular_assembler.py", "SingularAssembler.assemble")):
        mm = ctx.repo.mod(rel)
        f = mm.fn(fname)
        first_use = None
        call_line = None
        for n in ast.walk(f):
            if isinstance(n, ast.Call) and unparse(n.func).endswith("return_compatible_representation"):
                call_line = n.lineno if call_line is None else min(call_line, n.lineno)
            if isinstance(n, ast.Attribute) and n.attr in ("local2global", "local_multipliers", "global_dof_count", "support_elements", "grid_dof_count"):
                first_use = n.lineno if first_use is None else min(first_use, n.lineno)
        ok = call_line is not None and (first_use is None or call_line <= first_use)
        # and the tables must be read from the *returned* spaces, not from self.*
        uses_self = [n.lineno for n in ast.walk(f) if isinstance(n, ast.Attribute) and n.attr in ("local2global", "local_multipliers")
                     and unparse(n.value).startswith("self.")]
        r.check(ok and not uses_self, fname, rel, fname, f.lineno, "compatible representation in " + fname,
                "dof tables are read before / without return_compatible_representation (lines %s)" % (uses_self or [first_use]))


def bc_reference_edge(ctx, B):
    """Buffa-Christiansen functions: the four barycentric cells on the reference edge and the barycentric edge their
    coefficients sit on, against the refinement table and _EDGE_LOCAL."""
    r = ctx.rule("BC-REF-EDGE", "BC reference edge: cells 6*T + 2*v and 6*T + 2*v + 1 are the two sub-triangles along the coarse edge leaving local vertex v (first contains V_v, second V_{v+1}); "
                 "the coefficients sit on their common interior edge (midpoint, centre), with opposite signs inside each pair and mirrored between the upper and the lower pair", 7)
    el = bary.edge_local(ctx)
    mm = ctx.repo.mod(MS)
    fn = mm.fn("_compute_bc_space_data")
    defs = roles.Defs(fn)
    calls = [c for c in ast.walk(fn) if isinstance(c, ast.Call) and unparse(c.func) == "_get_coefficients_reference_edge"]
    if len(calls) != 1 or len(calls[0].args) != 8:
        raise AnalysisError("_compute_bc_space_data: call of _get_coefficients_reference_edge(…8 arguments…) not found")
    g = ctx.repo.mod(GRID_).fn("_get_coefficients_reference_edge")
    gp = [a.arg for a in g.args.args]
    # the two coarse cells and the two local vertex numbers: names the four cell numbers are affine in
    forms = []
    for a in calls[0].args[4:8]:
        names = {n.id for n in ast.walk(_resolve_expr(a, defs)) if isinstance(n, ast.Name)}
        forms.append((_affine(a, defs, names), names))
    ok_forms = all(f is not None and sorted(f.values()) in ([F(2), F(6)], [F(1), F(2), F(6)]) for f, _ in forms)
    r.check(ok_forms, "cell numbers are 6*T + 2*v (+1)", MS, fn.name, calls[0].lineno, "bc reference cells %s" % [dict((str(k), str(v)) for k, v in (f or {}).items()) for f, _ in forms],
            "the four barycentric cells passed to _get_coefficients_reference_edge are not of the form 6*coarse_element + 2*local_vertex (+1)")
    if not ok_forms:
        return
    offs = [int(f.get(1, 0)) for f, _ in forms]  # (upper-, upper+, lower-, lower+)
    cells = []
    for f, _ in forms:
        T = next(k for k, v in f.items() if v == 6)
        v = next(k for k, val in f.items() if val == 2)
        cells.append((T, v))
    r.check(offs == [0, 1, 0, 1] and cells[0] == cells[1] and cells[2] == cells[3] and cells[0] != cells[2], "minus/plus cells of the upper and the lower coarse element", MS, fn.name, calls[0].lineno,
            "bc reference cell offsets %s" % offs, "expected (6U+2a, 6U+2a+1, 6L+2b, 6L+2b+1); got offsets %s over %s" % (offs, cells))
    # the barycentric table: sub-triangles 2v, 2v+1 lie along the coarse edge from V_v to V_{v+1}
    for v in range(3):
        e = next(k for k in range(3) if set(el[k]) == {v, (v + 1) % 3})
        j0, j1 = 2 * v, 2 * v + 1
        ok = ("V%d" % v) in B[j0] and ("V%d" % ((v + 1) % 3)) in B[j1] and ("M%d" % e) in B[j0] and ("M%d" % e) in B[j1] and "C" in B[j0] and "C" in B[j1]
        r.check(ok, "sub-triangles %d,%d along the edge V%d-V%d" % (j0, j1, v, (v + 1) % 3), GRID_, "_create_barycentric_connectivity_array", 0, "bc cells along edge %d" % v,
                "sub-triangles %d %s and %d %s are not the two halves along the coarse edge from V%d to V%d (midpoint M%d)" % (j0, B[j0], j1, B[j1], v, (v + 1) % 3, e))
    # which local dof / local edge of those cells carries the coefficient
    gd = roles.Defs(g)
    S = roles.stores(g.body, gd, lv=False)
    apps = {}
    for s_ in S:
        if s_.op == "call" and isinstance(s_.vnode.func, ast.Attribute) and s_.vnode.func.attr == "append" and isinstance(s_.vnode.func.value, ast.Name):
            apps.setdefault(s_.vnode.func.value.id, []).append(s_.vnode.args[0])
    rets = [s_ for s_ in g.body if isinstance(s_, ast.Return)]
    if len(rets) != 1 or not isinstance(rets[0].value, ast.Tuple) or len(rets[0].value.elts) != 3:
        raise AnalysisError("_get_coefficients_reference_edge: does not return (values, bary dofs, coarse dofs)")
    VAL, BD, CD = (unparse(e) for e in rets[0].value.elts)
    cellp = gp[4:8]
    dofs = [roles.canon(a, gd).replace(" ", "") for a in apps.get(BD, [])]
    loc = []
    for d, cp in zip(dofs, cellp):
        m_ = re.fullmatch(re.escape(gp[2]) + r"\[\(" + re.escape(cp) + r",(\d)\)\]", d)
        loc.append(int(m_.group(1)) if m_ else None)
    shared_ok = len(loc) == 4 and all(l is not None for l in loc)
    if shared_ok:
        for v in range(3):
            e = next(k for k in range(3) if set(el[k]) == {v, (v + 1) % 3})
            for j, l in ((2 * v, loc[0]), (2 * v + 1, loc[1])):
                a, b = el[l]
                shared_ok = shared_ok and {B[j][a], B[j][b]} == {"M%d" % e, "C"}
    r.check(shared_ok, "coefficients sit on the interior edge (midpoint, centre) shared by the two halves", GRID_, g.name, g.lineno, "bc reference edge local dofs %s" % loc,
            "barycentric dofs %s: the local edge used in the minus/plus cells is not their common edge (M_e, C)" % dofs)
    # edge lengths of that same local edge, signs (+,-,-,+) and magnitude 1/(2 L)
    vals = [roles.canon(a, gd, commutative_mult=True).replace(" ", "") for a in apps.get(VAL, [])]
    Lu = roles.expect("EL[BG.data().element_edges[K, UM]]", gd, g.body[-1].lineno, lv=False, EL=gp[0], BG=gp[1], K=str(loc[0] if shared_ok else 2), UM=gp[4])
    Ll = roles.expect("EL[BG.data().element_edges[K, LM]]", gd, g.body[-1].lineno, lv=False, EL=gp[0], BG=gp[1], K=str(loc[2] if shared_ok else 2), LM=gp[6])
    w = lambda sign, L: ("(%s/(2*%s))" % ("1.0" if sign > 0 else "USub(1.0)", L))
    want = [w(+1, Lu), w(-1, Lu), w(-1, Ll), w(+1, Ll)]
    r.check(vals == want and [roles.canon(a, gd) for a in apps.get(CD, [])] == [gp[3]] * 4, "values +-1/(2 L) with L the length of that edge; signs (+,-) upper, (-,+) lower", GRID_, g.name, g.lineno, "bc reference edge values",
            "values are %s, expected %s" % (vals, want))


def _resolve_expr(node, defs):
    """Copy of an index expression with single-definition locals inlined (for collecting the names it depends on)."""
    import copy

    class T(ast.NodeTransformer):
        def visit_Name(self, n):
            d = defs.lookup(n.id, getattr(n, "lineno", None))
            if d is not None and d[0] == "expr" and isinstance(d[1], (ast.BinOp, ast.Constant, ast.Name)):
                return self.visit(copy.deepcopy(d[1]))
            return n

    return T().visit(copy.deepcopy(node))


def local_numbering_tables(ctx):
    """The literal tables that tie barycentric / dual dofs to LOCAL vertices and edges of the coarse element (also run
    by C03: an operator is invariant under a cyclic rotation of local vertex orders only if these follow the library's
    local edge numbering (0,1), (2,0), (1,2))."""
    B, ln = bary.barycentric_table(ctx)
    pts = bary.ref_points(ctx)
    ctx.sample({"barycentric_table": B})
    p1_table(ctx, B, pts)
    dual0(ctx, B)
    dual1(ctx, B)
    rwg_tables(ctx, B, pts)
    bc_reference_edge(ctx, B)


def run(ctx):
    local_numbering_tables(ctx)
    bcfan.fan_bundles(ctx)
    bary_inherit(ctx)
    bary_family(ctx)
    compat(ctx)
    compat_use(ctx)
    idxspace.index_spaces(ctx)
    dualasm.dual1_assembly(ctx)
    baryvert.barycentric_vertices(ctx)
    from . import c11 as _c11

    _c11.refinement(ctx)  # barycentric spaces live on the barycentric grid: its children, midpoints and inherited domain indices
    from .. import misc_guards as _mg, spaces as _sp

    _mg.inverse_dof_map(ctx)  # (tools/wiring.py) barycentric / dual spaces are built from the coarse space's dof maps and segment options
    _sp.normal_multipliers(ctx)
    from .. import bcsupport as _bcs

    _bcs.bc_support(ctx)  # (tools/wiring.py) which barycentric cells carry a BC / RBC function: the whole vertex patches of its edge
    from .. import spaces as _spc

    _spc.paired_defaults(ctx)  # RWG / SNC and BC / RBC are built from the same options under the same keywords
    from .. import p1dofs as _p1d, rwgdofs as _rwd

    _p1d.p1_dof_decisions(ctx)  # (tools/wiring.py) DUAL0 / barycentric P1 are built on the coarse P1 dof map, BC / RBC on the coarse RWG one
    _rwd.rwg_dof_decisions(ctx)


REPRESENTATION_DEPENDENT = {"grid", "support", "support_elements", "number_of_support_elements", "local2global", "global2local", "local_multipliers", "normal_multipliers",
                            "shapeset", "numba_evaluate", "numba_surface_gradient", "numba_surface_curl", "localised_space", "color_map", "collocation_points", "number_of_shape_functions",
                            "map_to_localised_space", "map_to_full_grid", "is_barycentric", "evaluate", "surface_gradient", "mass_matrix", "inverse_mass_matrix", "get_elements_by_color"}


def compat_use(ctx):
    """After `a, b = return_compatible_representation(x, y)` an assembler reads the tables of a and b only: the originals
    x, y may live on the coarse grid while a, b live on the barycentric one, and a test or table that mixes the two
    (`x.grid != b.grid`) compares objects of different representations.  Dof counts and identifiers are the same in
    both representations and may be read from either."""
    r = ctx.rule("COMPAT-USE", "after return_compatible_representation the assemblers and the grid-function constructor read grid, support, dof-map and evaluator tables from the converted spaces only, never from the originals", 4)
    sites = [("bempp_cl/core/sparse_assembler.py", "SparseAssembler.assemble"), ("bempp_cl/core/singular_assembler.py", "SingularAssembler.assemble"),
             ("bempp_cl/api/fmm/fmm_assembler.py", "FmmAssembler.assemble"), ("bempp_cl/api/assembly/grid_function.py", "GridFunction.__init__")]
    for rel, qn in sites:
        fn = ctx.repo.mod(rel).fn(qn)
        conv = [st for st in ast.walk(fn) if isinstance(st, ast.Assign) and isinstance(st.value, ast.Call) and unparse(st.value.func).split(".")[-1] == "return_compatible_representation"]
        if len(conv) != 1:
            raise AnalysisError("%s: expected one call of return_compatible_representation" % qn)
        st = conv[0]
        tg = st.targets[0]
        new = [unparse(e) for e in (tg.elts if isinstance(tg, ast.Tuple) else [tg])]
        orig = [unparse(a) for a in st.value.args]
        if len(new) != len(orig):
            raise AnalysisError("%s: converted spaces are not unpacked one to one" % qn)
        bad = []
        for n in ast.walk(fn):
            if isinstance(n, ast.Attribute) and n.attr in REPRESENTATION_DEPENDENT and unparse(n.value) in orig and unparse(n.value) not in new and n.lineno > st.lineno:
                bad.append((n.lineno, unparse(n)))
        r.check(not bad, qn, rel, qn, bad[0][0] if bad else fn.lineno, "reads of the unconverted spaces in %s" % qn,
                "after the conversion `%s` the function still reads %s: for a coarse-grid space paired with a barycentric one these belong to different grids / representations than the converted `%s`" % (
                    unparse(st)[:70], ", ".join("`%s` (line %d)" % (t, l) for l, t in bad[:4]), ", ".join(new)))


def _builder_chains(fn):
    """[(grid argument, {setter name: argument node})] of every SpaceBuilder(...).set_x(...)...build() chain in fn."""
    out = []
    defs = roles.Defs(fn)

    def through(x):
        """A local naming the first part of a chain (`b = SpaceBuilder(g).set_a(..)`; `b.set_b(..).build()`) is read through."""
        k = 0
        while isinstance(x, ast.Name) and k < 10:
            dd = defs.lookup(x.id, getattr(x, "lineno", None))
            if dd is None or dd[0] != "expr":
                break
            x, k = dd[1], k + 1
        return x

    for n in ast.walk(fn):
        if isinstance(n, ast.Call) and isinstance(n.func, ast.Attribute) and n.func.attr == "build":
            d, cur = {}, through(n.func.value)
            while isinstance(cur, ast.Call) and isinstance(cur.func, ast.Attribute):
                d[cur.func.attr] = cur.args[0] if cur.args else None
                cur = through(cur.func.value)
            if isinstance(cur, ast.Call) and unparse(cur.func) == "SpaceBuilder" and cur.args:
                out.append((cur.args[0], d, n))
    return out


def bary_inherit(ctx):
    """Every space built on the barycentric refinement gives sub-triangle 6e+j the data of coarse element e: support =
    the six sub-triangles of every coarse support element, normal multiplier = that of the coarse element."""
    r = ctx.rule("BARY-INHERIT", "spaces on the barycentric grid: sub-triangle 6e+j is in the support iff coarse element e is, and inherits e's normal multiplier (repeat(.., 6), never tile)", 8)
    n = 0
    for rel in (SS, DS, MS):
        m = ctx.repo.mod(rel)
        for qn, fn in m.functions.items():
            if "." in qn or "<" in qn:
                continue
            for g, d, node in _builder_chains(fn):
                defs = roles.Defs(fn)
                gg = roles.canon(g, defs).replace(" ", "")
                if not gg.endswith(".barycentric_refinement"):
                    continue
                n += 1
                nm = d.get("set_normal_multipliers")
                sup = d.get("set_support")
                got_nm = roles.canon(nm, defs).replace(" ", "") if nm is not None else None
                got_sup = roles.canon(sup, defs).replace(" ", "") if sup is not None else None
                why = []
                mbc = re.match(r"_compute_bc_space_data\(.*\)\[(\d+)\]$", got_nm or "")
                if mbc:
                    # BC / RBC: both tables come out of _compute_bc_space_data; follow them into the helpers
                    ok = _bc_tables(ctx, int(mbc.group(1)), int(re.match(r"_compute_bc_space_data\(.*\)\[(\d+)\]$", got_sup).group(1)) if got_sup and got_sup.startswith("_compute_bc_space_data(") else None, why)
                else:
                    # the coarse space: a parameter or a space built in the function
                    m_ = re.fullmatch(r"_np\.repeat\((.+)\.normal_multipliers,6\)", got_nm or "")
                    ok = m_ is not None
                    if not ok:
                        why.append("normal multipliers are `%s`, expected _np.repeat(<coarse space>.normal_multipliers, 6)" % got_nm)
                    else:
                        C = m_.group(1)
                        if not isinstance(sup, ast.Name):
                            ok = False
                            why.append("support is not a local mask")
                        else:
                            marks = [s for s in roles.stores(fn.body, defs, lv=False) if isinstance(s.tnode, ast.Subscript) and unparse(s.tnode.value) == sup.id and s.value == "True" and not s.loops and not s.guards]
                            want_idx = {"((6*_np.repeat(%s.support_elements,6))+_np.tile(_np.arange(6),%s.number_of_support_elements))" % (C, C),
                                        "((6*_np.repeat(%s.support_elements,6))+_np.tile(_np.arange(6),len(%s.support_elements)))" % (C, C)}
                            idx_ok = len(marks) == 1 and roles.canon(marks[0].tnode.slice, defs).replace(" ", "") in want_idx
                            if not idx_ok:
                                # dual1 lists the coarse support through a comprehension: accept the same formula over any coarse element list
                                idx_ok = len(marks) == 1 and re.fullmatch(r"\(\(6\*_np\.repeat\((.+),6\)\)\+_np\.tile\(_np\.arange\(6\),len\(\1\)\)\)", roles.canon(marks[0].tnode.slice, defs).replace(" ", "")) is not None
                            if not idx_ok:
                                ok = False
                                why.append("support marks `%s`, expected the sub-triangles 6*e + (0..5) of every coarse support element e" % (roles.canon(marks[0].tnode.slice, defs)[:120] if marks else None))
                r.check(ok, "%s::%s" % (rel.split("/")[-1], qn), rel, qn, node.lineno, "barycentric inheritance in " + qn, "; ".join(why))
    if n < 8:
        raise AnalysisError("only %d spaces on the barycentric refinement found (8 confirmed by hand)" % n)
    bad = ast.parse("def f(coarse_space):\n    s = _np.zeros(9)\n    return SpaceBuilder(coarse_space.grid.barycentric_refinement).set_support(s).set_normal_multipliers(_np.tile(coarse_space.normal_multipliers, 6)).build()").body[0]
    g, d, _ = _builder_chains(bad)[0]
    r.must_fire(re.fullmatch(r"_np\.repeat\((.+)\.normal_multipliers,6\)", roles.canon(d["set_normal_multipliers"], roles.Defs(bad)).replace(" ", "")) is None, "tile instead of repeat")


def bary_family(ctx):
    """The barycentric representation registered by a coarse space is a space of the same family: same identifier,
    codomain dimension, polynomial order and evaluator / gradient functions (the data-independent part of
    'represents the same functions')."""
    r = ctx.rule("BARY-SAME-FAMILY", "a space and its barycentric representation agree in identifier, codomain dimension, order, numba evaluator and surface gradient", 4)
    chains = {}
    for rel in (SS, DS, MS):
        m = ctx.repo.mod(rel)
        for qn, fn in m.functions.items():
            if "." in qn or "<" in qn:
                continue
            cs = _builder_chains(fn)
            if len(cs) == 1:
                defs = roles.Defs(fn)
                chains[qn] = (rel, fn, {k: (roles.canon(v, defs).replace(" ", "") if v is not None else None) for k, v in cs[0][1].items()})
    n = 0
    for qn, (rel, fn, d) in sorted(chains.items()):
        tgt = d.get("set_barycentric_representation")
        if tgt is None:
            continue
        n += 1
        if tgt not in chains:
            r.fail(qn, rel, qn, fn.lineno, "barycentric representation of " + qn, "registered barycentric representation `%s` is not a space constructor" % tgt)
            continue
        b = chains[tgt][2]
        diff = []
        for key in ("set_identifier", "set_codomain_dimension", "set_order", "set_numba_evaluator", "set_numba_surface_gradient"):
            if d.get(key) != b.get(key):
                diff.append("%s: %s vs %s" % (key[4:], d.get(key), b.get(key)))
        r.check(not diff and b.get("set_is_barycentric") == "True", "%s -> %s" % (qn, tgt), chains[tgt][0], tgt, chains[tgt][1].lineno, "family of %s vs %s" % (qn, tgt),
                "the barycentric representation differs from the coarse space in: %s" % "; ".join(diff))
    if n < 4:
        raise AnalysisError("only %d spaces register a barycentric representation (4 confirmed by hand)" % n)


def _bc_tables(ctx, pos_nm, pos_sup, why):
    f = ctx.repo.mod(MS).fn("_compute_bc_space_data")
    d = roles.Defs(f)
    rets = [s for s in f.body if isinstance(s, ast.Return)]
    if len(rets) != 1 or not isinstance(rets[0].value, ast.Tuple):
        why.append("_compute_bc_space_data does not return a tuple")
        return False
    nm = roles.canon(rets[0].value.elts[pos_nm], d).replace(" ", "")
    k = re.match(r"_get_data_multipliers\(.*\)\[(\d+)\]$", nm)
    g = ctx.repo.mod(GRID_).fn("_get_data_multipliers")
    gd = roles.Defs(g)
    gr = [s for s in g.body if isinstance(s, ast.Return)]
    ok = bool(k) and len(gr) == 1 and isinstance(gr[0].value, ast.Tuple)
    if ok:
        cs = [a.arg for a in g.args.args]
        got = roles.canon(gr[0].value.elts[int(k.group(1))], gd).replace(" ", "")
        ok = got == "_np.repeat(coarse_space.normal_multipliers,6)" and "coarse_space" in cs
        if not ok:
            why.append("BC normal multipliers are `%s`" % got[:100])
    else:
        why.append("BC normal multipliers do not come from _get_data_multipliers")
    if pos_sup is not None:
        sp = roles.canon(rets[0].value.elts[pos_sup], d).replace(" ", "")
        if not sp.startswith("_get_barycentric_support("):
            ok = False
            why.append("BC support is `%s`" % sp[:80])
    return ok
