"""C10 — Barycentric and dual-grid spaces represent the functions they claim to."""

import ast
from fractions import Fraction as F

from .. import bary, roles, shapesets as S
from ..core import AnalysisError
from ..src import unparse

LEVEL = "other"
TECHNIQUE = "literal-table lint: coefficient/dof tables re-derived in exact rationals from the connectivity pattern extracted from the code"
LEVEL_TEXT = (
    "The sub-triangle numbering of the barycentric refinement is extracted from the code as a symbolic 6x3 table; "
    "every dependent literal table (P1 barycentric coefficients, DUAL0 element pairs, DUAL1 dof lists and values, "
    "RWG/SNC barycentric coefficients and edge-length multipliers, BC reference-edge sub-triangles) is re-derived from "
    "it on the reference triangle in exact arithmetic and compared entry by entry.  By affinity the result holds on "
    "every grid."
)
LEVEL_NOTE = (
    "Exhaustive over the literal tables.  Not decided: the data-dependent Buffa-Christiansen fan coefficients, "
    "mixed mass matrices as numbers, DOF bookkeeping loops on arbitrary meshes."
)
EXPLANATION = (
    "tables derived from the 18 connectivity assignments and _EDGE_LOCAL: P1 nodal values, dual dof slots, exact "
    "normal fluxes of the reference RT0 functions through the 18 sub-edges; compared with the literals in the sources"
)
ASSUMPTIONS = [
    "shape functions are affine/RT0 on each sub-triangle, so agreement at the three sub-triangle vertices (P1) or of the three edge fluxes (RT0) is agreement everywhere",
    "barycentric dof numbering 3*(6*element + j) + r as set by local2global[support] = arange(...).reshape(-1, 3)",
]

SS = "bempp_cl/api/space/scalar_spaces.py"
DS = "bempp_cl/api/space/scalar_dual_spaces.py"
MS = "bempp_cl/api/space/maxwell_spaces.py"
SP = "bempp_cl/api/space/space.py"


def _find_assign(fn, name):
    for st in ast.walk(fn):
        if isinstance(st, ast.Assign) and len(st.targets) == 1 and isinstance(st.targets[0], ast.Name) and st.targets[0].id == name:
            return st
    return None


def p1_table(ctx, B, pts):
    m = ctx.repo.mod(SS)
    fn = m.fn("p1_barycentric_continuous_function_space")
    st = _find_assign(fn, "coeffs")
    if st is None:
        raise AnalysisError("p1 barycentric `coeffs` table vanished")
    got = bary.frac_table(st.value)
    r = ctx.rule("P1-BARY", "P1 barycentric coefficients: coeffs[k][j][r] == phi_k(vertex r of sub-triangle j)", 3)
    if len(got) != 3 or any(len(t) != 6 or any(len(row) != 3 for row in t) for t in got):
        raise AnalysisError("p1 barycentric coeffs is not 3 x 6 x 3")
    for k in range(3):
        want = [[bary.phi(k, pts[B[j][rr]]) for rr in range(3)] for j in range(6)]
        ok = got[k] == want
        detail = ""
        if not ok:
            # diagnose a row rotation
            for s in range(1, 6):
                if [got[k][(j + s) % 6] for j in range(6)] == want:
                    detail = " (rows are displaced by %d sub-triangle(s))" % s
            bad = [(j, [str(x) for x in got[k][j]], [str(x) for x in want[j]]) for j in range(6) if got[k][j] != want[j]][:2]
            detail += " first mismatches (row, literal, derived): %s" % bad
        r.check(ok, "coeffs[%d]" % k, SS, fn.name, st.lineno, "p1 barycentric coeffs[%d]" % k,
                "literal table differs from the nodal values of coarse function %d on the sub-triangles%s" % (k, detail))
    # placement: 18 values per coarse dof, row-major, starting at bary dof 3*(6*index)
    g = m.fn("generate_p1_map")
    src = unparse(g).replace(" ", "")
    okp = ("bary_elements=_np.arange(6)+6*index" in src and "_np.arange(3*bary_elements[0],3*bary_elements[0]+18)" in src
           and "values[count:count+18]=bary_coeffs.ravel()" in src and "bary_coeffs=coeffs[local_dof]" in src and "coarse_dof=3*index+local_dof" in src)
    r2 = ctx.rule("P1-BARY-PLACE", "generate_p1_map writes row j of coeffs[k] to the dofs of barycentric element 6*index + j, coarse dof 3*index + k", 1)
    r2.check(okp, "generate_p1_map", SS, "generate_p1_map", g.lineno, "generate_p1_map placement", "placement statements changed shape")


def dual0(ctx, B):
    m = ctx.repo.mod(DS)
    fn = m.fn("dual0_function_space")
    r = ctx.rule("DUAL0-ELEMENTS", "DUAL0: the two sub-triangles attached to coarse vertex v are exactly those containing V_v", 3)
    # find the two appended bary dof expressions: 6*face_n + f(vertex)
    exprs = []
    for n in ast.walk(fn):
        if isinstance(n, ast.Call) and isinstance(n.func, ast.Attribute) and n.func.attr == "append" and unparse(n.func.value) == "_bary_dofs":
            exprs.append(n.args[0])
    if len(exprs) != 2:
        raise AnalysisError("dual0: expected two _bary_dofs.append sites, found %d" % len(exprs))

    def ev(node, env):
        if isinstance(node, ast.Constant):
            return node.value
        if isinstance(node, ast.Name):
            return env[node.id]
        if isinstance(node, ast.BinOp):
            a, b = ev(node.left, env), ev(node.right, env)
            return {ast.Add: a + b, ast.Sub: a - b, ast.Mult: a * b, ast.Mod: a % b if b else 0, ast.FloorDiv: a // b if b else 0}[type(node.op)]
        raise AnalysisError("dual0: unsupported dof expression %s" % unparse(node))

    for v in range(3):
        try:
            got = sorted(ev(e, {"face_n": 0, "vertex": v}) for e in exprs)
        except KeyError as ke:
            raise AnalysisError("dual0: dof expression uses unknown name %s" % ke)
        want = sorted(j for j in range(6) if "V%d" % v in B[j])
        r.check(got == want, "vertex %d" % v, DS, fn.name, exprs[0].lineno, "dual0 sub-triangles of vertex %d" % v,
                "code attaches sub-triangles %s to coarse vertex %d, the refinement puts V%d in %s" % (got, v, v, want))


def _dual1_lists(fn):
    """The three `for n in [..]` / enumerate([[..],..]) literal dof lists with their values."""
    out = {}
    for node in ast.walk(fn):
        if isinstance(node, ast.For) and isinstance(node.iter, ast.List) and all(isinstance(e, ast.Constant) for e in node.iter.elts):
            vals = [s for s in ast.walk(node) if isinstance(s, ast.Assign) and unparse(s.targets[0]) == "values[count]"]
            if len(vals) == 1:
                out.setdefault("centre", []).append(([e.value for e in node.iter.elts], vals[0].value, node.lineno))
        if (isinstance(node, ast.For) and isinstance(node.iter, ast.Call) and unparse(node.iter.func) == "enumerate"
                and isinstance(node.iter.args[0], ast.List) and all(isinstance(e, ast.List) for e in node.iter.args[0].elts)):
            lists = [[c.value for c in e.elts] for e in node.iter.args[0].elts]
            vals = [s for s in ast.walk(node) if isinstance(s, ast.Assign) and unparse(s.targets[0]) == "values[count]"]
            conds = [s for s in node.body if isinstance(s, ast.If)]
            kind = None
            if conds:
                t = unparse(conds[0].test)
                if "element_edges" in t:
                    kind = "edge"
                elif ".elements" in t:
                    kind = "vertex"
            if kind and len(vals) == 1:
                out.setdefault(kind, []).append((lists, vals[0].value, node.lineno))
    return out


def dual1(ctx, B):
    m = ctx.repo.mod(DS)
    fn = m.fn("dual1_function_space")
    L = _dual1_lists(fn)
    for kind in ("centre", "edge", "vertex"):
        if len(L.get(kind, [])) != 1:
            raise AnalysisError("dual1: cannot locate the %s dof list" % kind)
    slot = lambda sym: sorted(3 * j + rr for j in range(6) for rr in range(3) if B[j][rr] == sym)
    r = ctx.rule("DUAL1-DOFS", "DUAL1: barycentre / edge-midpoint / vertex dof lists are the slots of C / M_e / V_v in the refinement table", 7)
    lst, val, ln = L["centre"][0]
    r.check(sorted(lst) == slot("C"), "barycentre dofs", DS, fn.name, ln, "dual1 barycentre dofs %s" % lst,
            "barycentre value is written to dofs %s; the barycentre C occupies dofs %s (those listed are %s)"
            % (lst, slot("C"), _who(B, lst)))
    lists, val_e, ln_e = L["edge"][0]
    for e in range(3):
        r.check(sorted(lists[e]) == slot("M%d" % e), "edge %d dofs" % e, DS, fn.name, ln_e, "dual1 edge %d dofs %s" % (e, lists[e]),
                "edge-midpoint value of edge %d is written to dofs %s; M%d occupies %s" % (e, lists[e], e, slot("M%d" % e)))
    lists, val_v, ln_v = L["vertex"][0]
    for v in range(3):
        r.check(sorted(lists[v]) == slot("V%d" % v), "vertex %d dofs" % v, DS, fn.name, ln_v, "dual1 vertex %d dofs %s" % (v, lists[v]),
                "vertex value of vertex %d is written to dofs %s; V%d occupies %s" % (v, lists[v], v, slot("V%d" % v)))
    r2 = ctx.rule("DUAL1-VALUES", "DUAL1 nodal values: 1 at the barycentre, 1/2 at edge midpoints, 1/valence at vertices", 3)
    r2.check(_is_num(val, 1), "barycentre value", DS, fn.name, ln, "dual1 barycentre value " + unparse(val), "barycentre value is %s, documented 1" % unparse(val))
    r2.check(_is_num(val_e, F(1, 2)), "edge value", DS, fn.name, ln_e, "dual1 edge value " + unparse(val_e), "edge midpoint value is %s, documented 1/2" % unparse(val_e))
    okv = isinstance(val_v, ast.BinOp) and isinstance(val_v.op, ast.Div) and _is_num(val_v.left, 1) and isinstance(val_v.right, ast.Name)
    if okv:
        # resolve the divisor inside the loop that contains the assignment (names are re-bound in an earlier counting pass)
        holder = None
        for node in ast.walk(fn):
            if isinstance(node, ast.For) and any(s is L["vertex"][0][1] for s in ast.walk(node)):
                if isinstance(node.iter, ast.Call) and unparse(node.iter) == "range(3)":
                    holder = node
        cnt = ""
        if holder is not None:
            shim = ast.FunctionDef(name="_", args=fn.args, body=holder.body, decorator_list=[], lineno=holder.lineno)
            cnt = roles.canon(val_v.right, roles.Defs(shim)).replace(" ", "")
        import re

        mm = re.fullmatch(r"\((.+)\.indexptr\[\(1\+(.+)\)\]-(.+)\.indexptr\[(.+)\]\)", cnt)
        okv = bool(mm) and mm.group(1) == mm.group(3) and mm.group(2) == mm.group(4) and mm.group(1).endswith("vertex_neighbors")
    r2.check(okv, "vertex value", DS, fn.name, ln_v, "dual1 vertex value " + unparse(val_v),
             "vertex value is %s, documented 1/(number of coarse triangles at the vertex)" % unparse(val_v))


def _who(B, lst):
    names = []
    for d in lst:
        j, rr = divmod(d, 3)
        names.append(B[j][rr] if 0 <= j < 6 else "?")
    return names


def _is_num(node, val):
    try:
        return bary.frac(node) == F(val)
    except AnalysisError:
        return False


def rwg_tables(ctx, B, pts):
    """RWG / SNC barycentric coefficient tables and the edge-length multipliers of generate_rwg0_map."""
    m = ctx.repo.mod(MS)
    el = bary.edge_local(ctx)
    sreg = S.registry(ctx)
    ent = sreg["rwg0"]
    py = S.evaluate(ctx, ent["evaluate"], 2, 3)  # py[c][f] over ξ0, ξ1

    def ref_fun(k, p):
        env = {"ξ0": S.V.const(p[0]), "ξ1": S.V.const(p[1])}
        out = []
        for c in range(2):
            v = py[c][k].subs(env).aspoly()
            out.append(v.constval().re if v is not None else None)
        return out

    # exact flux of reference function k through sub-edge l of sub-triangle j (outward)
    def flux(k, j, l):
        a, b = el[l]
        p, q = pts[B[j][a]], pts[B[j][b]]
        mid = ((p[0] + q[0]) / 2, (p[1] + q[1]) / 2)
        n = (q[1] - p[1], -(q[0] - p[0]))  # outward normal * length for a positively oriented triangle
        f = ref_fun(k, mid)
        return f[0] * n[0] + f[1] * n[1]

    def on_coarse_edge(j, l):
        a, b = el[l]
        s, t = B[j][a], B[j][b]
        for e, (u, v) in enumerate(el):
            if {s, t} in ({"V%d" % u, "M%d" % e}, {"V%d" % v, "M%d" % e}):
                return e
        return None

    want = [[[flux(k, j, l) * (2 if on_coarse_edge(j, l) is not None else 1) for l in range(3)] for j in range(6)] for k in range(3)]
    r = ctx.rule("RWG-BARY", "RWG/SNC barycentric coefficients == exact normal fluxes of the reference RT0 functions through the 18 sub-edges (x2 on outer half-edges)", 6)
    tables = {}
    for fname in ("rwg0_barycentric_function_space", "snc0_barycentric_function_space"):
        fn = m.fn(fname)
        st = _find_assign(fn, "coeffs")
        lc = _find_assign(fn, "local_coords")
        if st is None or lc is None:
            raise AnalysisError("%s: coeffs/local_coords table vanished" % fname)
        got = bary.frac_table(st.value)
        tables[fname] = (got, bary.frac_table(lc.value))
        for k in range(3):
            ok = got[k] == want[k]
            bad = [(j, [str(x) for x in got[k][j]], [str(x) for x in want[k][j]]) for j in range(6) if got[k][j] != want[k][j]][:2]
            r.check(ok, "%s coeffs[%d]" % (fname, k), MS, fname, st.lineno, "%s coeffs[%d]" % (fname, k),
                    "literal table differs from the exact sub-edge fluxes of coarse function %d; (row, literal, derived): %s" % (k, bad))
    # edge-length multipliers
    g = m.fn("generate_rwg0_map")
    r2 = ctx.rule("RWG-BARY-LEN", "generate_rwg0_map: dof_mult[j][l] is the length of sub-edge l of sub-triangle j (full coarse edge for outer halves); outer_edges[k] is coarse edge k", 19)
    seg = {}
    for stt in ast.walk(g):
        if isinstance(stt, ast.Assign) and isinstance(stt.targets[0], ast.Name) and isinstance(stt.value, ast.Call) and unparse(stt.value.func).endswith("linalg.norm"):
            arg = stt.value.args[0]
            if isinstance(arg, ast.BinOp) and isinstance(arg.op, ast.Sub):
                idx = []
                for side in (arg.left, arg.right):
                    if (isinstance(side, ast.Subscript) and isinstance(side.slice, ast.Tuple) and isinstance(side.slice.elts[0], ast.Slice)
                            and isinstance(side.slice.elts[1], ast.Constant)):
                        idx.append(side.slice.elts[1].value)
                if len(idx) == 2:
                    seg[stt.targets[0].id] = tuple(idx)
    dm = _find_assign(g, "dof_mult")
    oe = _find_assign(g, "outer_edges")
    if dm is None or oe is None:
        raise AnalysisError("generate_rwg0_map: dof_mult / outer_edges vanished")
    node = dm.value.args[0] if isinstance(dm.value, ast.Call) else dm.value
    lc = tables["rwg0_barycentric_function_space"][1]  # 2 x 7 (after .T)
    loc = [(lc[0][i], lc[1][i]) for i in range(len(lc[0]))]
    r3 = ctx.rule("RWG-BARY-COORDS", "local_coords lists V0,M0,V1,M2,V2,M1,C in the order generate_rwg0_map indexes them; both copies identical", 2)
    r3.check(tables["rwg0_barycentric_function_space"][1] == tables["snc0_barycentric_function_space"][1]
             and tables["rwg0_barycentric_function_space"][0] == tables["snc0_barycentric_function_space"][0],
             "rwg0 vs snc0 literal tables", MS, "snc0_barycentric_function_space", m.fn("snc0_barycentric_function_space").lineno,
             "snc0 barycentric tables differ from rwg0", "the two literal copies (RWG, SNC) of coeffs/local_coords differ")
    r3.check(set(loc) == set(pts.values()) and len(loc) == 7, "local_coords point set", MS, "rwg0_barycentric_function_space",
             m.fn("rwg0_barycentric_function_space").lineno, "local_coords points", "local_coords is not the set {V0,V1,V2,M0,M1,M2,C}")

    def segpts(name):
        if name not in seg:
            return None
        return frozenset(loc[i] for i in seg[name])

    for j in range(6):
        for l in range(3):
            cell = node.elts[j].elts[l]
            nm = cell.id if isinstance(cell, ast.Name) else None
            a, b = el[l]
            e = on_coarse_edge(j, l)
            if e is None:
                wantseg = frozenset([pts[B[j][a]], pts[B[j][b]]])
            else:
                wantseg = frozenset([pts["V%d" % el[e][0]], pts["V%d" % el[e][1]]])
            r2.check(nm is not None and segpts(nm) == wantseg, "dof_mult[%d][%d]" % (j, l), MS, "generate_rwg0_map", dm.lineno,
                     "dof_mult[%d][%d] = %s" % (j, l, unparse(cell)),
                     "entry `%s` is not the length of sub-edge %d of sub-triangle %d (%s-%s)" % (unparse(cell), l, j, B[j][a], B[j][b]))
    oes = [c.id if isinstance(c, ast.Name) else None for c in oe.value.elts]
    okoe = len(oes) == 3 and all(segpts(oes[k]) == frozenset([pts["V%d" % el[k][0]], pts["V%d" % el[k][1]]]) for k in range(3))
    r2.check(okoe, "outer_edges", MS, "generate_rwg0_map", oe.lineno, "outer_edges = %s" % unparse(oe.value), "outer_edges[k] is not the length of coarse edge k")
    src = unparse(g).replace(" ", "")
    okp = ("dof_coeffs=bary_coeffs*outer_edges[local_dof]/dof_mult" in src and "bary_coeffs=coeffs[local_dof]" in src
           and "_np.arange(3*bary_elements[0],3*bary_elements[0]+18)" in src and "values[count:count+18]=dof_coeffs.ravel()" in src
           and "bary_elements=_np.arange(6)+6*index" in src and "coarse_dof=3*index+local_dof" in src)
    r4 = ctx.rule("RWG-BARY-PLACE", "generate_rwg0_map scales coeffs[k] by outer_edges[k]/dof_mult and writes row j to barycentric element 6*index + j", 1)
    r4.check(okp, "generate_rwg0_map", MS, "generate_rwg0_map", g.lineno, "generate_rwg0_map placement", "placement/scaling statements changed shape")


def compat(ctx):
    """return_compatible_representation switches all spaces as soon as one is barycentric; assemblers call it first."""
    m = ctx.repo.mod(SP)
    fn = m.fn("return_compatible_representation")
    r = ctx.rule("COMPAT-REPR", "return_compatible_representation converts every space when any is barycentric and raises if one has no barycentric form; sparse and singular assemblers call it before reading space tables", 3)
    src = unparse(fn)
    has_any = any(isinstance(n, ast.For) or isinstance(n, ast.ListComp) or isinstance(n, ast.GeneratorExp) for n in ast.walk(fn))
    raises = any(isinstance(n, ast.Raise) for n in ast.walk(fn))
    calls_bary = "barycentric_representation" in src and "is_barycentric" in src
    r.check(has_any and raises and calls_bary, "return_compatible_representation", SP, fn.name, fn.lineno, "compatible representation switch",
            "function no longer tests is_barycentric / converts with barycentric_representation / raises for spaces without one")
    for rel, fname in (("bempp_cl/core/sparse_assembler.py", "SparseAssembler.assemble"), ("bempp_cl/core/singular_assembler.py", "SingularAssembler.assemble")):
        mm = ctx.repo.mod(rel)
        f = mm.fn(fname)
        first_use = None
        call_line = None
        for n in ast.walk(f):
            if isinstance(n, ast.Call) and unparse(n.func).endswith("return_compatible_representation"):
                call_line = n.lineno if call_line is None else min(call_line, n.lineno)
            if isinstance(n, ast.Attribute) and n.attr in ("local2global", "local_multipliers", "global_dof_count", "support_elements", "grid_dof_count"):
                first_use = n.lineno if first_use is None else min(first_use, n.lineno)
        ok = call_line is not None and (first_use is None or call_line <= first_use)
        # and the tables must be read from the *returned* spaces, not from self.*
        uses_self = [n.lineno for n in ast.walk(f) if isinstance(n, ast.Attribute) and n.attr in ("local2global", "local_multipliers")
                     and unparse(n.value).startswith("self.")]
        r.check(ok and not uses_self, fname, rel, fname, f.lineno, "compatible representation in " + fname,
                "dof tables are read before / without return_compatible_representation (lines %s)" % (uses_self or [first_use]))


def run(ctx):
    B, ln = bary.barycentric_table(ctx)
    pts = bary.ref_points(ctx)
    ctx.sample({"barycentric_table": B})
    p1_table(ctx, B, pts)
    dual0(ctx, B)
    dual1(ctx, B)
    rwg_tables(ctx, B, pts)
    compat(ctx)
