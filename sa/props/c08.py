"""C08 — Potentials and far fields satisfy their PDEs, normalisation and asymptotics."""

import ast

from . import c06, c11
from .. import assemblers as A
from .. import kernels as K
from .. import guards, roles, rules
from ..alg import I, INV4PI, Poly, V, cross, dot, vsum
from ..core import AnalysisError
from ..src import arg_names, unparse

LEVEL = "other"
TECHNIQUE = "symbolic differentiation of extracted kernel normal forms (PDE per kernel, Maxwell curl/div identities), potential kernels vs closed-form kernel sums, far-field closed form with complex wavenumber"
LEVEL_TEXT = (
    "Every potential kernel is proved equal to the closed-form kernel sum over the library's own quadrature points "
    "(all five potential/far-field assemblers); every Green's function used by a potential satisfies its PDE in the "
    "evaluation point identically (exact differentiation modulo D^2 = |x-y|^2), hence so does every potential since "
    "the per-source data are independent of the evaluation point; the Maxwell per-source contributions satisfy "
    "curl E = ik H and div H = 0 identically; far-field kernels are compared with exp(-ik x^.y)/(4 pi) for complex k."
)
LEVEL_NOTE = (
    "Not decided: curl H = -ik E and div E = 0 (need integration by parts over the surface), finite-difference "
    "accuracy, the limit r -> infinity as a limit (follows from the closed form by analysis)."
)
EXPLANATION = "rules POT-SUM, K-SPEC, K-TRANSLATION, K-PDE, MAXWELL-CURL-DIV (thorough), FARFIELD-REAL, FARFIELD-COMPLEX, FARFIELD-TRANSLATION, POT-REAL-ON-COMPLEX, FACTORY-*, PIOLA, EDGE-CONV, K-SIGN-GUARD"
ASSUMPTIONS = ["Numba arithmetic semantics", "per-source data are computed before the prange over evaluation points (checked: POT-SUM/source-data-hoisted)"]

NK = K.NK
D_ATOMS = [V.atom("d%d" % i) for i in range(3)]


def to_difference_form(v):
    """K(x, y) -> k(d), d = y - x, valid once translation invariance is established."""
    env = {}
    for i in range(3):
        env["y%d" % i] = D_ATOMS[i]
        env["x%d" % i] = V.const(0)
    return v.subs(env)


def run(ctx):
    rules.potential_kernels(ctx)
    guards.factory_guards(ctx, "potential")
    # purely imaginary wavenumbers are handed to the modified Helmholtz factories: which sibling, with which arguments
    from . import c05

    c05.dispatch(ctx)
    reg = K.registries(ctx)["kernel_functions_regular"]
    vals = rules.kernel_specs(ctx, ("laplace", "helmholtz", "modified_helmholtz"), include_singular=False)
    r_tr = ctx.rule("K-TRANSLATION", "Green's function kernels depend on the points only through y - x", 9)
    r_pde = ctx.rule("K-PDE", "single- and double-layer kernels satisfy Laplace / Helmholtz / modified Helmholtz in the evaluation point", 2)
    T = [V.atom("t%d" % i) for i in range(3)]
    shift = {}
    for i in range(3):
        shift["x%d" % i] = K.X[i] + T[i]
        shift["y%d" % i] = K.Y[i] + T[i]
    K2 = {"laplace": V.const(0), "helmholtz": K.K * K.K, "modified_helmholtz": -(K.W * K.W)}
    for (kt, sing), (fname, v) in sorted(vals.items()):
        ln = ctx.repo.mod(NK).fn(fname).lineno
        r_tr.check(v.subs(shift).eq(v), fname, NK, fname, ln, "translation invariance of " + fname, "kernel value changes when both points are translated by the same vector")
        fam, layer = K.split_type(kt)
        if layer in ("single_layer", "double_layer") and (ctx.thorough or layer == "single_layer"):
            kd = to_difference_form(v)
            lap = vsum(kd.diff("d%d" % i).diff("d%d" % i) for i in range(3))
            r_pde.check((lap + K2[fam] * kd).iszero(), "%s: Delta_x K + kappa^2 K = 0" % fname, NK, fname, ln, "PDE of " + fname,
                        "kernel does not satisfy the %s equation in the evaluation point" % fam)
    far_field(ctx, reg)
    if ctx.thorough:
        maxwell_identities(ctx)
    real_on_complex(ctx)
    rules.factory_sites(ctx, "potential")
    rules.factory_sites(ctx, "far_field")
    rules.launch_sites(ctx, which=("potential",))
    c06.piola(ctx)  # the Maxwell kernels read the Piola-mapped functions and edge lengths from these helpers
    c11.edge_convention(ctx)
    from .. import spaces as _spaces

    _spaces.localised_inherit(ctx)  # singular parts, sparse forms, potentials and FMM point maps are computed on the localised companion space
    from . import c05 as _c05

    _c05.dispatch(ctx)  # (tools/wiring.py) Helmholtz boundary and potential factories hand a purely imaginary wavenumber to the same modified-Helmholtz kernel with the same omega


def far_field(ctx, reg):
    r_re = ctx.rule("FARFIELD-REAL", "far-field kernels == exp(-ik x^.y)/(4 pi) (SL), -ik (x^.n_y) exp(-ik x^.y)/(4 pi) (DL) for real k", 2)
    r_cx = ctx.rule("FARFIELD-COMPLEX", "the same closed forms with complex k = k_r + i k_i (the wavenumbers the operators accept)", 2)
    r_tl = ctx.rule("FARFIELD-TRANSLATION", "translating the source by t multiplies the far-field kernel by exp(-ik x^.t)", 2)
    T = [V.atom("t%d" % i) for i in range(3)]
    for layer in ("single_layer", "double_layer"):
        kt = "helmholtz_far_field_" + layer
        if kt not in reg:
            raise AnalysisError("far-field kernel %s not registered" % kt)
        fname = reg[kt]
        v, ifs, okf = K.extract_checked(ctx, fname, False, 2)
        spec = K.far_field_spec(layer)
        ln = ctx.repo.mod(NK).fn(fname).lineno
        z = {"ki": Poly()}
        r_re.check(v.subs(z).eq(spec.subs(z)) and okf, fname, NK, fname, ln, "far field %s at real k" % layer, "kernel differs from the closed form already for real wavenumbers")
        r_cx.check(v.eq(spec), fname, NK, fname, ln, "far field %s ignores imag(k)" % layer,
                   "kernel differs from exp(-ik x^.y)/(4 pi)%s for complex k: the imaginary part of the wavenumber does not enter" % ("" if layer == "single_layer" else " * (-ik x^.n)"))
        sh = {"y%d" % i: K.Y[i] + T[i] for i in range(3)}
        phase = (-(I * K.KR * dot(K.X, T))).exp()
        r_tl.check(v.subs(z).subs(sh).eq(phase * v.subs(z)), fname, NK, fname, ln, "far field translation law " + layer, "translation law K(x^, y+t) = exp(-ik x^.t) K(x^, y) fails for real k")


def maxwell_identities(ctx):
    """Per-source contributions of the electric/magnetic potential specs (proved equal to the code by POT-SUM) with the
    registered Green's function: curl_x E = ik H, div_x H = 0."""
    r = ctx.rule("MAXWELL-CURL-DIV", "per-source Maxwell potential contributions satisfy curl E = ik H and div H = 0 identically", 2)
    G = K.spec("helmholtz_single_layer")
    a = [V.atom("a%d" % i) for i in range(3)]
    c = V.atom("c")
    k = K.K
    diff = [K.X[i] - K.Y[i] for i in range(3)]
    D = dot(diff, diff).sqrt()
    E = [G * (I * k * a[d] - diff[d] * (I * k * D - V.const(1)) * c / (I * k * D * D)) for d in range(3)]
    Hv = cross(diff, [G * (I * k * D - V.const(1)) * a[i] / (D * D) for i in range(3)])
    dx = lambda f, i: f.diff("x%d" % i)
    curlE = [dx(E[2], 1) - dx(E[1], 2), dx(E[0], 2) - dx(E[2], 0), dx(E[1], 0) - dx(E[0], 1)]
    ok1 = all(ce.eq(I * k * h) for ce, h in zip(curlE, Hv))
    divH = vsum(dx(Hv[i], i) for i in range(3))
    fn_e = K.registries(ctx)["assembly_function_potential"]["maxwell_electric_field"]
    fn_h = K.registries(ctx)["assembly_function_potential"]["maxwell_magnetic_field"]
    r.check(ok1, "curl E = ik H", NK, fn_e, ctx.repo.mod(NK).fn(fn_e).lineno, "curl E != ik H", "electric potential contribution's curl is not ik times the magnetic contribution")
    r.check(divH.iszero(), "div H = 0", NK, fn_h, ctx.repo.mod(NK).fn(fn_h).lineno, "div H != 0", "magnetic potential contribution is not divergence free")


def real_on_complex(ctx):
    """PotentialAssembler.evaluate over the four worlds (operator real / complex) x (coefficients real / complex): every
    return an execution can reach - a test the world does not decide (one that looks at the VALUES of x) is followed both
    ways - denotes E x as a linear map, with x = Re + i Im, np.real(x) = Re, np.imag(x) = Im; for a real operator and
    complex coefficients the implementation is only ever called on real arrays."""
    from .. import dispatch
    from ..proto import NC, NCEval

    rel = "bempp_cl/api/assembly/assembler.py"
    m = ctx.repo.mod(rel)
    fn = m.fn("PotentialAssembler.evaluate")
    x = arg_names(fn)[1]
    r = ctx.rule("POT-REAL-ON-COMPLEX", "PotentialAssembler.evaluate: in each of the four worlds (real / complex operator) x (real / complex coefficients) every reachable return is E(x) as a linear map; "
                 "a real operator never receives a complex array (it acts on real and imaginary parts: E(Re x) + 1j E(Im x))", 4)
    E, re, im, i_ = NC.op("E"), NC.op("Re"), NC.op("Im"), NC.scalar("i")
    for opc in (False, True):
        for xc in (False, True):
            env = {"self._is_complex": opc}
            for np_ in ("np", "_np", "numpy"):
                env["%s.iscomplexobj(%s)" % (np_, x)] = xc
                env["%s.isrealobj(%s)" % (np_, x)] = not xc
            full = re + i_ * im if xc else re
            leaves = {x: full}
            for np_ in ("np.", "_np.", "numpy.", ""):
                leaves["%sreal(%s)" % (np_, x)] = re
                leaves["%simag(%s)" % (np_, x)] = im if xc else NC.const(0)
            leaves["%s.real" % x] = re
            leaves["%s.imag" % x] = im if xc else NC.const(0)
            leaves["self._implementation"] = E
            inst = "%s operator, %s coefficients" % ("complex" if opc else "real", "complex" if xc else "real")
            rets = dispatch.reachable_returns(fn, env)
            bad = []
            for node in rets:
                if node is None or isinstance(node, str):
                    bad.append("a path %s" % ("raises" if node == "raise" else "returns nothing"))
                    continue
                node = roles.inline(node, roles.Defs(fn))
                got = NCEval(dict(leaves), morphisms=("evaluate",)).ev(node)  # (unreadable expression: cannot analyse)
                if got != E * full:
                    bad.append("`%s` denotes %r, not %r" % (unparse(node)[:90], got, E * full))
                if not opc and xc:
                    for c in ast.walk(node):
                        if isinstance(c, ast.Call) and isinstance(c.func, ast.Attribute) and c.func.attr == "evaluate" and any(isinstance(a, ast.Name) and a.id == x for a in c.args):
                            bad.append("`%s` hands the complex array to the real implementation" % unparse(c)[:60])
            r.check(bool(rets) and not bad, inst, rel, fn.name, fn.lineno, "potential evaluate, " + inst, "; ".join(bad) if bad else "no return")
