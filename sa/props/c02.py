"""C02 — Laplace potential operators reproduce Green's representation formula."""

from .. import factories, kernels as K, rules, spaces
from ..alg import V, vsum

LEVEL = "other"
TECHNIQUE = "symbolic extraction of the potential kernel and the Laplace kernels (exact algebra: sign, normalisation, normal derivative, harmonicity) + provenance typing of the coefficient map and launch site"
LEVEL_TEXT = (
    "Decides that S[d_n u] - D[u] is the representation formula and not its negative or a multiple: the single-layer "
    "kernel is G = 1/(4 pi r), the double-layer kernel is exactly d G / d n_y of that same extracted form, both are "
    "harmonic in the evaluation point, the potential kernel sums K * J * w * phi * coefficient over the support with "
    "normals multiplied by the normal multipliers, and the coefficient vector handed to it is map_to_full_grid @ "
    "(dof_transformation @ x) indexed nshape*element + local dof (segment-wise spaces included)."
)
LEVEL_NOTE = "Not decided: the quadrature error and its decay with the order (numerical)."
EXPLANATION = "rules K-SPEC(laplace), K-DERIV, K-HARMONIC (thorough), POT-SUM(default_scalar), LAUNCH-ROLES(potential), POT-COEFFS, SPACE-MAPS, FACTORY(laplace potentials)"
ASSUMPTIONS = ["grid tables (normals, integration elements) are what their names say (C11)", "Numba arithmetic semantics"]


def run(ctx):
    vals = rules.kernel_specs(ctx, ("laplace",), include_singular=False)
    sl = vals[("laplace_single_layer", False)]
    dl = vals[("laplace_double_layer", False)]
    r = ctx.rule("K-DERIV", "double-layer kernel == sum_i n_y,i * d/dy_i of the extracted single-layer kernel (same sign and normalisation)", 1)
    deriv = vsum(K.NY[i] * sl[1].diff("y%d" % i) for i in range(3))
    r.check(dl[1].eq(deriv), "%s vs d/dn_y %s" % (dl[0], sl[0]), K.NK, dl[0], ctx.repo.mod(K.NK).fn(dl[0]).lineno, "laplace DL != d/dn_y SL",
            "double-layer kernel is not the normal derivative (in y) of the single-layer kernel: Green's formula would have the wrong sign or scale")
    if ctx.thorough:
        rh = ctx.rule("K-HARMONIC", "Laplace single- and double-layer kernels are harmonic in the evaluation point", 2)
        for nm, (fname, v) in (("SL", sl), ("DL", dl)):
            lap = vsum(v.diff("x%d" % i).diff("x%d" % i) for i in range(3))
            rh.check(lap.iszero(), fname, K.NK, fname, ctx.repo.mod(K.NK).fn(fname).lineno, "laplacian of " + fname, "kernel is not harmonic in x")
    rules.potential_kernels(ctx, types=("default_scalar",))
    rules.launch_sites(ctx, which=("potential",))
    spaces.dense_potential_evaluator(ctx)
    spaces.coefficient_maps(ctx)
    spaces.localised_inherit(ctx)
    spaces.normal_multipliers(ctx)  # the double layer potential integrates against normal * multiplier
    rules.factory_sites(ctx, "potential", only_files=("laplace.py",))
    from .. import state as _state

    _state.process_state(ctx)  # spaces and their localised companions are built per space, not served from a module-level table under an incomplete key
    from .. import fx as _fx, argbind as _ab

    _fx.parameter_resolution(ctx)  # the quadrature order given with an operator is the order its assembler integrates with
    _fx.assembler_plumbing(ctx)
    _ab.forwarded_optionals(ctx)
    from . import c11 as _c11g

    _c11g.geometry(ctx)  # (tools/wiring.py) normals, Jacobians, integration elements against their definitions for a general triangle of any size
    from . import c08 as _c08

    _c08.real_on_complex(ctx)  # (tools/wiring.py) the Laplace potentials are real operators: complex densities of every complex dtype are split
