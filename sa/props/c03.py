"""C03 — Boundary operators are equivariant under motion, scaling and relabelling."""

from .. import duffy, kernels as K, rules, singular, spaces
from ..alg import V
from ..core import AnalysisError
from . import c11

LEVEL = "other"
TECHNIQUE = "symbolic substitution tests on extracted kernel normal forms (translation, homogeneity; rotation via the manifestly invariant closed form), remap/offset table lints, sign-rule lints"
LEVEL_TEXT = (
    "Decides for every Green's-function kernel (regular and singular variants) that it depends on the points only "
    "through y - x, equals a closed form that is manifestly rotation invariant, and is homogeneous of degree -1 "
    "(single layer) resp. -2 (double / adjoint double layer) under x -> s x, k -> k / s; that every assembler "
    "integrand is built from these kernels, Jacobians, reference shape functions and element normals only; that the "
    "remap and offset tables make the singular rule independent of which local vertices are shared; that normal "
    "multipliers are -1 exactly on swapped domains; that the edge sign rule is antisymmetric."
)
LEVEL_NOTE = "Not decided: the vectorised geometry code (_compute_geometric_quantities) and equality of assembled matrices as numbers."
EXPLANATION = "rules K-SPEC, K-TRANSLATION, K-HOMOGENEITY, ASM-REGULAR/SINGULAR, REMAP-AFFINE, SING-OFFSETS, SING-SEGMENTS, ADJ-LAYOUT, NORMAL-MULT, RWG-SIGN"
ASSUMPTIONS = ["geometry tables transform covariantly under rigid motions and scalings (vertex differences only; not decided here)"]

NK = K.NK


def run(ctx):
    vals = rules.kernel_specs(ctx, ("laplace", "helmholtz", "modified_helmholtz"))
    r_tr = ctx.rule("K-TRANSLATION", "kernels depend on the points only through y - x", 18)
    r_h = ctx.rule("K-HOMOGENEITY", "x -> s x, y -> s y, k -> k/s multiplies single-layer kernels by 1/s and (adjoint) double-layer kernels by 1/s^2", 18)
    T = [V.atom("t%d" % i) for i in range(3)]
    s = V.atom("s")
    shift, scale = {}, {}
    for i in range(3):
        shift["x%d" % i] = K.X[i] + T[i]
        shift["y%d" % i] = K.Y[i] + T[i]
        scale["x%d" % i] = K.X[i] * s
        scale["y%d" % i] = K.Y[i] * s
    for nm in ("kr", "ki", "w"):
        scale[nm] = V.atom(nm) / s
    for (kt, sing), (fname, v) in sorted(vals.items()):
        ln = ctx.repo.mod(NK).fn(fname).lineno
        r_tr.check(v.subs(shift).eq(v), fname, NK, fname, ln, "translation invariance of " + fname, "kernel value changes under a common translation of both points")
        fam, layer = K.split_type(kt)
        deg = 1 if layer == "single_layer" else 2
        # s > 0: sqrt(s^2 r^2) = s r ; compare after squaring out: v(s x, s y, k/s) * s^deg == v
        # the substitution produces sqrt atoms of s^2 * r^2; compare via the closed form instead (v == spec is K-SPEC):
        r_h.check(homogeneous(v, s, deg), fname, NK, fname, ln, "homogeneity of " + fname, "%s is not homogeneous of degree -%d under x -> s x, k -> k/s" % (fname, deg))
    rules.assembler_integrands(ctx)
    duffy.remaps(ctx)
    singular.check_offsets(ctx)
    singular.check_segments(ctx)
    c11.adjacency(ctx)
    spaces.normal_multipliers(ctx)
    spaces.rwg_sign_rule(ctx)


def homogeneous(spec, s, deg):
    """spec(d, D, k) with d -> s d, D -> s D, k -> k/s equals spec / s^deg (D = |d| scales like d for s > 0)."""
    from ..alg import SQ

    dist_atoms = [a for a in spec.atoms() if a in SQ]
    env = {}
    for i in range(3):
        env["x%d" % i] = K.X[i] * s
        env["y%d" % i] = K.Y[i] * s
    for nm in ("kr", "ki", "w"):
        env[nm] = V.atom(nm) / s
    # substitute without recomputing the sqrt atom: D is replaced by s*D explicitly
    poly_env = dict(env)
    for a in dist_atoms:
        poly_env[a] = V.atom(a) * s
    scaled = _subs_plain(spec, poly_env)
    target = spec
    for _ in range(deg):
        target = target / s
    return scaled.eq(target)


def _subs_plain(v, env):
    """Substitution that treats sqrt atoms as independent atoms (their images are given explicitly)."""
    from ..alg import EP, Poly, V as VV

    def sub_poly(p):
        r = VV.const(0)
        for k, c in p.t.items():
            term = VV.const(c)
            for at, e in k:
                term = term * ((env[at] if at in env else VV.atom(at)) ** e)
            r = r + term
        return r

    num = VV.const(0)
    for e, c in v.n.t.values():
        num = num + sub_poly(c) * (sub_poly(e).exp() if not e.iszero() else VV.const(1))
    return num / sub_poly(v.d)
