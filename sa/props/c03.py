"""C03 — Boundary operators are equivariant under motion, scaling and relabelling."""

from .. import duffy, kernels as K, rules, singular, spaces
from ..alg import V
from ..core import AnalysisError
from . import c11

LEVEL = "other"
TECHNIQUE = "symbolic substitution tests on extracted kernel normal forms (translation, homogeneity; rotation via the manifestly invariant closed form), remap/offset table lints, sign-rule lints"
LEVEL_TEXT = (
    "Decides for every Green's-function kernel (regular and singular variants) that it depends on the points only "
    "through y - x, equals a closed form that is manifestly rotation invariant, and is homogeneous of degree -1 "
    "(single layer) resp. -2 (double / adjoint double layer) under x -> s x, k -> k / s; that every assembler "
    "integrand is built from these kernels, Jacobians, reference shape functions and element normals only; that the "
    "remap and offset tables make the singular rule independent of which local vertices are shared; that normal "
    "multipliers are -1 exactly on swapped domains; that the edge sign rule is antisymmetric; that the geometry tables are "
    "the defining dot/cross-product formulas of the vertex differences (hence rotation-covariant), invariant under "
    "translation and homogeneous of the right degree under scaling (exact substitution in the symbolically evaluated "
    "vectorised code)."
)
LEVEL_NOTE = "Not decided: equality of assembled matrices as numbers (rounding); relabelling invariance of the data-dependent adjacency enumeration."
EXPLANATION = "rules K-SPEC, K-TRANSLATION, K-HOMOGENEITY, ASM-REGULAR/SINGULAR, REMAP-AFFINE, SING-OFFSETS, SING-SEGMENTS, ADJ-LAYOUT, NORMAL-MULT, RWG-SIGN, GEOM-DEFS, GEOM-EQUIVARIANT"
ASSUMPTIONS = ["dot and cross products are covariant under proper rotations (the rotation clause for the geometry follows from GEOM-DEFS by this fact)"]

NK = K.NK


def run(ctx):
    vals = rules.kernel_specs(ctx, ("laplace", "helmholtz", "modified_helmholtz"))
    r_tr = ctx.rule("K-TRANSLATION", "kernels depend on the points only through y - x", 18)
    r_h = ctx.rule("K-HOMOGENEITY", "x -> s x, y -> s y, k -> k/s multiplies single-layer kernels by 1/s and (adjoint) double-layer kernels by 1/s^2", 18)
    T = [V.atom("t%d" % i) for i in range(3)]
    s = V.atom("s")
    shift, scale = {}, {}
    for i in range(3):
        shift["x%d" % i] = K.X[i] + T[i]
        shift["y%d" % i] = K.Y[i] + T[i]
        scale["x%d" % i] = K.X[i] * s
        scale["y%d" % i] = K.Y[i] * s
    for nm in ("kr", "ki", "w"):
        scale[nm] = V.atom(nm) / s
    for (kt, sing), (fname, v) in sorted(vals.items()):
        ln = ctx.repo.mod(NK).fn(fname).lineno
        r_tr.check(v.subs(shift).eq(v), fname, NK, fname, ln, "translation invariance of " + fname, "kernel value changes under a common translation of both points")
        fam, layer = K.split_type(kt)
        deg = 1 if layer == "single_layer" else 2
        # s > 0: sqrt(s^2 r^2) = s r ; compare after squaring out: v(s x, s y, k/s) * s^deg == v
        # the substitution produces sqrt atoms of s^2 * r^2; compare via the closed form instead (v == spec is K-SPEC):
        r_h.check(homogeneous(v, s, deg), fname, NK, fname, ln, "homogeneity of " + fname, "%s is not homogeneous of degree -%d under x -> s x, k -> k/s" % (fname, deg))
    rules.assembler_integrands(ctx)
    duffy.remaps(ctx)
    singular.check_offsets(ctx)
    singular.check_segments(ctx)
    c11.adjacency(ctx)
    spaces.normal_multipliers(ctx)
    spaces.localised_inherit(ctx)
    spaces.rwg_sign_rule(ctx)
    geometry(ctx)
    from .. import intwidth

    intwidth.int_narrowing(ctx)  # index / offset arrays must not wrap
    from . import c10

    c10.local_numbering_tables(ctx)  # dual / barycentric spaces: tables keyed by local vertex and edge numbers
    from .. import state as _state

    _state.process_state(ctx)  # spaces and their localised companions are built per space, not served from a module-level table under an incomplete key


def geometry(ctx):
    """The geometry tables are the defining formulas (dot / cross products of vertex differences: rotation-covariant by
    construction) and transform exactly as stated under translations and scalings."""
    import ast as _ast

    from .. import geomq
    from ..src import unparse as _unparse

    c11.geometry(ctx)  # GEOM-DEFS: computed tables == definitions built from a = v1 - v0, b = v2 - v0 by dot and cross products only
    r = ctx.rule("GEOM-EQUIVARIANT", "geometry tables: invariant under translation (centroids move along), homogeneous of the stated degree under scaling", 14)
    m = ctx.repo.mod(c11.GRID)
    fn = m.fn("Grid._compute_geometric_quantities")
    props = {}
    for qn, f in m.functions.items():
        if qn.startswith("Grid.") and qn.count(".") == 1 and any(_unparse(d) == "property" for d in f.decorator_list):
            rets = [s_ for s_ in f.body if isinstance(s_, _ast.Return)]
            if len(rets) == 1 and isinstance(rets[0].value, _ast.Attribute) and _unparse(rets[0].value.value) == "self":
                props[f.name] = rets[0].value.attr
    got = geomq.GeomEval(fn, props).run()
    for desc, ok in geomq.equivariance(got):
        r.check(ok, desc, c11.GRID, fn.name, fn.lineno, "geometry " + desc, "the computed table does not behave as stated: " + desc)


def homogeneous(spec, s, deg):
    """spec(d, D, k) with d -> s d, D -> s D, k -> k/s equals spec / s^deg (D = |d| scales like d for s > 0)."""
    from ..alg import SQ

    dist_atoms = [a for a in spec.atoms() if a in SQ]
    env = {}
    for i in range(3):
        env["x%d" % i] = K.X[i] * s
        env["y%d" % i] = K.Y[i] * s
    for nm in ("kr", "ki", "w"):
        env[nm] = V.atom(nm) / s
    # substitute without recomputing the sqrt atom: D is replaced by s*D explicitly
    poly_env = dict(env)
    for a in dist_atoms:
        poly_env[a] = V.atom(a) * s
    scaled = _subs_plain(spec, poly_env)
    target = spec
    for _ in range(deg):
        target = target / s
    return scaled.eq(target)


def _subs_plain(v, env):
    """Substitution that treats sqrt atoms as independent atoms (their images are given explicitly)."""
    from ..alg import EP, Poly, V as VV

    def sub_poly(p):
        r = VV.const(0)
        for k, c in p.t.items():
            term = VV.const(c)
            for at, e in k:
                term = term * ((env[at] if at in env else VV.atom(at)) ** e)
            r = r + term
        return r

    num = VV.const(0)
    for e, c in v.n.t.values():
        num = num + sub_poly(c) * (sub_poly(e).exp() if not e.iszero() else VV.const(1))
    return num / sub_poly(v.d)
