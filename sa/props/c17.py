"""C17 — FMM-mode operators equal dense-mode ones given an exact far-field evaluator."""

from .. import fmm, fmmmode, fx, geom, rules
from . import c11

LEVEL = "other"
TECHNIQUE = "symbolic extraction of the FMM near-field kernels (vs dense kernels and their gradients), non-commutative term normalisation of the scalar, hypersingular, Maxwell and potential FMM evaluators, index-bound and row-convention analysis of the coefficient-to-point maps, finite-domain abstract execution of the evaluator selectors; finite domain of operator identifiers / modes / representations for the FMM mode, kernel and correction dispatch; CSR counter dataflow rule"
LEVEL_TEXT = (
    "No FMM library exists in this sandbox; only source can be examined.  Decided: the three near-field kernels are "
    "the dense single-layer kernel and its gradient in the target point with coincident pairs zeroed; the scalar and "
    "hypersingular evaluators are the operator expressions T E0 S, -T sum E_i Ns_i S, T sum Nt_i E_i S and the "
    "curl/normal decompositions with the sign of the k^2 term of the dense assemblers; the Maxwell boundary evaluators "
    "and all potential evaluators are the operator terms of the dense integrands (-ik Rt G R - (ik)^-1 Dt G D, "
    "-Rt (grad_x G x R), with the test-side maps taken from dual_to_range when the spaces differ); the "
    "coefficient-to-point transforms use the point cloud's row convention (nq rows per grid element, by element "
    "number) and write inside the arrays they allocate (segment spaces included); for every boundary operator "
    "descriptor the selector chain reaches the closure verified for that operator; the edge-length copy in the RWG "
    "divergence transform follows the library's edge convention."
)
LEVEL_NOTE = "Not decided: agreement 'to rounding' and reproduction of the recorded reference vectors (need execution and an FMM library); the exafmm binding itself (C++ extension, absent here)."
EXPLANATION = "rules FMM-NEAR-KERNELS, FMM-EVALUATORS, FMM-MAXWELL-TERMS, FMM-DISPATCH, FMM-BOUNDS, FMM-ROWS, FMM-NEAR-LAYOUT, FMM-TRANSFORM-VALUES, FMM-MODE, EDGE-CONV, K-SPEC (dense reference)"
ASSUMPTIONS = ["fmm_interface.evaluate returns [potential, gradient in the target] per target point", "Numba arithmetic semantics"]


def run(ctx):
    fmm.near_field_kernels(ctx)
    geom.point_cloud(ctx)
    fmm.evaluator_terms(ctx)
    fmm.point_map_bounds(ctx)
    fmm.transform_rows(ctx)
    fmm.maxwell_terms(ctx)
    fmm.near_field_layout(ctx)
    fmm.transform_values(ctx)
    fmmmode.fmm_mode(ctx)
    fmmmode.curl_reuse(ctx)
    fmmmode.near_dispatch(ctx)
    fmmmode.csr_counter(ctx)
    c11.edge_convention(ctx)
    rules.kernel_specs(ctx, ("laplace", "helmholtz", "modified_helmholtz"), include_singular=False)
    from .. import spaces as _spaces

    _spaces.localised_inherit(ctx)  # singular parts, sparse forms, potentials and FMM point maps are computed on the localised companion space
    from . import c10 as _c10b

    _c10b.compat(ctx)  # the singular part (and the FMM near field built on it) converts the spaces first and reads the converted ones only
    _c10b.compat_use(ctx)
