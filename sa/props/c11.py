"""C11 — Grid topology and geometry data are complete and consistent."""

import ast
from fractions import Fraction as F

from .. import bary, baryvert, roles, unionq
from ..core import AnalysisError
from ..src import arg_names, unparse

LEVEL = "other"
TECHNIQUE = "code-as-table extraction of refinement/union/adjacency patterns checked in exact arithmetic on the reference triangle; provenance typing of stores (guards, loops, reaching definitions); symbolic per-element interpretation of the vectorised geometry code against its definitions; edge-convention sibling lint; interval-style abstract interpretation of the generated domain-index blocks of union(), symbolic 2x2 interpretation of the shared-edge table, abstract execution of the barycentric vertex creation"
LEVEL_TEXT = (
    "Decides the clauses whose truth is in the shape of the code: children of refine() and of the barycentric "
    "refinement are positively oriented and partition the parent (exact areas on the reference triangle; by affinity "
    "on every grid), domain indices are repeated to match child placement, union() reverses orientation with an odd "
    "permutation exactly under swapped_normals and applies running offsets, adjacency filters use 2 <-> edge / "
    "1 <-> vertex on one element-to-element matrix, the 6-row edge-adjacency layout written equals the layout read by "
    "the singular assembler, boundary flags come from diagonal == 1, all copies of the local edge convention "
    "agree with _EDGE_LOCAL, and the vectorised geometry code, evaluated symbolically per element in exact "
    "arithmetic over the nine vertex coordinates, yields exactly the defining formulas of normals (unit, "
    "right-handed), volumes, integration elements, diameters, centroids, Jacobians and inverse-transposed Jacobians."
)
LEVEL_NOTE = (
    "Edge uniqueness is decided through the shape of the enumeration (dictionary memo keyed by the sorted vertex "
    "pair), segment extraction through the provenance of the three arrays handed to Grid, and the vertex / element / "
    "edge neighbour tables through the incidence structures they are read from.  Out of reach statically: the "
    "sorted vertex fans of enumerate_vertex_adjacent_elements (data-dependent search loops) and floating-point "
    "rounding of the geometry."
)
EXPLANATION = ("pattern tables extracted from Grid.refine, _create_barycentric_connectivity_array, union, _find_*_adjacency, _element_filter, _compute_boundary_information and the "
               "edge-length copies; _compute_geometric_quantities interpreted on per-element symbolic rows (sa/geomq.py)")
ASSUMPTIONS = ["affine invariance: areas/orientation/nesting on the reference triangle transfer to every non-degenerate element"]

GRID = bary.GRID
EDGE_COPIES = [
    ("bempp_cl/core/numba_kernels.py", "get_edge_lengths"),
    ("bempp_cl/api/space/maxwell_spaces.py", "_numba_rwg0_evaluate"),
    ("bempp_cl/api/space/maxwell_spaces.py", "_numba_snc0_evaluate"),
    ("bempp_cl/api/space/maxwell_spaces.py", "_numba_snc0_surface_curl"),
    ("bempp_cl/api/fmm/fmm_assembler.py", "compute_rwg_div_transform_impl"),
]


def children_rule(ctx, r, name, children, pts, rel, fname, line, nkids):
    tot = F(0)
    for c, tri in enumerate(children):
        a2 = bary.area2(tri, pts)
        tot += a2
        r.check(a2 > 0, "%s child %d %s oriented" % (name, c, tuple(tri)), rel, fname, line, "%s child %d orientation" % (name, c),
                "child %d %s has signed area %s relative to the parent (must be positive: same orientation)" % (c, tuple(tri), a2 / 2))
    r.check(tot == 1 and len(children) == nkids, "%s area partition" % name, rel, fname, line, "%s children areas" % name,
            "children areas sum to %s of the parent" % tot)
    # vertices conform: every child vertex is a parent vertex, an edge midpoint or the barycentre -> nested
    # and no two children overlap: with total area 1 and all inside the parent, pairwise interiors are disjoint.


def edge_pairs(fn):
    """{k: (a, b)} for statements  X[.., k] = norm(G.vertices[:, G.elements[a, e]] - G.vertices[:, G.elements[b, e]])."""
    out = {}
    defs = roles.Defs(fn)
    for st in ast.walk(fn):
        if not (isinstance(st, ast.Assign) and isinstance(st.targets[0], ast.Subscript)):
            continue
        value = roles.inline(st.value, defs)  # locals naming one of the two end points are read through
        if not (isinstance(value, ast.Call) and unparse(value.func).endswith("linalg.norm") and value.args):
            continue
        arg = value.args[0]
        if not (isinstance(arg, ast.BinOp) and isinstance(arg.op, ast.Sub)):
            continue
        idx = []
        for side in (arg.left, arg.right):
            try:
                inner = side.slice.elts[1]  # G.elements[a, e]
                if unparse(side.value).endswith("vertices") and unparse(inner.value).endswith("elements") and isinstance(inner.slice.elts[0], ast.Constant):
                    idx.append(inner.slice.elts[0].value)
            except AttributeError:
                pass
        sl = st.targets[0].slice
        k = sl.elts[-1] if isinstance(sl, ast.Tuple) else sl
        if len(idx) == 2 and isinstance(k, ast.Constant):
            out[k.value] = tuple(idx)
    return out


def edge_convention(ctx, rule_id="EDGE-CONV"):
    el = bary.edge_local(ctx)
    r = ctx.rule(rule_id, "every copy of the local edge convention uses the vertex pairs of _EDGE_LOCAL in the same order", 6)
    m = ctx.repo.mod(GRID)
    fn = m.fn("_vertices_from_edge_index")
    d = roles.Defs(fn)
    p = arg_names(fn)
    rets = [s for s in roles.stores(fn.body, d) if s.op == "return"]
    pair = "E[_EDGE_LOCAL[K]]"
    want = {roles.expect("_sort_values(%s[0], %s[1])" % (pair, pair), d, fn.body[-1].lineno, E=p[0], K=p[1])}
    r.check(len(rets) == 1 and rets[0].value in want, "_vertices_from_edge_index", GRID, fn.name, fn.lineno, "_vertices_from_edge_index source of convention",
            "_vertices_from_edge_index does not return the sorted vertex pair element[_EDGE_LOCAL[local_index]] (returns `%s`)" % (rets[0].value[:100] if rets else None))
    for rel, fname in EDGE_COPIES:
        f = ctx.repo.mod(rel).fn(fname)
        pairs = edge_pairs(f)
        ok = sorted(pairs) == [0, 1, 2] and all(set(pairs[k]) == set(el[k]) for k in range(3))
        r.check(ok, "%s::%s" % (rel.split("/")[-1], fname), rel, fname, f.lineno, "edge length pairs %s" % [pairs.get(k) for k in range(3)],
                "edge lengths use local vertex pairs %s, _EDGE_LOCAL is %s" % ([pairs.get(k) for k in range(3)], el))
    return el


def refinement(ctx):
    """Refinement tables (also run by C04: nested spaces on a refined grid need children 4e+k of parent e that tile it,
    and the parents' domain indices on them)."""
    m = ctx.repo.mod(GRID)
    pts = bary.ref_points(ctx)
    r = ctx.rule("REFINE-CHILDREN", "children of refine() / barycentric refinement are positively oriented and their areas sum to the parent's", 12)
    kids, mids_ok, dom_ok, ln = bary.refine_table(ctx)
    children_rule(ctx, r, "refine", kids, pts, GRID, "Grid.refine", ln, 4)
    B, bln = bary.barycentric_table(ctx)
    children_rule(ctx, r, "barycentric", B, pts, GRID, "_create_barycentric_connectivity_array", bln, 6)
    ctx.sample({"refine_children": kids, "barycentric_children": B})
    r2 = ctx.rule("REFINE-DATA", "new vertices are edge midpoints indexed by edge number; domain indices repeated 4 (refine) / 6 (barycentric) times to match child placement", 3)
    r2.check(mids_ok, "refine midpoints", GRID, "Grid.refine", ln, "refine midpoint vertices", "midpoint vertex block is not 0.5*(v[edges[0]] + v[edges[1]]) stored after the old vertices")
    r2.check(dom_ok, "refine domain indices", GRID, "Grid.refine", ln, "refine domain indices", "domain indices are not repeated 4 times per element")
    bf = m.fn("barycentric_refinement")
    calls = [c for c in ast.walk(bf) if isinstance(c, ast.Call) and unparse(c.func) == "Grid"]
    bdefs = roles.Defs(bf)
    if len(calls) != 1:
        raise AnalysisError("barycentric_refinement: the Grid(vertices, elements, domain indices) construction was not found")
    dom = calls[0].args[2] if len(calls[0].args) >= 3 else next((k.value for k in calls[0].keywords if k.arg == "domain_indices"), None)
    if dom is None or (isinstance(dom, ast.Constant) and dom.value is None):
        okb = False  # the constructor fills in zeros: every sub-triangle reports domain index 0
    else:
        okb = bary.per_child_sequence(roles.inline(dom, bdefs), "%s.domain_indices" % arg_names(bf)[0], 6, "barycentric_refinement")
    r2.check(okb, "barycentric domain indices", GRID, "barycentric_refinement", bf.lineno, "barycentric domain indices", "the barycentric grid does not carry its parent's domain indices, each repeated for the 6 sub-triangles of the element (a callable that reads domain_index, segments and swapped normals on barycentric spaces see other indices)")


def run(ctx):
    # (a) refinement tables
    refinement(ctx)
    # (b) union
    baryvert.barycentric_vertices(ctx)
    union(ctx)
    unionq.union_domain_blocks(ctx)
    # (c) adjacency filters and layout
    adjacency(ctx)
    # (d) boundary flags
    boundary(ctx)
    # (e) edge convention
    edge_convention(ctx)
    # (f) geometric quantities against their definitions, for a general triangle
    geometry(ctx)
    # (g) edge enumeration memo, segment extraction
    edge_enumeration(ctx)
    segments_grid(ctx)
    neighbour_tables(ctx)
    griddata_fields(ctx)
    from .. import intwidth

    intwidth.int_narrowing(ctx)  # index / offset arrays must not wrap


def _single(lst, what):
    if len(lst) != 1:
        raise AnalysisError("%s: expected exactly one, found %d" % (what, len(lst)))
    return lst[0]


def union(ctx):
    m = ctx.repo.mod(GRID)
    fn = m.fn("union")
    r = ctx.rule("UNION", "union(): odd vertex permutation exactly under swapped_normals; vertex, element and domain-index blocks at running offsets advanced after each grid", 5)
    defs = roles.Defs(fn)
    params = arg_names(fn)
    gparam, dparam, sparam = params[0], params[1], params[2]
    loop = _single([s for s in fn.body if isinstance(s, ast.For) and roles.canon(s.iter, defs) == "enumerate(%s)" % gparam
                    and isinstance(s.target, ast.Tuple) and len(s.target.elts) == 2 and all(isinstance(e, ast.Name) for e in s.target.elts)], "union: loop over enumerate(%s)" % gparam)
    idx, g = (e.id for e in loop.target.elts)
    ret = _single([s for s in fn.body if isinstance(s, ast.Return)], "union: return statement")
    if not (isinstance(ret.value, ast.Call) and unparse(ret.value.func) == "Grid" and len(ret.value.args) >= 3 and all(isinstance(x, ast.Name) for x in ret.value.args[:3])):
        raise AnalysisError("union: does not return Grid(<vertices>, <elements>, <domain indices>) built from local arrays")
    V, E, D = (x.id for x in ret.value.args[:3])
    S = roles.stores(loop.body, defs)
    ln = loop.body[-1].lineno
    ex = lambda src, line=ln, **kw: roles.expect(src, defs, line, G=g, I=idx, **kw)
    # running counters: the names advanced by the number of vertices / elements of the current grid
    counters = {}
    for what, attr, alt in (("vertex", "G.number_of_vertices", "G.vertices.shape[1]"), ("element", "G.number_of_elements", "G.elements.shape[1]")):
        hits = [s for s in S if s.op == "Add=" and isinstance(s.tnode, ast.Name) and s.value in (ex(attr, s.node.lineno), ex(alt, s.node.lineno)) and not s.guards and not s.loops]
        counters[what] = hits[0] if len(hits) == 1 else None
    okc = all(counters.values())
    init_ok = okc and all(any(isinstance(st, ast.Assign) and unparse(st.targets[0]) == c.target and isinstance(st.value, ast.Constant) and st.value.value == 0 and st.lineno < loop.lineno
                              for st in fn.body) for c in counters.values())
    r.check(okc and init_ok, "running offsets", GRID, "union", loop.lineno, "union offset counters",
            "no unique pair of counters initialised to 0 and advanced by the current grid's vertex / element count in the loop over the grids" if not okc else "offset counters are not initialised to 0 before the loop")
    if not okc:
        return
    VO, EO = counters["vertex"].target, counters["element"].target

    def find(arr, off, cnt, two_d):
        """Unguarded stores into `arr` whose target is the block [off, off + count of the current grid)."""
        shape = "A[:, O:O+N]" if two_d else "A[O:O+N]"
        out = []
        for s in S:
            if s.op != "=" or not isinstance(s.tnode, ast.Subscript) or unparse(s.tnode.value) != arr or s.guards or s.loops:
                continue
            alts = {ex(shape, s.node.lineno, A=arr, O=off, N=n) for n in ("G.number_of_" + cnt, "G.%s.shape[1]" % cnt)}
            if s.target in alts:
                out.append(s)
        return out

    vs = find(V, VO, "vertices", True)
    okv = len(vs) == 1 and vs[0].value == ex("G.vertices", vs[0].node.lineno)
    r.check(okv, "vertex block", GRID, "union", loop.lineno, "union vertex block", "the vertices of grid i are not stored unchanged in columns [offset, offset + n_i) of the result (found %s)" % [repr(x)[:80] for x in vs])
    es = find(E, EO, "elements", True)
    oke = False
    msg = "no store of the element block at the running element offset"
    if len(es) == 1:
        v = es[0].vnode
        # <current elements> + <vertex offset>
        cur = None
        if isinstance(v, ast.BinOp) and isinstance(v.op, ast.Add):
            for a, b in ((v.left, v.right), (v.right, v.left)):
                if isinstance(b, ast.Name) and b.id == VO:
                    cur = a
        if cur is None:
            msg = "element block is `%s`: vertex numbers are not shifted by the running vertex offset" % unparse(v)[:80]
        else:
            sw = ex("S[I]", S=sparam)
            if isinstance(cur, ast.Name):
                branches = {s.guards: s for s in S if s.op == "=" and isinstance(s.tnode, ast.Name) and s.tnode.id == cur.id}
            else:
                branches = {}
            tb, fb = branches.get(((sw, True),)), branches.get(((sw, False),))
            if tb is None or fb is None or len(branches) != 2:
                msg = "the element block `%s` is not selected by `if %s[%s]` with one definition per branch" % (unparse(cur)[:60], sparam, idx)
            else:
                perm = None
                tv = tb.vnode
                if isinstance(tv, ast.Subscript) and roles.canon(tv.value, defs, lv=True) == ex("G.elements", tb.node.lineno):
                    sl = tv.slice
                    first = sl.elts[0] if isinstance(sl, ast.Tuple) else sl
                    rest_ok = not isinstance(sl, ast.Tuple) or (len(sl.elts) == 2 and isinstance(sl.elts[1], ast.Slice) and sl.elts[1].lower is None and sl.elts[1].upper is None)
                    if isinstance(first, ast.List) and all(isinstance(e, ast.Constant) for e in first.elts) and rest_ok:
                        perm = [e.value for e in first.elts]
                odd = perm is not None and sorted(perm) == [0, 1, 2] and _parity(perm) == 1
                ident = fb.value == ex("G.elements", fb.node.lineno)
                oke = odd and ident
                msg = "swapped branch uses vertex permutation %s (must be an odd permutation of 0,1,2), unswapped branch `%s` (must be the elements unchanged)" % (perm, unparse(fb.vnode)[:60])
    r.check(oke, "element block / orientation reversal", GRID, "union", loop.lineno, "union element block", msg)
    ds = find(D, EO, "elements", False)
    okd = len(ds) == 1 and ds[0].value == ex("P[I]", ds[0].node.lineno, P=dparam)
    r.check(okd, "domain index block", GRID, "union", loop.lineno, "union domain-index block", "domain indices of grid i are not stored at the running element offset from %s[i] (found %s)" % (dparam, [repr(x)[:80] for x in ds]))
    users = [x.node.lineno for x in vs + es + ds]
    oko = bool(users) and min(c.node.lineno for c in counters.values()) > max(users)
    r.check(oko, "offset updates after the stores", GRID, "union", loop.lineno, "union offset updates", "a running offset is advanced before a block of the same grid is stored")


def _parity(p):
    inv = sum(1 for i in range(len(p)) for j in range(i + 1, len(p)) if p[i] > p[j])
    return inv % 2


def _returned_name(fn, what):
    rets = [n for n in ast.walk(fn) if isinstance(n, ast.Return)]
    if not rets or not all(isinstance(x.value, ast.Name) for x in rets) or len({x.value.id for x in rets}) != 1:
        raise AnalysisError("%s: does not return one local array" % what)
    return rets[0].value.id


def _loopvar(fn, defs, iter_src, what, **bind):
    hits = [s for s in ast.walk(fn) if isinstance(s, ast.For) and isinstance(s.target, ast.Name) and roles.canon(s.iter, defs, lv=True).replace(" ", "") == roles.expect(iter_src, defs, s.lineno, **bind)]
    return _single(hits, what)


def adjacency(ctx):
    from .. import sharededge

    sharededge.shared_edge_columns(ctx)
    m = ctx.repo.mod(GRID)
    r = ctx.rule("ADJ-FILTER", "edge adjacency <-> 2 shared vertices, vertex adjacency <-> 1, both from the same element-to-element vertex-count matrix", 4)
    consts = {}
    for nm in ("EDGES_ID", "VERTICES_ID"):
        node = m.assigns.get(nm)
        if node is None or not isinstance(node, ast.Constant):
            raise AnalysisError("constant %s vanished from grid.py" % nm)
        consts[nm] = node.value
    r.check(consts["EDGES_ID"] == 2, "EDGES_ID", GRID, "-", m.assigns["EDGES_ID"].lineno, "EDGES_ID = %s" % consts["EDGES_ID"], "elements sharing an edge share 2 vertices; EDGES_ID is %s" % consts["EDGES_ID"])
    r.check(consts["VERTICES_ID"] == 1, "VERTICES_ID", GRID, "-", m.assigns["VERTICES_ID"].lineno, "VERTICES_ID = %s" % consts["VERTICES_ID"], "vertex-adjacent elements share 1 vertex; VERTICES_ID is %s" % consts["VERTICES_ID"])
    ef = m.fn("_element_filter")
    edefs = roles.Defs(ef)
    p = arg_names(ef)
    rets = [s for s in roles.stores(ef.body, edefs) if s.op == "return"]
    want = roles.expect("(A[_np.flatnonzero(N == T)], B[_np.flatnonzero(N == T)])", edefs, ef.body[-1].lineno, A=p[0], B=p[1], N=p[2], T=p[3])
    r.check(len(rets) == 1 and rets[0].value == want and not rets[0].guards, "_element_filter", GRID, "_element_filter", ef.lineno,
            "_element_filter predicate", "the filter does not return both element arrays at the positions where the shared-vertex count equals the filter type (returns `%s`)" % (rets[0].value[:120] if rets else None))
    g = m.fn("Grid._get_element_adjacency_for_edges_and_vertices")
    defs = roles.Defs(g)
    calls = {unparse(c.func): c for c in ast.walk(g) if isinstance(c, ast.Call)}
    okg = True
    why = []
    for fname, cid in (("_find_vertex_adjacency", "VERTICES_ID"), ("_find_edge_adjacency", "EDGES_ID")):
        c = calls.get(fname)
        if c is None or len(c.args) != 3:
            okg = False
            why.append("%s call missing" % fname)
            continue
        cnt = "_get_element_to_element_vertex_count(get_element_to_element_matrix(self._vertices, self._elements))"
        base = "_element_filter(%s[0], %s[1], %s[2], %s)" % (cnt, cnt, cnt, cid)
        got = [roles.canon(a, defs).replace(" ", "") for a in c.args]
        exp = [roles.expect(x, defs, c.lineno) for x in ("self._elements", base + "[0]", base + "[1]")]
        if got != exp:
            okg = False
            why.append("%s receives (%s, %s)" % (fname, got[1][-70:], got[2][-70:]))
    r.check(okg, "adjacency construction", GRID, g.name, g.lineno, "adjacency construction " + "; ".join(why), "; ".join(why))
    # layout written by _find_edge_adjacency / _find_vertex_adjacency
    r2 = ctx.rule("ADJ-LAYOUT", "edge adjacency columns are [elem0, elem1, i0, i1, j0, j1] and vertex adjacency columns [test, trial, i, j] with elements[i, test] == elements[j, trial]: the layout the singular assembler reads", 5)
    fe = m.fn("_find_edge_adjacency")
    d = roles.Defs(fe)
    pe = arg_names(fe)
    A = _returned_name(fe, "_find_edge_adjacency")
    lp = _loopvar(fe, d, "range(len(P))", "_find_edge_adjacency: loop over the pairs", P=pe[1])
    K = lp.target.id
    S = [s for s in roles.stores(fe.body, d) if isinstance(s.tnode, ast.Subscript) and unparse(s.tnode.value) == A]
    got = {(s.target, s.value) for s in S if not s.guards}
    ln = lp.body[-1].lineno
    ex = lambda src: roles.expect(src, d, ln, A=A, K=K, P0=pe[0], P1=pe[1], P2=pe[2])
    want = {(ex("A[0, K]"), ex("P1[K]")), (ex("A[1, K]"), ex("P2[K]")), (ex("A[2:, K]"), ex("_get_shared_edge_information_for_two_elements(P0, P1[K], P2[K]).flatten()"))}
    alloc = d.alloc(A, ln)
    rows = None
    if alloc and alloc[0] == "expr" and isinstance(alloc[1], ast.Call) and alloc[1].args and isinstance(alloc[1].args[0], ast.Tuple) and isinstance(alloc[1].args[0].elts[0], ast.Constant):
        rows = alloc[1].args[0].elts[0].value
    r2.check(got == want and rows == 6 and len(S) == 3, "_find_edge_adjacency", GRID, fe.name, fe.lineno, "edge adjacency row layout",
             "columns are not written as [elem0, elem1, shared-index-pairs.flatten()] into a 6-row array (rows=%s, stores=%s)" % (rows, sorted(x[0][-14:] + "=" + x[1][-50:] for x in got)))
    # the 2x2 pair array: column c = (i_c, j_c), so flatten() is [i0, i1, j0, j1]
    f2 = m.fn("_find_two_common_array_index_pairs")
    d2 = roles.Defs(f2)
    p2 = arg_names(f2)
    R = _returned_name(f2, "_find_two_common_array_index_pairs")
    S2 = [s for s in roles.stores(f2.body, d2) if isinstance(s.tnode, ast.Subscript) and unparse(s.tnode.value) == R]
    l2 = f2.body[-1].lineno
    F = "_find_first_common_array_index_pair_from_position"
    got2 = [(s.target, s.value) for s in S2]
    want2 = [(roles.expect("R[:, 0]", d2, S2[0].node.lineno if S2 else l2, R=R), roles.expect("%s(A, B, 0)" % F, d2, l2, A=p2[0], B=p2[1])),
             (roles.expect("R[:, 1]", d2, l2, R=R), roles.expect("%s(A, B, R[0, 0] + 1)" % F, d2, l2, A=p2[0], B=p2[1], R=R))]
    r2.check(got2 == want2, "_find_two_common_array_index_pairs", GRID, f2.name, f2.lineno, "two shared index pairs",
             "pair c is not stored as column c = (i_c, j_c), with the second search starting behind the first hit (stores %s)" % [x[0][-8:] + "=" + x[1][-60:] for x in got2])
    # the single-pair search returns (index in array1, index in array2) of a common value
    f1 = m.fn(F)
    d1 = roles.Defs(f1)
    p1 = arg_names(f1)
    r1 = [s for s in roles.stores(f1.body, d1) if s.op == "return"]
    lp1 = [s for s in ast.walk(f1) if isinstance(s, ast.For) and isinstance(s.target, ast.Name)]
    ok1 = False
    if len(r1) == 1 and len(lp1) == 1:
        k1 = lp1[0].target.id
        e = lambda src: roles.expect(src, d1, r1[0].node.lineno, A=p1[0], B=p1[1], S=p1[2], K=k1)
        ok1 = (r1[0].value == e("(K + S, _compare_array_to_value(B, A[K + S]))") and r1[0].guards == ((e("_compare_array_to_value(B, A[K + S]) != -1"), True),)
               and roles.canon(lp1[0].iter, d1).replace(" ", "") in (e("range(len(A[S:]))"), e("range(len(A) - S)")))
    r2.check(ok1, F, GRID, f1.name, f1.lineno, "first common index pair", "does not return (i, j) with i >= start the first position of array1 whose value occurs in array2 at j")
    fc = m.fn("_compare_array_to_value")
    dc = roles.Defs(fc)
    pc = arg_names(fc)
    rc = [s for s in roles.stores(fc.body, dc) if s.op == "return"]
    lpc = [s for s in ast.walk(fc) if isinstance(s, ast.For)]
    okc = False
    if len(lpc) == 1 and isinstance(lpc[0].target, ast.Tuple) and len(rc) == 2 and roles.canon(lpc[0].iter, dc) == "enumerate(%s)" % pc[0]:
        i_, e_ = (x.id for x in lpc[0].target.elts)
        hit = [s for s in rc if s.loops]
        miss = [s for s in rc if not s.loops]
        okc = (len(hit) == 1 and len(miss) == 1 and hit[0].value == roles.expect("I", dc, hit[0].node.lineno, I=i_)
               and hit[0].guards == ((roles.expect("E == V", dc, hit[0].node.lineno, E=e_, V=pc[1]), True),) and miss[0].value == "USub(1)")
    r2.check(okc, "_compare_array_to_value", GRID, fc.name, fc.lineno, "position of a value", "does not return the position i with array[i] == val (or -1)")
    fv = m.fn("_find_vertex_adjacency")
    dv = roles.Defs(fv)
    pv = arg_names(fv)
    Av = _returned_name(fv, "_find_vertex_adjacency")
    lpv = _loopvar(fv, dv, "range(len(P))", "_find_vertex_adjacency: loop over the pairs", P=pv[1])
    Kv = lpv.target.id
    Sv = [s for s in roles.stores(fv.body, dv) if isinstance(s.tnode, ast.Subscript) and unparse(s.tnode.value) == Av]
    lv_ = lpv.body[-1].lineno
    exv = lambda src: roles.expect(src, dv, lv_, A=Av, K=Kv, P0=pv[0], P1=pv[1], P2=pv[2])
    call = "_get_shared_vertex_information_for_two_elements(P0, P1[K], P2[K])"
    okv = len(Sv) == 1 and Sv[0].target == exv("A[:, K]") and Sv[0].value == exv("(P1[K], P2[K], %s[0], %s[1])" % (call, call))
    r2.check(okv, "_find_vertex_adjacency", GRID, fv.name, fv.lineno, "vertex adjacency row layout", "columns are not written as (test, trial, i, j) with (i, j) the shared local vertex numbers (store %s)" % [repr(x)[-120:] for x in Sv])
    # the two wrappers pass the vertex columns of the two elements in (elem0, elem1) order
    for wname, inner in (("_get_shared_vertex_information_for_two_elements", F), ("_get_shared_edge_information_for_two_elements", "_find_two_common_array_index_pairs")):
        fw = m.fn(wname)
        dw = roles.Defs(fw)
        pw = arg_names(fw)
        cs = [c for c in ast.walk(fw) if isinstance(c, ast.Call) and unparse(c.func) == inner]
        okw = len(cs) == 1 and [roles.canon(a, dw).replace(" ", "") for a in cs[0].args] == [roles.expect("E[:, A]", dw, cs[0].lineno, E=pw[0], A=pw[1]), roles.expect("E[:, B]", dw, cs[0].lineno, E=pw[0], B=pw[2])]
        r2.check(okw, wname, GRID, fw.name, fw.lineno, "%s argument order" % wname, "does not search elements[:, elem0] against elements[:, elem1] in this order")


def boundary(ctx):
    m = ctx.repo.mod(GRID)
    fn = m.fn("Grid._compute_boundary_information")
    r = ctx.rule("BOUNDARY-FLAGS", "edge on boundary <=> exactly one adjacent element (diagonal of E^T E == 1, E the element-to-edge incidence); vertices of boundary edges flagged", 2)
    defs = roles.Defs(fn)
    S = roles.stores(fn.body, defs)
    ln = fn.body[-1].lineno
    inc = ("csr_matrix((_np.ones(3 * self.number_of_elements), (_np.repeat(_np.arange(self.number_of_elements), 3), _np.ravel(self.element_edges, order='F'))),"
           " shape=(self.number_of_elements, self.number_of_edges))")
    want_edge = roles.expect("(%s).T.dot(%s).diagonal() == 1" % (inc, inc), defs, ln)
    es = [s for s in S if s.target == "self._edge_on_boundary"]
    oke = len(es) == 1 and es[0].value == want_edge and not es[0].guards
    r.check(oke, "edge flags", GRID, fn.name, fn.lineno, "boundary edge flags", "self._edge_on_boundary is not `diag(E^T E) == 1` with E the element-to-edge incidence matrix (is `%s`)" % (es[0].value[:160] if es else None))
    vs = [s for s in S if s.target == "self._vertex_on_boundary"]
    okv = False
    msg = "self._vertex_on_boundary is not assigned from a local flag array"
    if len(vs) == 1 and isinstance(vs[0].vnode, ast.Name):
        arr = vs[0].vnode.id
        a0 = defs.alloc(arr, vs[0].node.lineno)
        alloc_ok = a0 is not None and a0[0] == "expr" and roles.canon(a0[1], defs).replace(" ", "") in (
            roles.expect("_np.full(self.number_of_vertices, False)", defs, ln), roles.expect("_np.zeros(self.number_of_vertices, dtype=bool)", defs, ln))
        marks = [s for s in S if isinstance(s.tnode, ast.Subscript) and unparse(s.tnode.value) == arr]
        good = False
        if len(marks) == 1 and marks[0].value == "True" and not marks[0].guards:
            mk = marks[0]
            if len(mk.loops) == 1 and isinstance(mk.loops[0].target, ast.Name):
                k = mk.loops[0].target.id
                good = (roles.canon(mk.loops[0].iter, defs).replace(" ", "") == "nz(%s)" % want_edge
                        and mk.target == roles.expect("A[self.edges[:, K]]", defs, mk.node.lineno, A=arr, K=k))
            elif not mk.loops:
                good = mk.target in (roles.expect("A[self.edges[:, M]]", defs, mk.node.lineno, A=arr, M="(%s).T.dot(%s).diagonal() == 1" % (inc, inc)),)
        okv = alloc_ok and good
        msg = "vertex flags: allocation all-False ok=%s; marks exactly the two vertices self.edges[:, e] of every boundary edge e ok=%s" % (alloc_ok, good)
    r.check(okv, "vertex flags", GRID, fn.name, fn.lineno, "boundary vertex flags", msg)


def geometry(ctx):
    """_compute_geometric_quantities, evaluated symbolically per element, equals the definitions."""
    from .. import geomq
    from ..alg import V

    m = ctx.repo.mod(GRID)
    fn = m.fn("Grid._compute_geometric_quantities")
    r = ctx.rule("GEOM-DEFS", "normals (unit, right-handed), volumes, integration elements, diameters, centroids, Jacobians and inverse-transposed Jacobians equal their definitions on a general triangle", 9)
    props = {}
    for qn, f in m.functions.items():
        if qn.startswith("Grid.") and qn.count(".") == 1 and any(unparse(d) == "property" for d in f.decorator_list):
            rets = [s for s in f.body if isinstance(s, ast.Return)]
            if len(rets) == 1 and isinstance(rets[0].value, ast.Attribute) and unparse(rets[0].value.value) == "self":
                props[f.name] = rets[0].value.attr
    got = geomq.GeomEval(fn, props).run()
    want = geomq.expected()

    def as_vec(x):
        if isinstance(x, geomq.B) and x.k == 1:
            return x.rows[0] if x.vec else [x.rows[0]]
        if isinstance(x, geomq.Unset):
            x = x.value
        if isinstance(x, geomq.M):
            return [c for row in x.ent for c in row]
        return None

    def same(a, b):
        a = as_vec(a)
        b = [c for row in b.ent for c in row] if isinstance(b, geomq.M) else (b if isinstance(b, list) else [b])
        return a is not None and len(a) == len(b) and all(x.eq(y) for x, y in zip(a, b))

    names = {"_volumes": "volumes = |(v1-v0) x (v2-v0)| / 2", "_normals": "normals = (v1-v0) x (v2-v0) normalised (right-handed w.r.t. the vertex order)",
             "_jacobians": "jacobians = [v1-v0 | v2-v0] (3 x 2)", "_diameters": "diameters = |a||b||a-b| / |a x b| (circumscribed circle)", "_centroids": "centroids = (v0+v1+v2)/3",
             "_integration_elements": "integration elements = |a x b|", "_jacobian_inverse_transposed": "inverse-transposed Jacobian = J (J^T J)^-1"}
    for attr, text in names.items():
        if attr not in got:
            r.fail(text, GRID, fn.name, fn.lineno, "geometry attribute %s" % attr, "self.%s is not assigned by _compute_geometric_quantities" % attr)
            continue
        r.check(same(got[attr], want[attr]), text, GRID, fn.name, fn.lineno, "geometry attribute %s" % attr, "self.%s differs from its definition: %s" % (attr, text))
    # derived identities that make the definitions meaningful
    det, n2 = want["#lagrange"]
    r.check(det.eq(n2), "Lagrange identity det(J^T J) = |a x b|^2 (so sqrt(det) is the surface element)", GRID, fn.name, fn.lineno, "lagrange identity", "KEX failed to prove the Lagrange identity")
    if "_jacobian_inverse_transposed" in got and as_vec(got["_jacobian_inverse_transposed"]) is not None:
        Mx = got["_jacobian_inverse_transposed"]
        Mx = Mx.value if isinstance(Mx, geomq.Unset) else Mx
        prod = Mx.T.dot(want["#J"])
        ok = all(prod.ent[i][j].eq(V.const(1 if i == j else 0)) for i in range(2) for j in range(2))
        r.check(ok, "(J^-T)^T J = I_2 (left inverse on the tangent plane)", GRID, fn.name, fn.lineno, "inverse transposed jacobian identity", "M^T J is not the 2x2 identity")
    # embedded positive: a left-handed normal must be rejected
    bad = [V.const(0) - x for x in want["_normals"]]
    r.must_fire(not all(x.eq(y) for x, y in zip(bad, want["_normals"])), "normal with the opposite orientation")


def edge_enumeration(ctx):
    """_numba_enumerate_edges: dictionary memo over the sorted vertex pair of every (element, local edge)."""
    m = ctx.repo.mod(GRID)
    fn = m.fn("_numba_enumerate_edges")
    r = ctx.rule("EDGE-ENUM", "edges are enumerated through a dictionary keyed by the sorted vertex pair: a new key gets the next number and is appended once, a known key reuses its number; every (local edge, element) slot is filled", 1)
    defs = roles.Defs(fn)
    pa = arg_names(fn)
    S = roles.stores(fn.body, defs, lv=False)
    ok, why = False, "structure not recognised"
    rets = [s for s in S if s.op == "return" and isinstance(s.vnode, ast.Tuple) and len(s.vnode.elts) == 2]
    fills = [s for s in S if s.op == "=" and isinstance(s.tnode, ast.Subscript) and len(s.loops) == 2 and not s.guards]
    if len(rets) == 1 and len(fills) == 1 and isinstance(rets[0].vnode.elts[1], ast.Name) and unparse(fills[0].tnode.value) == rets[0].vnode.elts[1].id:
        f = fills[0]
        lE, lL = f.loops
        EE = rets[0].vnode.elts[1].id
        if isinstance(lE.target, ast.Name) and isinstance(lL.target, ast.Name) and isinstance(f.vnode, ast.Name):
            Ei, Li, IDX = lE.target.id, lL.target.id, f.vnode.id
            ex = lambda src, line, **kw: roles.expect(src, defs, line, lv=False, E=pa[0], D=pa[1], I=Ei, L=Li, **kw)
            key = "_vertices_from_edge_index(E[:, I], L)"
            full = roles.canon(lE.iter, defs).replace(" ", "") == ex("range(E.shape[1])", lE.lineno) and roles.canon(lL.iter, defs) == "range(3)"
            slot = f.target == ex("A[L, I]", f.node.lineno, A=EE)
            test_new = (ex("(%s) not in D" % key, f.node.lineno), True)
            test_old = (ex("(%s) not in D" % key, f.node.lineno), False)
            alt_new = (ex("(%s) in D" % key, f.node.lineno), False)
            alt_old = (ex("(%s) in D" % key, f.node.lineno), True)
            idx_defs = [s for s in S if s.op == "=" and isinstance(s.tnode, ast.Name) and s.tnode.id == IDX and s.loops == (lE, lL)]
            new = [s for s in idx_defs if s.guards in ((test_new,), (alt_new,))]
            old = [s for s in idx_defs if s.guards in ((test_old,), (alt_old,))]
            cnt = [s for s in S if s.op == "Add=" and isinstance(s.tnode, ast.Name) and s.loops == (lE, lL) and s.value == "1" and s.guards in ((test_new,), (alt_new,))]
            okn = len(new) == 1 and len(cnt) == 1 and new[0].value == cnt[0].target and new[0].node.lineno < cnt[0].node.lineno
            reg = [s for s in S if s.op == "=" and isinstance(s.tnode, ast.Subscript) and s.target == ex("D[%s]" % key, s.node.lineno) and s.guards in ((test_new,), (alt_new,))
                   and isinstance(s.vnode, ast.Name) and (s.vnode.id == IDX or (bool(cnt) and s.vnode.id == cnt[0].target and s.node.lineno < cnt[0].node.lineno))]
            app = [s for s in S if s.op == "call" and isinstance(s.vnode.func, ast.Attribute) and s.vnode.func.attr == "append" and s.guards in ((test_new,), (alt_new,))
                   and roles.canon(s.vnode.args[0], defs).replace(" ", "") == ex(key, s.node.lineno)]
            oko = len(old) == 1 and old[0].value == ex("D[%s]" % key, old[0].node.lineno)
            init0 = okn and any(isinstance(st, ast.Assign) and unparse(st.targets[0]) == cnt[0].target and isinstance(st.value, ast.Constant) and st.value.value == 0 and st.lineno < lE.lineno for st in fn.body)
            edges_ret = len(app) == 1 and isinstance(app[0].vnode.func.value, ast.Name) and roles.canon(rets[0].vnode.elts[0], defs).replace(" ", "") == ex("_np.array(X).T", rets[0].node.lineno, X=app[0].vnode.func.value.id)
            ok = full and slot and okn and len(reg) == 1 and len(app) == 1 and oko and init0 and edges_ret and len(idx_defs) == 2
            why = ("loops over all (element, local edge): %s; slot element_edges[local, element]: %s; new key -> next number then counter += 1: %s; new key registered in the dictionary: %s; "
                   "appended to the edge list once: %s; known key reuses its number: %s; counter starts at 0: %s; edges returned as array(list).T: %s" % (full, slot, okn, len(reg) == 1, len(app) == 1, oko, init0, edges_ret))
    r.check(ok, "_numba_enumerate_edges", GRID, fn.name, fn.lineno, "edge enumeration memo", why)


def segments_grid(ctx):
    """grid_from_segments keeps exactly the elements whose domain index is selected, with their vertex order, domain indices and coordinates."""
    m = ctx.repo.mod(GRID)
    fn = m.fn("grid_from_segments")
    r = ctx.rule("SEGMENT-GRID", "grid_from_segments: elements with domain index in `segments`, vertex rows renumbered consistently (orientation kept), domain indices and coordinates carried over", 1)
    defs = roles.Defs(fn)
    pa = arg_names(fn)
    S = roles.stores(fn.body, defs, lv=False)
    rets = [s for s in S if s.op == "return"]
    ok, why = False, "structure not recognised"
    if len(rets) == 1 and isinstance(rets[0].vnode, ast.Call) and unparse(rets[0].vnode.func) == "Grid" and len(rets[0].vnode.args) == 3:
        ln = rets[0].node.lineno
        # the element mask
        marks = [s for s in S if s.op == "=" and isinstance(s.tnode, ast.Subscript) and s.value == "True" and len(s.loops) == 1 and len(s.guards) == 1]
        if len(marks) == 1 and isinstance(marks[0].loops[0].target, ast.Name) and isinstance(marks[0].tnode.value, ast.Name):
            MASK, Ei = marks[0].tnode.value.id, marks[0].loops[0].target.id
            ex = lambda src, line=ln, **kw: roles.expect(src, defs, line, lv=False, G=pa[0], SEG=pa[1], MASK=MASK, I=Ei, **kw)
            mask_ok = (marks[0].guards[0] == (ex("G.domain_indices[I] in SEG", marks[0].node.lineno), True) and marks[0].target == ex("MASK[I]", marks[0].node.lineno)
                       and roles.canon(marks[0].loops[0].iter, defs).replace(" ", "") == ex("range(G.number_of_elements)", marks[0].node.lineno))
            a0 = defs.alloc(MASK, ln)
            mask_init = a0 is not None and a0[0] == "expr" and roles.canon(a0[1], defs).replace(" ", "") in (ex("_np.full(G.number_of_elements, False)"), ex("_np.zeros(G.number_of_elements, dtype=bool)"))
            sel = "G.elements[:, MASK]"
            used = "list(set((%s).ravel()))" % sel
            vmaps = [s for s in S if s.op == "=" and isinstance(s.tnode, ast.Subscript) and s.target.endswith("[%s]" % ex(used)) and not s.loops and not s.guards]
            map_ok = False
            if len(vmaps) == 1 and isinstance(vmaps[0].tnode.value, ast.Name):
                VM = vmaps[0].tnode.value.id
                map_ok = vmaps[0].value == ex("_np.arange(len(%s))" % used)
                got = [roles.canon(a, defs).replace(" ", "") for a in rets[0].vnode.args]
                want = [ex("G.vertices[:, %s]" % used), ex("VM[(%s).ravel()].reshape(3, -1)" % sel, VM=VM), ex("G.domain_indices[MASK]")]
                ok = mask_ok and mask_init and map_ok and got == want
                why = "mask = (domain index in segments) over all elements: %s (all-False start: %s); old->new vertex map arange over the used vertices: %s; Grid(vertices[:, used], map[elements[:, mask]] in the same row order, domain_indices[mask]): %s" % (
                    mask_ok, mask_init, map_ok, got == want)
    r.check(ok, "grid_from_segments", GRID, fn.name, fn.lineno, "segment extraction", why)


def neighbour_tables(ctx):
    """Vertex / element / edge neighbour tables are read off the incidence structures they are documented to mirror."""
    m = ctx.repo.mod(GRID)
    r = ctx.rule("NEIGHBOUR-TABLES", "vertex->element incidence pairs position 3e+j of ravel(elements, 'F') with element e; vertex / element neighbours are the CSR rows of that matrix resp. of E^T E; edge neighbours list every element once per edge it carries", 5)
    # incidence matrix: rows = vertex numbers in F order (index 3e+j -> elements[j, e]), columns = repeat(arange(E), 3) (index 3e+j -> e)
    f = m.fn("get_element_to_vertex_matrix")
    d = roles.Defs(f)
    pa = arg_names(f)
    rets = [s for s in roles.stores(f.body, d, lv=False) if s.op == "return"]
    ln = f.body[-1].lineno
    ex = lambda src, **kw: roles.expect(src, d, ln, lv=False, V=pa[0], E=pa[1], **kw)
    rows_f, cols_f = "_np.ravel(E, order='F')", "_np.repeat(_np.arange(E.shape[1]), 3)"
    rows_c, cols_c = "_np.ravel(E)", "_np.tile(_np.arange(E.shape[1]), 3)"
    want = {ex("csr_matrix((_np.ones(len(%s)), (%s, %s)), shape=(V.shape[1], E.shape[1]))" % (rw, rw, cl)) for rw, cl in ((rows_f, cols_f), (rows_c, cols_c))}
    r.check(len(rets) == 1 and rets[0].value in want, "get_element_to_vertex_matrix", GRID, f.name, f.lineno, "vertex-element incidence", "incidence matrix is `%s`" % (rets[0].value[:200] if rets else None))
    f2 = m.fn("get_element_to_element_matrix")
    d2 = roles.Defs(f2)
    p2 = arg_names(f2)
    r2 = [s for s in roles.stores(f2.body, d2, lv=False) if s.op == "return"]
    inc = "get_element_to_vertex_matrix(%s,%s)" % (p2[0], p2[1])
    r.check(len(r2) == 1 and r2[0].value == roles.expect("%s.T.dot(%s)" % (inc, inc), d2, f2.body[-1].lineno, lv=False), "get_element_to_element_matrix", GRID, f2.name, f2.lineno, "element-element vertex counts", "element-to-element matrix is `%s`, expected A^T A of the incidence matrix" % (r2[0].value[:120] if r2 else None))
    # vertex and element neighbours: CSR rows
    f3 = m.fn("Grid._compute_vertex_neighbors")
    S3 = {s.target: s.value for s in roles.stores(f3.body, roles.Defs(f3), lv=False) if s.op == "="}
    r.check(S3.get("self._vertex_neighbors") == "IndexList(self.element_to_vertex_matrix.indices,self.element_to_vertex_matrix.indptr)", "vertex neighbours", GRID, f3.name, f3.lineno, "vertex neighbours",
            "vertex neighbours are `%s`, expected the CSR rows (indices, indptr) of the vertex-element incidence matrix" % S3.get("self._vertex_neighbors"))
    holder = [fn_ for qn, fn_ in m.functions.items() if qn.startswith("Grid.") and any(isinstance(n, ast.Attribute) and n.attr == "_element_neighbors" and isinstance(n.ctx, ast.Store) for n in ast.walk(fn_)) and fn_.name != "__init__"]
    ok4, why4 = False, "assignment of self._element_neighbors not found"
    if len(holder) == 1:
        dh = roles.Defs(holder[0])
        Sh = {s.target: s.value for s in roles.stores(holder[0].body, dh, lv=False) if s.op == "="}
        e2e = "get_element_to_element_matrix(self._vertices,self._elements)"
        ok4 = Sh.get("self._element_neighbors") == "IndexList(%s.indices,%s.indptr)" % (e2e, e2e) and Sh.get("self._element_to_element_matrix") == e2e \
            and Sh.get("self._element_to_vertex_matrix") == "get_element_to_vertex_matrix(self._vertices,self._elements)"
        why4 = "element neighbours `%s`" % Sh.get("self._element_neighbors")
    r.check(ok4, "element neighbours", GRID, holder[0].name if holder else "-", holder[0].lineno if holder else 0, "element neighbours", why4)
    # edge neighbours
    f5 = m.fn("Grid._compute_edge_neighbors")
    d5 = roles.Defs(f5)
    S5 = roles.stores(f5.body, d5, lv=False)
    apps = [s for s in S5 if s.op == "call" and isinstance(s.vnode.func, ast.Attribute) and s.vnode.func.attr == "append"]
    ok5, why5 = False, "append structure not recognised"
    if len(apps) == 1 and len(apps[0].loops) == 2 and not apps[0].guards:
        lE, lL = apps[0].loops
        if isinstance(lE.target, ast.Name) and isinstance(lL.target, ast.Name):
            Ei, Li = lE.target.id, lL.target.id
            base = apps[0].vnode.func.value
            lst = base.value.id if isinstance(base, ast.Subscript) and isinstance(base.value, ast.Name) else None
            full = roles.canon(lE.iter, d5) == "range(self.number_of_elements)" and roles.canon(lL.iter, d5) == "range(3)"
            okc = lst is not None and apps[0].value == roles.expect("X[self.element_edges[L, I]].append(I)", d5, apps[0].node.lineno, lv=False, X=lst, L=Li, I=Ei)
            alloc = d5.alloc(lst, apps[0].node.lineno) if lst else None
            oka = alloc is not None and alloc[0] == "expr" and roles.canon(alloc[1], d5).replace(" ", "") == roles.expect("[[] for _ in range(self.number_of_edges)]", d5, apps[0].node.lineno, lv=False)
            pub = [s for s in S5 if s.target == "self._edge_neighbors"]
            okp = len(pub) == 1 and pub[0].value == roles.expect("[tuple(x) for x in X]", d5, pub[0].node.lineno, lv=False, X=lst) and pub[0].node.lineno > lE.lineno
            ok5 = full and okc and oka and okp
            why5 = "all (element, local edge): %s; element appended to the list of its edge: %s; one empty list per edge: %s; published as tuples: %s" % (full, okc, oka, okp)
    r.check(ok5, "edge neighbours", GRID, f5.name, f5.lineno, "edge neighbours", why5)


# GridData field <- Grid attribute it mirrors (the Numba kernels read the fields, the Python layer the attributes)
GRIDDATA_FIELDS = {
    "vertices": "self._vertices", "elements": "self._elements", "edges": "self._edges", "element_edges": "self._element_edges", "volumes": "self._volumes",
    "normals": "self._normals", "jacobians": "self._jacobians", "jac_inv_trans": "self._jacobian_inverse_transposed", "diameters": "self._diameters",
    "integration_elements": "self._integration_elements", "centroids": "self._centroids", "domain_indices": "self._domain_indices", "vertex_on_boundary": "self._vertex_on_boundary",
    "element_neighbor_indices": "self._element_neighbors.indices", "element_neighbor_indexptr": "self._element_neighbors.indexptr",
}


def griddata_fields(ctx):
    """The compiled containers handed to every Numba kernel carry, field by field, the table of the same name."""
    m = ctx.repo.mod(GRID)
    r = ctx.rule("GRIDDATA-FIELDS", "GridDataDouble / GridDataFloat: every constructor argument is the Grid table its parameter names (dtype conversions aside) and is stored in the field of that name", 4)
    init = m.fn("Grid.__init__")
    defs = roles.Defs(init)
    for cls in ("GridDataDouble", "GridDataFloat"):
        ci = m.fn(cls + ".__init__")
        params = arg_names(ci)[1:]
        if set(params) != set(GRIDDATA_FIELDS):
            raise AnalysisError("%s.__init__ parameters changed: %s" % (cls, sorted(set(params) ^ set(GRIDDATA_FIELDS))))
        Si = {s.target: s.value for s in roles.stores(ci.body, roles.Defs(ci), lv=False) if s.op == "=" and not s.guards and not s.loops}
        bad = [p for p in params if Si.get("self." + p) != p]
        r.check(not bad, "%s.__init__ stores each parameter in its field" % cls, GRID, cls + ".__init__", ci.lineno, "%s field stores %s" % (cls, bad), "parameters not stored in the field of the same name: %s" % bad)
        calls = [c for c in ast.walk(init) if isinstance(c, ast.Call) and unparse(c.func) == cls]
        if len(calls) != 1:
            raise AnalysisError("Grid.__init__: construction of %s not found" % cls)
        c = calls[0]
        got = dict(zip(params, c.args))
        got.update({k.arg: k.value for k in c.keywords})
        wrong = []
        for p in params:
            g = roles.canon(got[p], defs).replace(" ", "") if p in got else None
            if g != GRIDDATA_FIELDS[p]:
                wrong.append("%s <- %s (expected %s)" % (p, g, GRIDDATA_FIELDS[p]))
        r.check(not wrong, "Grid.__init__ -> %s" % cls, GRID, "Grid.__init__", c.lineno, "%s arguments %s" % (cls, wrong[:3]), "; ".join(wrong))
