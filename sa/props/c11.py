"""C11 — Grid topology and geometry data are complete and consistent."""

import ast
from fractions import Fraction as F

from .. import bary, roles
from ..core import AnalysisError
from ..src import arg_names, unparse

LEVEL = "other"
TECHNIQUE = "code-as-table extraction of refinement/union/adjacency patterns checked in exact arithmetic on the reference triangle; writer/reader table agreement; edge-convention sibling lint"
LEVEL_TEXT = (
    "Decides the clauses whose truth is in the shape of the code: children of refine() and of the barycentric "
    "refinement are positively oriented and partition the parent (exact areas on the reference triangle; by affinity "
    "on every grid), domain indices are repeated to match child placement, union() reverses orientation with an odd "
    "permutation exactly under swapped_normals and applies running offsets, adjacency filters use 2 <-> edge / "
    "1 <-> vertex on one element-to-element matrix, the 6-row edge-adjacency layout written equals the layout read by "
    "the singular assembler, boundary flags come from diagonal == 1, and all copies of the local edge convention "
    "agree with _EDGE_LOCAL."
)
LEVEL_NOTE = (
    "Out of reach statically: uniqueness/completeness of the edge enumeration and adjacency tables for arbitrary "
    "triangle soups, and the vectorised numpy geometry (_compute_geometric_quantities) as numbers."
)
EXPLANATION = "pattern tables extracted from Grid.refine, _create_barycentric_connectivity_array, union, _find_*_adjacency, _element_filter, _compute_boundary_information and the edge-length copies"
ASSUMPTIONS = ["affine invariance: areas/orientation/nesting on the reference triangle transfer to every non-degenerate element"]

GRID = bary.GRID
EDGE_COPIES = [
    ("bempp_cl/core/numba_kernels.py", "get_edge_lengths"),
    ("bempp_cl/api/space/maxwell_spaces.py", "_numba_rwg0_evaluate"),
    ("bempp_cl/api/space/maxwell_spaces.py", "_numba_snc0_evaluate"),
    ("bempp_cl/api/space/maxwell_spaces.py", "_numba_snc0_surface_curl"),
    ("bempp_cl/api/fmm/fmm_assembler.py", "compute_rwg_div_transform_impl"),
]


def children_rule(ctx, r, name, children, pts, rel, fname, line, nkids):
    tot = F(0)
    for c, tri in enumerate(children):
        a2 = bary.area2(tri, pts)
        tot += a2
        r.check(a2 > 0, "%s child %d %s oriented" % (name, c, tuple(tri)), rel, fname, line, "%s child %d orientation" % (name, c),
                "child %d %s has signed area %s relative to the parent (must be positive: same orientation)" % (c, tuple(tri), a2 / 2))
    r.check(tot == 1 and len(children) == nkids, "%s area partition" % name, rel, fname, line, "%s children areas" % name,
            "children areas sum to %s of the parent" % tot)
    # vertices conform: every child vertex is a parent vertex, an edge midpoint or the barycentre -> nested
    # and no two children overlap: with total area 1 and all inside the parent, pairwise interiors are disjoint.


def edge_pairs(fn):
    """{k: (a, b)} for statements  X[.., k] = norm(G.vertices[:, G.elements[a, e]] - G.vertices[:, G.elements[b, e]])."""
    out = {}
    for st in ast.walk(fn):
        if not (isinstance(st, ast.Assign) and isinstance(st.targets[0], ast.Subscript) and isinstance(st.value, ast.Call)):
            continue
        if not unparse(st.value.func).endswith("linalg.norm") or not st.value.args:
            continue
        arg = st.value.args[0]
        if not (isinstance(arg, ast.BinOp) and isinstance(arg.op, ast.Sub)):
            continue
        idx = []
        for side in (arg.left, arg.right):
            try:
                inner = side.slice.elts[1]  # G.elements[a, e]
                if unparse(side.value).endswith("vertices") and unparse(inner.value).endswith("elements") and isinstance(inner.slice.elts[0], ast.Constant):
                    idx.append(inner.slice.elts[0].value)
            except AttributeError:
                pass
        sl = st.targets[0].slice
        k = sl.elts[-1] if isinstance(sl, ast.Tuple) else sl
        if len(idx) == 2 and isinstance(k, ast.Constant):
            out[k.value] = tuple(idx)
    return out


def edge_convention(ctx, rule_id="EDGE-CONV"):
    el = bary.edge_local(ctx)
    r = ctx.rule(rule_id, "every copy of the local edge convention uses the vertex pairs of _EDGE_LOCAL in the same order", 6)
    m = ctx.repo.mod(GRID)
    fn = m.fn("_vertices_from_edge_index")
    src = unparse(fn).replace(" ", "")
    r.check("element[_EDGE_LOCAL[local_index]]" in src, "_vertices_from_edge_index", GRID, fn.name, fn.lineno, "_vertices_from_edge_index source of convention",
            "_vertices_from_edge_index no longer reads the vertex pair from _EDGE_LOCAL[local_index]")
    for rel, fname in EDGE_COPIES:
        f = ctx.repo.mod(rel).fn(fname)
        pairs = edge_pairs(f)
        ok = sorted(pairs) == [0, 1, 2] and all(set(pairs[k]) == set(el[k]) for k in range(3))
        r.check(ok, "%s::%s" % (rel.split("/")[-1], fname), rel, fname, f.lineno, "edge length pairs %s" % [pairs.get(k) for k in range(3)],
                "edge lengths use local vertex pairs %s, _EDGE_LOCAL is %s" % ([pairs.get(k) for k in range(3)], el))
    return el


def run(ctx):
    m = ctx.repo.mod(GRID)
    pts = bary.ref_points(ctx)
    # (a) refinement tables
    r = ctx.rule("REFINE-CHILDREN", "children of refine() / barycentric refinement are positively oriented and their areas sum to the parent's", 12)
    kids, mids_ok, dom_ok, ln = bary.refine_table(ctx)
    children_rule(ctx, r, "refine", kids, pts, GRID, "Grid.refine", ln, 4)
    B, bln = bary.barycentric_table(ctx)
    children_rule(ctx, r, "barycentric", B, pts, GRID, "_create_barycentric_connectivity_array", bln, 6)
    ctx.sample({"refine_children": kids, "barycentric_children": B})
    r2 = ctx.rule("REFINE-DATA", "new vertices are edge midpoints indexed by edge number; domain indices repeated 4 (refine) / 6 (barycentric) times to match child placement", 3)
    r2.check(mids_ok, "refine midpoints", GRID, "Grid.refine", ln, "refine midpoint vertices", "midpoint vertex block is not 0.5*(v[edges[0]] + v[edges[1]]) stored after the old vertices")
    r2.check(dom_ok, "refine domain indices", GRID, "Grid.refine", ln, "refine domain indices", "domain indices are not repeated 4 times per element")
    bf = m.fn("barycentric_refinement")
    calls = [c for c in ast.walk(bf) if isinstance(c, ast.Call) and unparse(c.func) == "Grid"]
    okb = len(calls) == 1 and len(calls[0].args) >= 3 and unparse(calls[0].args[2]).replace(" ", "") == "_np.repeat(grid.domain_indices,6)"
    r2.check(okb, "barycentric domain indices", GRID, "barycentric_refinement", bf.lineno, "barycentric domain indices", "domain indices are not repeated 6 times per element")
    # (b) union
    union(ctx)
    # (c) adjacency filters and layout
    adjacency(ctx)
    # (d) boundary flags
    boundary(ctx)
    # (e) edge convention
    edge_convention(ctx)


def union(ctx):
    m = ctx.repo.mod(GRID)
    fn = m.fn("union")
    r = ctx.rule("UNION", "union(): odd vertex permutation exactly under swapped_normals, running vertex/element offsets", 4)
    loops = [s for s in fn.body if isinstance(s, ast.For)]
    main = [l for l in loops if "enumerate(grids)" in unparse(l.iter)]
    if len(main) != 1:
        raise AnalysisError("union: main loop over grids not found")
    loop = main[0]
    iff = [s for s in loop.body if isinstance(s, ast.If)]
    ok_perm = False
    msg = "no `if swapped_normals[index]` branch"
    if iff:
        t = unparse(iff[0].test).replace(" ", "")
        idxname = loop.target.elts[0].id
        gname = loop.target.elts[1].id
        if t == "swapped_normals[%s]" % idxname and iff[0].orelse:
            tv, ev = iff[0].body[0].value, iff[0].orelse[0].value
            perm = None
            if isinstance(tv, ast.Subscript) and unparse(tv.value) == gname + ".elements" and isinstance(tv.slice, ast.Tuple) and isinstance(tv.slice.elts[0], ast.List):
                perm = [e.value for e in tv.slice.elts[0].elts]
            odd = perm is not None and sorted(perm) == [0, 1, 2] and _parity(perm) == 1
            ident = unparse(ev) == gname + ".elements"
            ok_perm = odd and ident
            msg = "swapped branch uses vertex permutation %s (must be odd), unswapped branch `%s`" % (perm, unparse(ev))
    r.check(ok_perm, "orientation reversal", GRID, "union", loop.lineno, "union orientation " + msg, msg)
    src = [unparse(s).replace(" ", "") for s in loop.body]
    r.check(any(s == "elements[:,element_offset:element_offset+nelements]=current_elements+vertex_offset" for s in src), "element offset", GRID, "union",
            loop.lineno, "union element block", "elements are not stored at the running element offset with vertex numbers shifted by the running vertex offset")
    r.check(any(s == "vertices[:,vertex_offset:vertex_offset+nvertices]=%s.vertices" % loop.target.elts[1].id for s in src), "vertex offset", GRID, "union",
            loop.lineno, "union vertex block", "vertices are not stored at the running vertex offset")
    r.check("vertex_offset+=nvertices" in src and "element_offset+=nelements" in src and src.index("vertex_offset+=nvertices") > max(i for i, s in enumerate(src) if "current_elements+vertex_offset" in s),
            "offset updates", GRID, "union", loop.lineno, "union offset updates", "running offsets are not advanced after each grid")


def _parity(p):
    inv = sum(1 for i in range(len(p)) for j in range(i + 1, len(p)) if p[i] > p[j])
    return inv % 2


def adjacency(ctx):
    m = ctx.repo.mod(GRID)
    r = ctx.rule("ADJ-FILTER", "edge adjacency <-> 2 shared vertices, vertex adjacency <-> 1, both from the same element-to-element vertex-count matrix", 4)
    consts = {}
    for nm in ("EDGES_ID", "VERTICES_ID"):
        node = m.assigns.get(nm)
        if node is None or not isinstance(node, ast.Constant):
            raise AnalysisError("constant %s vanished from grid.py" % nm)
        consts[nm] = node.value
    r.check(consts["EDGES_ID"] == 2, "EDGES_ID", GRID, "-", m.assigns["EDGES_ID"].lineno, "EDGES_ID = %s" % consts["EDGES_ID"], "elements sharing an edge share 2 vertices; EDGES_ID is %s" % consts["EDGES_ID"])
    r.check(consts["VERTICES_ID"] == 1, "VERTICES_ID", GRID, "-", m.assigns["VERTICES_ID"].lineno, "VERTICES_ID = %s" % consts["VERTICES_ID"], "vertex-adjacent elements share 1 vertex; VERTICES_ID is %s" % consts["VERTICES_ID"])
    ef = m.fn("_element_filter")
    src = unparse(ef).replace(" ", "")
    r.check("_np.argwhere(nvertices==filter_type)" in src and "elements1[filtered_indices],elements2[filtered_indices]" in src, "_element_filter", GRID, "_element_filter", ef.lineno,
            "_element_filter predicate", "filter is not `nvertices == filter_type` applied to both element arrays")
    g = m.fn("Grid._get_element_adjacency_for_edges_and_vertices")
    defs = roles.Defs(g)
    calls = {unparse(c.func): c for c in ast.walk(g) if isinstance(c, ast.Call)}
    want = {
        "_find_vertex_adjacency": "VERTICES_ID", "_find_edge_adjacency": "EDGES_ID",
    }
    okg = True
    why = []
    for fname, cid in want.items():
        c = calls.get(fname)
        if c is None or len(c.args) != 3:
            okg = False
            why.append("%s call missing" % fname)
            continue
        a1, a2 = roles.canon(c.args[1], defs), roles.canon(c.args[2], defs)
        base = "_element_filter(_get_element_to_element_vertex_count(get_element_to_element_matrix(self._vertices,self._elements))[0],_get_element_to_element_vertex_count(get_element_to_element_matrix(self._vertices,self._elements))[1],_get_element_to_element_vertex_count(get_element_to_element_matrix(self._vertices,self._elements))[2],%s)" % cid
        if a1 != base + "[0]" or a2 != base + "[1]" or roles.canon(c.args[0], defs) != "self._elements":
            okg = False
            why.append("%s receives (%s, %s)" % (fname, a1[-60:], a2[-60:]))
    r.check(okg, "adjacency construction", GRID, g.name, g.lineno, "adjacency construction " + "; ".join(why), "; ".join(why))
    # layout written by _find_edge_adjacency / _find_vertex_adjacency
    r2 = ctx.rule("ADJ-LAYOUT", "edge adjacency rows are [elem0, elem1, i0, i1, j0, j1] and vertex adjacency rows [test, trial, i, j]: the layout the singular assembler reads", 2)
    fe = m.fn("_find_edge_adjacency")
    se = unparse(fe).replace(" ", "")
    oke = ("adjacency[0,index]=elem0" in se and "adjacency[1,index]=elem1" in se and "adjacency[2:,index]=index_pairs.flatten()" in se
           and "_np.zeros((6,number_of_indices)" in se and "index_pairs=_get_shared_edge_information_for_two_elements(elements,elem0,elem1)" in se)
    # index_pairs[:, c] = (i_c, j_c): rows are test-local / trial-local, so flatten() is [i0, i1, j0, j1]
    f2 = m.fn("_find_two_common_array_index_pairs")
    s2 = unparse(f2).replace(" ", "")
    oke = oke and "index_pairs[:,0]=_find_first_common_array_index_pair_from_position(array1,array2,offset)" in s2 and "index_pairs[:,1]=" in s2
    r2.check(oke, "_find_edge_adjacency", GRID, fe.name, fe.lineno, "edge adjacency row layout", "rows are no longer written as [elem0, elem1, index_pairs.flatten()] with index_pairs[:, c] = (i_c, j_c)")
    fv = m.fn("_find_vertex_adjacency")
    sv = unparse(fv).replace(" ", "")
    okv = "adjacency[:,index]=(test_index,trial_index,i,j)" in sv and "i,j=_get_shared_vertex_information_for_two_elements(elements,test_index,trial_index)" in sv
    r2.check(okv, "_find_vertex_adjacency", GRID, fv.name, fv.lineno, "vertex adjacency row layout", "rows are no longer written as (test, trial, i, j)")


def boundary(ctx):
    m = ctx.repo.mod(GRID)
    fn = m.fn("Grid._compute_boundary_information")
    r = ctx.rule("BOUNDARY-FLAGS", "edge on boundary <=> exactly one adjacent element (diagonal of E^T E == 1); vertices of boundary edges flagged", 1)
    defs = roles.Defs(fn)
    s = unparse(fn).replace(" ", "")
    ok = ("arr1=edge_to_edge.diagonal()==1" in s and "edge_to_edge=element_to_edge.T.dot(element_to_edge)" in s
          and "arr0[self.edges[:,boundary_edge_index]]=True" in s and "forboundary_edge_indexin_np.flatnonzero(arr1)" in s
          and "self._vertex_on_boundary=arr0" in s and "self._edge_on_boundary=arr1" in s)
    r.check(ok, "_compute_boundary_information", GRID, fn.name, fn.lineno, "boundary flag construction", "boundary flags are no longer derived from diagonal(E^T E) == 1 / the vertices of those edges")
