"""C07 — Boundary operators between disjoint grids equal Galerkin-tested potentials."""

import ast

from . import c06, c11
from .. import assemblers as A
from .. import argbind, fx, geom, grideq, kernels as K, roles, rules, singular
from ..alg import I, V
from ..core import AnalysisError
from ..src import unparse
from ..symex import opaque_atom

LEVEL = "other"
TECHNIQUE = "registry sibling lint + symbolic agreement of the trial-side integrand of the regular assemblers with the potential kernels + call-site provenance of the grids_identical gates (both worlds interpreted); abstract execution of the parameter resolution and of the wavenumber dispatch; package-wide argument-forwarding lint"
LEVEL_TEXT = (
    "Decides that the boundary (mode 'regular') and potential (mode 'potential') paths evaluate one and the same "
    "Green's-function object per kernel type, that the trial-side factor of every regular assembler equals the "
    "per-source factor of the corresponding potential kernel (scalar, Maxwell magnetic; the electric field up to the "
    "integration by parts stated in the property), that for different grids no pair is skipped and no singular part "
    "is added (one expression gates both), and that point clouds use the element-major layout of the assemblers."
)
LEVEL_NOTE = "Not decided: rounding-level equality of the assembled numbers; the electric-field clause holds only up to quadrature error by the statement itself."
EXPLANATION = "rules REG-MODES, FACTORY-*, ASM-REGULAR, POT-SUM, SPEC-AGREE, GATE, GRID-IDENTITY, GEOM-AFFINE, LAUNCH-ROLES, POINT-CLOUD, ASSEMBLER-PLUMBING, ARG-FORWARDED, ADJ-9, PIOLA, EDGE-CONV"
ASSUMPTIONS = ["Numba arithmetic semantics"]  # (that grids compare equal iff they are the same grid is decided: rule GRID-IDENTITY)

NK = K.NK


def registry_modes(ctx):
    m = ctx.repo.mod(NK)
    fn = m.fn("select_numba_kernels")
    r = ctx.rule("REG-MODES", "select_numba_kernels: modes 'regular' and 'potential' take the Green's function from the same registry; each mode pairs its own assembly registry", 4)
    # the dispatch is executed for each mode (finite-domain abstract execution; not a match on how the tests are spelled,
    # nor on what the local dicts are called: a registry is identified by the mode it is returned for)
    from .. import selectk

    probs = selectk.mode_problems(ctx)
    roles = K.registry_roles(ctx)
    for mode in K.ROLE_NAMES:
        r.check(not probs[mode], "mode " + mode, NK, fn.name, fn.lineno, "mode %s returns (%s, %s)" % (mode, roles[mode][0], roles[mode][1]), "; ".join(probs[mode]))


def spec_agreement(ctx):
    """Trial-side factor of the regular integrand spec == per-source factor of the potential spec."""
    r = ctx.rule("SPEC-AGREE", "regular-assembler integrand = (test function, test weight, test Jacobian) x potential-kernel summand with the same Green's function, element, point, weight, Jacobian, basis value and multiplier", 2)
    q = V.atom("q")
    Er = opaque_atom("E'")
    xi = [opaque_atom("quad_points", [0, q]), opaque_atom("quad_points", [1, q])]
    f = V.atom("f")
    # scalar
    tp = A.Pt("G", opaque_atom("E"), [V.atom("ξ0"), V.atom("ξ1")], V.atom("wx"), "nm")
    rp = A.Pt("G", Er, xi, opaque_atom("quad_weights", [q]), "nm")
    kp = [K.KR, K.KI]
    reg_core = A.integrand_core("default_scalar", tp, rp, V.atom("i"), f, kp) * rp.weight * rp.J()
    P = tp.X()
    pot = A.potential_spec("default_scalar", P, rp, f, kp, 0)
    # identify: test normal is not passed to the potential kernel (dummy zeros); shapeset names differ by role only
    env = {}
    for a in list(reg_core.atoms()):
        if a.startswith("K⟨"):
            desc, idx = A.symex.ATOMS[a]
            idx2 = list(idx[:6]) + [V.const(0)] * 3 + list(idx[9:])
            env[a] = opaque_atom("K", idx2)
    reg2 = reg_core.subs(env)
    coeff = opaque_atom("x", [opaque_atom("#nshape") * rp.elem + f])
    lhs = reg2
    rhs = pot.subs({A._single_atom(coeff): V.const(1), A._single_atom(rp.phi("shapeset", f)): rp.phi("trial_shapeset", f)}) * tp.phi("test_shapeset", V.atom("i"))
    r.check(lhs.eq(rhs), "default_scalar", NK, "default_scalar_regular_kernel", 0, "scalar regular vs potential spec",
            "trial-side factor of the scalar regular integrand differs from the potential-kernel summand (up to the unused test normal)")
    # Maxwell magnetic: boundary core == - RT_test . H_potential
    tpm = A.Pt("G", opaque_atom("E"), [V.atom("ξ0"), V.atom("ξ1")], V.atom("wx"), "nm")
    core_b = A.integrand_core("maxwell_magnetic_field", tpm, rp, V.atom("i"), f, kp) * rp.weight * rp.J()
    H = [A.potential_spec("maxwell_magnetic_field", tpm.X(), rp, f, kp, d).subs({A._single_atom(coeff): V.const(1)}) for d in range(3)]
    rt = tpm.RT(V.atom("i"))
    tested = A.dot3(rt, H) * tpm.ell(V.atom("i"))
    r.check(core_b.eq(-tested), "maxwell_magnetic_field", NK, "maxwell_mfield_regular_assembler", 0, "magnetic regular vs potential spec",
            "magnetic-field regular integrand is not -(RT_test . H) of the magnetic potential summand")


def gates(ctx):
    r = ctx.rule("GATE", "adjacency skipping and the singular part are gated by the same expression domain.grid == dual_to_range.grid; for different grids SingularAssembler returns zero", 1)
    m = ctx.repo.mod(singular.SA)
    fn = m.fn("SingularAssembler.assemble")
    defs = roles.Defs(fn)
    ok = False
    for st in fn.body:
        if isinstance(st, ast.If) and any(isinstance(s, ast.Return) for s in st.body):
            c = roles.canon(st.test, defs)
            ok = ok or c == roles.canon_text("return_compatible_representation(self.domain, self.dual_to_range)[0].grid != return_compatible_representation(self.domain, self.dual_to_range)[1].grid")
    r.check(ok, "SingularAssembler.assemble", singular.SA, fn.name, fn.lineno, "singular assembler different-grid early return", "no early zero return for domain.grid != dual_to_range.grid")


def run(ctx):
    registry_modes(ctx)
    rules.factory_sites(ctx, "boundary")
    rules.factory_sites(ctx, "potential")
    rules.factory_sites(ctx, "far_field")
    rules.assembler_integrands(ctx, kinds=("regular",))
    rules.potential_kernels(ctx)
    spec_agreement(ctx)
    rules.launch_sites(ctx, which=("dense", "potential"))
    singular.check_scatter(ctx)
    gates(ctx)
    grideq.grid_identity(ctx)
    geom.local2global_rule(ctx)
    geom.point_cloud(ctx)
    fx.assembler_plumbing(ctx)  # 'all quadrature orders': the order given with the operator is the order the assembler integrates with
    argbind.forwarded_optionals(ctx)
    rules.elements_adjacent_complete(ctx)  # the predicate that routes a pair to the singular rule (ADJ-9)
    c06.piola(ctx)  # the Maxwell kernels read the Piola-mapped functions and edge lengths from these helpers
    c11.edge_convention(ctx)
    from .. import spaces as _spaces

    _spaces.localised_inherit(ctx)  # singular parts, sparse forms, potentials and FMM point maps are computed on the localised companion space
    from .. import state as _state

    _state.process_state(ctx)  # spaces and their localised companions are built per space, not served from a module-level table under an incomplete key
    from .. import fx as _fx, argbind as _ab

    _fx.parameter_resolution(ctx)  # the quadrature order given with an operator is the order its assembler integrates with
    _fx.assembler_plumbing(ctx)
    _ab.forwarded_optionals(ctx)
    from .. import singular as _sing

    _sing.check_segments(ctx)  # (tools/wiring.py) the singular part of every dense operator: per-pair segments, offsets
    _sing.check_offsets(ctx)
    from . import c05 as _c05

    _c05.dispatch(ctx)  # (tools/wiring.py) Helmholtz boundary and potential factories hand a purely imaginary wavenumber to the same modified-Helmholtz kernel with the same omega
    from . import c11 as _c11g

    _c11g.geometry(ctx)  # (tools/wiring.py) normals, Jacobians, integration elements against their definitions for a general triangle of any size
