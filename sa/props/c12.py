"""C12 — Quadrature rules have their stated degree of exactness."""

import ast
from decimal import Decimal

from .. import duffy, tab
from ..core import AnalysisError
from ..minieval import Mini, NDA, Raised

LEVEL = "exploration"
TECHNIQUE = "exhaustive exact-arithmetic table lint (all orders x all monomials) + symbolic change-of-variables proof of the Duffy regions; symbolic interpretation of the rule builder with definite-defect reporting (uninitialised reads, untaken branches, non-tensor weights)"
LEVEL_TEXT = (
    "The space is finite and is enumerated completely: every tabulated triangle rule (orders 1..20) against every "
    "monomial up to its order, every Gauss rule (1..30 points) against every degree up to 2n-1, with the literals "
    "read as exact decimals and a first-order error bound from their printed precision; lookups outside the ranges "
    "are interpreted to the raise statement.  The Duffy/Sauter-Schwab rules are decided symbolically for every "
    "order at once: each region's weight equals the Jacobian determinant of its point map and the regions "
    "integrate every monomial over the product of two reference triangles exactly."
)
LEVEL_NOTE = (
    "A literal changed by less than its own printed precision is not detectable (and not observable).  Not decided: "
    "geometric convergence to reference values of the 1/|x-y| integral (a limit statement about a non-polynomial "
    "integrand).  The accessor is interpreted by the checker's own exact evaluator, not executed."
)
EXPLANATION = (
    "exhaustive over orders and monomials; literals are exact decimals with +-half-unit-in-last-digit bounds; "
    "Duffy regions by exact polynomial algebra (Jacobian determinants, exact integrals over [0,1]^4)"
)
ASSUMPTIONS = [
    "numpy slicing/reshape(order='F')/vstack semantics as modelled in sa/minieval.py",
    "each table literal is the correct rounding of the exact node/weight to its printed digits iff the residual is within the propagated bound",
]

TG = "bempp_cl/api/integration/triangle_gauss.py"
GA = "bempp_cl/api/integration/gauss.py"
DG = "bempp_cl/api/integration/duffy_galerkin.py"


def _guard(ctx, r, rel, maxorder, globs):
    m = ctx.repo.mod(rel)
    for order in (0, -1, -7, -maxorder + 1, -maxorder, -maxorder - 1, maxorder + 1, maxorder + 2, 10**6):
        ev = Mini(m, globs)
        try:
            ev.call("rule", [order])
            ok, why = False, "lookup for order %d returns a rule" % order
        except Raised as e:
            ok = e.exc.endswith("ValueError")
            why = "order %d raises %s" % (order, e.exc)
        r.check(ok, "%s rule(%d)" % (rel.split("/")[-1], order), rel, "rule", m.fn("rule").lineno,
                "out-of-range order %d not rejected" % order, why + " (expected: rejected with ValueError; a negative index into a table wraps and does not raise)")


def triangle(ctx):
    m = ctx.repo.mod(TG)
    coords = tab.literal_array(m, "coords")
    weights = tab.literal_array(m, "weights")
    ppo = tab.int_array(m, "points_per_order")
    addr = tab.int_array(m, "points_address")
    globs = {
        "coords": NDA.from_lits(coords), "weights": NDA.from_lits(weights),
        "points_per_order": NDA((len(ppo),), [Decimal(x) for x in ppo], [Decimal(0)] * len(ppo)),
        "points_address": NDA((len(addr),), [Decimal(x) for x in addr], [Decimal(0)] * len(addr)),
    }
    fn = m.fn("rule")
    # range guard
    r_g = ctx.rule("TRI-GUARD", "triangle rule lookups outside 1..20 raise ValueError before touching a table", 6)
    nrules = len(ppo)
    _guard(ctx, r_g, TG, nrules, globs)
    # address table: prefix sums over existing rules, tiling
    r_a = ctx.rule("TRI-ADDRESS", "points_address of every existing rule is the prefix sum of the preceding rule sizes; tables are tiled exactly", 1)
    existing = [n + 1 for n, a in enumerate(addr) if a >= 0]
    run = 0
    bad = []
    for n in existing:
        if addr[n - 1] != run:
            bad.append((n, addr[n - 1], run))
        run += n
    if len(weights) != run or len(coords) != 3 * run:
        bad.append(("table lengths", len(weights), len(coords), run))
    missing = [n for n in ppo if n not in existing]
    r_a.check(not bad and not missing, "points_address", TG, "-", m.assigns["points_address"].lineno,
              "address table inconsistent: %s %s" % (bad[:3], missing[:3]),
              "address/size mismatch (rule size, stored address, expected): %s; orders pointing to non-existing rules: %s" % (bad[:3], missing[:3]))
    # barycentric triples
    r_b = ctx.rule("TRI-BARY", "every tabulated barycentric triple sums to 1 (within printed precision)", 1)
    badt = []
    for j in range(len(coords) // 3):
        tr = coords[3 * j : 3 * j + 3]
        s = sum(t.v for t in tr)
        if abs(s - 1) > sum(t.h for t in tr) * 2 + Decimal("1e-40"):
            badt.append((j, tr[0].line, str(s)))
    r_b.check(not badt, "coords triples (%d)" % (len(coords) // 3), TG, "-", badt[0][1] if badt else 0,
              "barycentric triple %s" % (badt[0][0] if badt else ""), "triples not summing to one: %s" % badt[:3])
    # exactness
    r_e = ctx.rule("TRI-EXACT", "triangle rule of order n integrates every monomial x^a y^b, a+b <= n, exactly (within the literals' precision)", 20)
    evals = 0
    for order in range(1, nrules + 1):
        ev = Mini(m, globs)
        try:
            pts, wts = ev.call("rule", [order])
        except Raised as e:
            r_e.fail("order %d" % order, TG, "rule", fn.lineno, "order %d raises" % order, "rule(%d) raises %s" % (order, e.exc))
            continue
        n = wts.shape[0]
        if pts.shape != (2, n) or n != ppo[order - 1]:
            r_e.fail("order %d" % order, TG, "rule", fn.lineno, "order %d shape" % order, "rule(%d) returns shapes %s %s" % (order, pts.shape, wts.shape))
            continue
        worst = None
        for a in range(order + 1):
            for b in range(order + 1 - a):
                s = Decimal(0)
                err = Decimal(0)
                for j in range(n):
                    x, y, w = pts.v[j], pts.v[n + j], wts.v[j]
                    ex, ey, ew = pts.e[j], pts.e[n + j], wts.e[j]
                    xa = x**a if a else Decimal(1)
                    yb = y**b if b else Decimal(1)
                    s += w * xa * yb
                    err += ew * abs(xa * yb)
                    if a:
                        err += abs(w) * a * abs(x) ** (a - 1) * abs(yb) * ex
                    if b:
                        err += abs(w) * b * abs(y) ** (b - 1) * abs(xa) * ey
                exact = Decimal(tab.factorial(a) * tab.factorial(b)) / Decimal(tab.factorial(a + b + 2))
                evals += 1
                res = abs(s - exact)
                tol = err * Decimal("1.01") + Decimal("1e-30")
                if res > tol and (worst is None or res / tol > worst[0]):
                    worst = (res / tol, a, b, res, tol)
        r_e.check(worst is None, "order %d (%d points, %d monomials)" % (order, n, (order + 1) * (order + 2) // 2), TG, "rule", fn.lineno,
                  "order %d monomial x^%s y^%s" % ((order,) + ((worst[1], worst[2]) if worst else ("", ""))),
                  "residual %s exceeds the precision bound %s of the printed literals" % (("%.3e" % float(worst[3]), "%.3e" % float(worst[4])) if worst else ("", "")))
        if order in (1, 7, 20):
            ctx.sample({"table": "triangle", "order": order, "points": n, "monomials": (order + 1) * (order + 2) // 2})
    return evals


def gauss(ctx):
    m = ctx.repo.mod(GA)
    coords = tab.literal_array(m, "coords")
    weights = tab.literal_array(m, "weights")
    globs = {"coords": NDA.from_lits(coords), "weights": NDA.from_lits(weights)}
    fn = m.fn("rule")
    # number of tabulated rules from the table length n(n+1)/2
    nmax = 0
    while (nmax + 1) * (nmax + 2) // 2 <= len(weights):
        nmax += 1
    r_l = ctx.rule("GAUSS-LEN", "Gauss tables hold exactly n(n+1)/2 entries for the advertised maximum n", 1)
    r_l.check(nmax * (nmax + 1) // 2 == len(weights) == len(coords), "gauss table lengths", GA, "-", m.assigns["coords"].lineno,
              "gauss table lengths %d/%d" % (len(coords), len(weights)), "coords/weights lengths %d/%d are not a triangular number" % (len(coords), len(weights)))
    r_g = ctx.rule("GAUSS-GUARD", "Gauss rule lookups outside 1..30 raise ValueError before touching a table", 6)
    _guard(ctx, r_g, GA, nmax, globs)
    r_e = ctx.rule("GAUSS-EXACT", "n-point Gauss rule on [0,1] integrates x^d, d <= 2n-1, exactly (within the literals' precision)", 30)
    evals = 0
    for n in range(1, nmax + 1):
        ev = Mini(m, globs)
        try:
            pts, wts = ev.call("rule", [n])
        except Raised as e:
            r_e.fail("n=%d" % n, GA, "rule", fn.lineno, "n=%d raises" % n, "rule(%d) raises %s" % (n, e.exc))
            continue
        if pts.shape != (n,) or wts.shape != (n,):
            r_e.fail("n=%d" % n, GA, "rule", fn.lineno, "n=%d shape" % n, "rule(%d) returns %s/%s entries" % (n, pts.shape, wts.shape))
            continue
        worst = None
        for d in range(2 * n):
            s = Decimal(0)
            err = Decimal(0)
            for j in range(n):
                x, w, ex, ew = pts.v[j], wts.v[j], pts.e[j], wts.e[j]
                xd = x**d if d else Decimal(1)
                s += w * xd
                err += ew * abs(xd) + (abs(w) * d * abs(x) ** (d - 1) * ex if d else 0)
            evals += 1
            res = abs(s - Decimal(1) / Decimal(d + 1))
            tol = err * Decimal("1.01") + Decimal("1e-30")
            if res > tol and (worst is None or res / tol > worst[0]):
                worst = (res / tol, d, res, tol)
        r_e.check(worst is None, "n=%d (degrees 0..%d)" % (n, 2 * n - 1), GA, "rule", fn.lineno,
                  "n=%d degree %s" % (n, worst[1] if worst else ""),
                  "residual %s exceeds the precision bound %s" % (("%.3e" % float(worst[2]), "%.3e" % float(worst[3])) if worst else ("", "")))
    ctx.sample({"table": "gauss", "n": nmax, "degrees": 2 * nmax})
    return evals


def run(ctx):
    ev1 = triangle(ctx)
    ev2 = gauss(ctx)
    ev3 = duffy.check(ctx, max_degree=8 if ctx.thorough else 4)
    duffy.remaps(ctx)
    ctx.extra["evaluations"] = ev1 + ev2 + ev3
    ctx.extra["exhaustive"] = True


def level_keys(ctx):
    n = sum(len(r.instances) for r in ctx.rules.values())
    return {
        "evaluations": ctx.extra.get("evaluations", n),
        "distinct_nontrivial": len({(r.id, i["instance"]) for r in ctx.rules.values() for i in r.instances}),
        "rule": "cases = (rule table, order, monomial) triples and (Duffy adjacency, region, monomial) triples enumerated completely; "
                "distinct = distinct (checker rule, order/region) obligations; a case is non-trivial when the monomial is integrated against at least one node",
        "exhaustive": True,
    }
