"""C04 — Operators on a subspace are congruence transforms of those on a larger space."""

from .. import bary, rules, singular, sparse, spaces
from . import c11

LEVEL = "other"
TECHNIQUE = "symbolic extraction of the assembler scatter (entrywise T' A T), role typing of support filters and launch arguments, coefficient-map construction, refinement table lints"
LEVEL_TEXT = (
    "Decides that every regular assembler accumulates each local contribution through local2global of the correct "
    "role with multiplier degree exactly (1,1) -- which is T' A T entrywise --, that the singular part is scattered "
    "the same way in both consumers, that singular pairs and sparse elements are filtered with the test support on "
    "the test element and the trial support on the trial element, that map_to_full_grid is the matrix T the "
    "statement names, and that refine() / barycentric refinement produce nested, orientation-preserving children "
    "(the structural half of the prolongation clause)."
)
LEVEL_NOTE = "Not decided: the P1/RWG dof-map loops on arbitrary meshes (program verification), prolongation equality up to quadrature error (numerical)."
EXPLANATION = "rules ASM-REGULAR (scatter, 6 assemblers), SING-SCATTER, SING-SUPPORT, SING-LAYOUT, SPARSE-ROLES/SCATTER, SPACE-MAPS, LAUNCH-ROLES, REFINE-CHILDREN, REFINE-DATA, IDX-ELEM-BY-POSITION, DOF-BY-ENTITY, ADJ-9"
ASSUMPTIONS = ["local2global / local_multipliers tables describe T (C09)", "np.add.at and COO assembly accumulate duplicates"]


def run(ctx):
    rules.assembler_integrands(ctx, kinds=("regular",))
    rules.launch_sites(ctx, which=("dense", "singular"))
    singular.check_scatter(ctx)
    singular.check_support_filters(ctx)
    singular.check_result_layout(ctx)
    sparse.assembler(ctx)
    sparse.kernels(ctx)  # the element integrals the sparse scatter distributes: taken on the element, not its position
    spaces.coefficient_maps(ctx)
    spaces.localised_inherit(ctx)
    c11.refinement(ctx)  # children 4e+k tile their parent, midpoints by edge number, the parents' domain indices repeated
    # subspaces live on subsets of the elements: tables numbered by element must never be read by position, and the
    # dof maps of the continuous spaces must number by mesh entity (the same dof on a segment and on the whole grid)
    from .. import gridfun

    gridfun.repo_lints(ctx)
    spaces.dof_by_entity(ctx)
    rules.elements_adjacent_complete(ctx)  # the predicate that routes a pair to the singular rule (ADJ-9)
    from .. import intwidth

    intwidth.int_narrowing(ctx)  # index / offset arrays must not wrap
    from .. import state as _state

    _state.process_state(ctx)  # a subspace and its localised companion are built per space: no table shared through module-level state under an incomplete key
    from .. import misc_guards as _mg

    _mg.inverse_dof_map(ctx)  # (tools/wiring.py) the subspace's global2local is what its colouring and congruence map are read from
    from .. import singular as _sing

    _sing.check_segments(ctx)  # (tools/wiring.py) the singular part of every dense operator: per-pair segments, offsets
    _sing.check_offsets(ctx)
