"""C05 — Helmholtz-family operators are consistent with Laplace and with each other."""

import ast

from .. import factories, kernels as K, rules
from ..alg import I, INV4PI, Poly, V
from ..core import AnalysisError
from ..src import arg_names, call_arg, unparse

LEVEL = "other"
TECHNIQUE = "symbolic normal-form extraction of kernel/assembler source (exact polynomial algebra) + AST dispatch-site lint"
LEVEL_TEXT = (
    "All kernel-family identities of the statement are decided for every point pair, normal and wavenumber by exact "
    "algebra on expressions extracted from the source; dispatch sites are decided by dataflow on the AST. "
    "Obligations are counted per kernel/relation/site."
)
LEVEL_NOTE = (
    "Decides the algebraic/structural clauses only; singular-quadrature error of the symmetry clauses and the "
    "entrywise |k|^2 bounds (implied by the closed forms) are not decided. Trusted: Numba's arithmetic semantics for "
    "the numeric subset, the checker's own algebra."
)
EXPLANATION = (
    "Decides, for all points/normals/wavenumbers at once, the algebraic identities between the Helmholtz, "
    "modified Helmholtz and Laplace Green's-function kernels (closed forms, k=(0,w) == modified, k=0 == Laplace, "
    "k -> -conj(k) == conjugate, x<->y symmetry, ADL == transposed DL, first-order expansion in k), the "
    "`if k_imag != 0` fast paths, the -k^2 / +omega^2 terms of the hypersingular integrands, and the dispatch of "
    "purely imaginary wavenumbers to the modified Helmholtz factories, by exact polynomial arithmetic on normal "
    "forms extracted from the source.  Not decided: the size of singular-quadrature error in the symmetry "
    "clauses; the entrywise |k|^2 bounds follow from the closed forms by analysis outside the code."
)
ASSUMPTIONS = [
    "Numba executes the restricted numeric subset (loops, +=, np.sqrt/exp/cos/sin) with ordinary real/complex arithmetic",
    "atoms x,y,n,kr,ki,w are real; sqrt atoms satisfy S^2 = radicand only",
    "kernel functions are reached only through the registries of select_numba_kernels",
]

NK = K.NK
LAYERS = ("single_layer", "double_layer", "adjoint_double_layer")


def swap_xy(v, normals=False):
    env = {}
    for i in range(3):
        env["x%d" % i] = K.Y[i]
        env["y%d" % i] = K.X[i]
        if normals:
            env["nx%d" % i] = K.NY[i]
            env["ny%d" % i] = K.NX[i]
    return v.subs(env)


def run(ctx):
    from .. import extents, selectk, singoff

    # the hypersingular assemblers of this property: index / extent agreement and the cut of the stacked singular rules
    extents.index_extents(ctx)
    singoff.offset_roles(ctx)
    selectk.select_modes(ctx)
    reg = K.registries(ctx)
    vals = {}
    r_spec = ctx.rule("K-SPEC", "each registered Laplace/Helmholtz/modified kernel == closed form (G, dG/dn_y, dG/dn_x)", 18)
    r_fast = ctx.rule("K-FAST", "`if k_imag != 0` fast path: skipped path == taken path at k_imag = 0", 6)
    for regname, sing in (("kernel_functions_regular", False), ("kernel_functions_singular", True)):
        for kt, fname in sorted(reg[regname].items()):
            if "far_field" in kt:
                continue
            fam, layer = K.split_type(kt)
            if layer not in LAYERS:
                continue
            v, ifs, ok = K.extract_checked(ctx, fname, sing, K.n_params(kt))
            vals[(kt, sing)] = v
            line = ctx.repo.mod(NK).fn(fname).lineno
            r_spec.check(
                v.eq(K.spec(kt)), "%s (%s)" % (fname, kt), NK, fname, line, kt + " != closed form",
                "kernel value differs from closed form of %s" % kt,
            )
            if ifs:
                r_fast.check(ok, fname, NK, fname, line, "fast path " + ",".join(ifs),
                             "value with the `%s != 0` block skipped differs from the full value at %s = 0" % (ifs[0], ifs[0]))
            elif fam == "helmholtz":
                r_fast.ok(fname, "no fast path")
    ctx.sample({"kernel": "helmholtz_single_layer_regular", "normal_form": repr(vals[("helmholtz_single_layer", False)])[:300]})

    r_mod = ctx.rule("K-MOD", "helmholtz_*[kr:=0, ki:=w] == modified_helmholtz_*[w]", 6)
    r_lap = ctx.rule("K-LAP", "helmholtz_*[k:=0] == laplace_* and modified[w:=0] == laplace_*", 12)
    r_conj = ctx.rule("K-CONJ", "helmholtz_*[kr:=-kr] == complex conjugate (k -> -conj k)", 6)
    r_sym = ctx.rule("K-SYM", "SL symmetric under x<->y; ADL(x,y,n_x) == DL(y,x,n_y:=n_x)", 12)
    r_exp = ctx.rule("K-EXPAND", "d/dk helmholtz SL at k=0 == i/(4 pi); d/dk DL, ADL at k=0 == 0", 6)
    for sing in (False, True):
        tag = "singular" if sing else "regular"
        for layer in LAYERS:
            h = vals.get(("helmholtz_" + layer, sing))
            m = vals.get(("modified_helmholtz_" + layer, sing))
            l = vals.get(("laplace_" + layer, sing))
            if h is None or m is None or l is None:
                raise AnalysisError("kernel family incomplete for %s/%s" % (layer, tag))
            fn_h = reg["kernel_functions_singular" if sing else "kernel_functions_regular"]["helmholtz_" + layer]
            fn_m = reg["kernel_functions_singular" if sing else "kernel_functions_regular"]["modified_helmholtz_" + layer]
            ln = ctx.repo.mod(NK).fn(fn_h).lineno
            inst = "%s/%s" % (layer, tag)
            r_mod.check(h.subs({"kr": Poly(), "ki": Poly.atom("w")}).eq(m), inst, NK, fn_h, ln,
                        "helmholtz_%s[k=iw] != modified" % layer,
                        "%s at k = i*w differs from %s at omega = w" % (fn_h, fn_m))
            r_lap.check(h.subs({"kr": Poly(), "ki": Poly()}).eq(l), inst + " helmholtz", NK, fn_h, ln,
                        "helmholtz_%s[k=0] != laplace" % layer, "%s at k = 0 differs from the Laplace kernel" % fn_h)
            r_lap.check(m.subs({"w": Poly()}).eq(l), inst + " modified", NK, fn_m, ctx.repo.mod(NK).fn(fn_m).lineno,
                        "modified_%s[w=0] != laplace" % layer, "%s at omega = 0 differs from the Laplace kernel" % fn_m)
            r_conj.check(h.subs({"kr": -Poly.atom("kr")}).eq(h.conj()), inst, NK, fn_h, ln,
                         "helmholtz_%s[-conj k] != conj" % layer, "%s: replacing k by -conj(k) does not conjugate the kernel" % fn_h)
            dk = h.diff("kr").subs({"kr": Poly(), "ki": Poly()})
            dki = h.diff("ki").subs({"kr": Poly(), "ki": Poly()})
            if layer == "single_layer":
                okx = dk.eq(I * INV4PI) and dki.eq(-INV4PI)
            else:
                okx = dk.iszero() and dki.iszero()
            r_exp.check(okx, inst, NK, fn_h, ln, "d/dk helmholtz_%s at 0" % layer,
                        "first-order term in k of %s is not %s" % (fn_h, "i/(4 pi)" if layer == "single_layer" else "0"))
        for fam in ("helmholtz", "modified_helmholtz"):
            sl = vals[(fam + "_single_layer", sing)]
            dl = vals[(fam + "_double_layer", sing)]
            adl = vals[(fam + "_adjoint_double_layer", sing)]
            regn = "kernel_functions_singular" if sing else "kernel_functions_regular"
            f_sl = reg[regn][fam + "_single_layer"]
            f_adl = reg[regn][fam + "_adjoint_double_layer"]
            r_sym.check(swap_xy(sl).eq(sl), "%s SL %s" % (fam, tag), NK, f_sl, ctx.repo.mod(NK).fn(f_sl).lineno,
                        fam + " SL not symmetric", "%s is not symmetric under exchange of the two points" % f_sl)
            # ADL(x, y, n_x) == DL(y, x, n_y := n_x)
            r_sym.check(swap_xy(dl, normals=True).eq(adl), "%s ADL==DL^T %s" % (fam, tag), NK, f_adl,
                        ctx.repo.mod(NK).fn(f_adl).lineno, fam + " ADL != DL transposed",
                        "%s(x,y,n_x) differs from the double-layer kernel with points and normals exchanged" % f_adl)
    # Laplace symmetry too (part of "consistent with Laplace")
    for sing in (False, True):
        sl = vals[("laplace_single_layer", sing)]
        dl = vals[("laplace_double_layer", sing)]
        adl = vals[("laplace_adjoint_double_layer", sing)]
        regn = "kernel_functions_singular" if sing else "kernel_functions_regular"
        tag = "singular" if sing else "regular"
        f_sl, f_adl = reg[regn]["laplace_single_layer"], reg[regn]["laplace_adjoint_double_layer"]
        r_sym.check(swap_xy(sl).eq(sl), "laplace SL %s" % tag, NK, f_sl, ctx.repo.mod(NK).fn(f_sl).lineno,
                    "laplace SL not symmetric", "not symmetric")
        r_sym.check(swap_xy(dl, normals=True).eq(adl), "laplace ADL==DL^T %s" % tag, NK, f_adl,
                    ctx.repo.mod(NK).fn(f_adl).lineno, "laplace ADL != DL transposed", "ADL is not the transposed DL kernel")

    dispatch(ctx)
    hypersingular_terms(ctx)


# ---------------------------------------------------------------- dispatch sites
    rules.elements_adjacent_complete(ctx)  # the predicate that routes a pair to the singular rule (ADJ-9)
    from .. import spaces as _spaces

    _spaces.localised_inherit(ctx)  # singular parts, sparse forms, potentials and FMM point maps are computed on the localised companion space
    from .. import singular as _sing

    _sing.check_segments(ctx)  # (tools/wiring.py) the singular part of every dense operator: per-pair segments, offsets
    _sing.check_offsets(ctx)


DISPATCH_FILES = {
    "bempp_cl/api/operators/boundary/helmholtz.py": ("single_layer", "double_layer", "adjoint_double_layer", "hypersingular"),
    "bempp_cl/api/operators/potential/helmholtz.py": ("single_layer", "double_layer"),
}


def _factory_kernel(ctx, rel, fname):
    """(kernel_type, assembly_type, options node) of the operator a factory function builds (its own site)."""
    m = ctx.repo.mod(rel)
    fn = m.fn(fname)
    cop = factories.create_operator_params(ctx)
    dfs = factories.descriptor_fields(ctx)
    for node in ast.walk(fn):
        if isinstance(node, ast.Call):
            f = unparse(node.func)
            if f.endswith("create_operator"):
                return (call_arg(node, cop, "kernel_type"), call_arg(node, cop, "assembly_type"), call_arg(node, cop, "operator_options"), node)
            if f.split(".")[-1] == "OperatorDescriptor":
                return (call_arg(node, dfs, "kernel_type"), call_arg(node, dfs, "assembly_type"), call_arg(node, dfs, "options"), node)
    raise AnalysisError("factory %s::%s builds no operator" % (rel, fname))


def dispatch(ctx):
    r_g = ctx.rule("DISPATCH-GUARD", "every Helmholtz factory dispatches exactly when real(wavenumber) == 0", 6)
    r_c = ctx.rule("DISPATCH-CALLEE", "dispatch target is the modified-Helmholtz sibling of the same layer and assembly type", 6)
    r_a = ctx.rule("DISPATCH-ARG", "value bound to the callee's `omega` is imag(wavenumber); other arguments forwarded by name", 6)
    r_o = ctx.rule("OPTIONS", "non-dispatch path passes [real(k), imag(k)] as kernel parameters (order read by the kernels)", 6)
    KR, KI = V.atom("kr"), V.atom("ki")
    # embedded positive: passing the complex wavenumber itself must be rejected
    bad = ast.parse("f(space, points, wavenumber)").body[0].value.args[2]
    r_a.must_fire(not factories.wavenumber_value(bad).eq(KI), "omega := wavenumber")
    for rel, names in DISPATCH_FILES.items():
        m = ctx.repo.mod(rel)
        for fname in names:
            fn = m.fn(fname)
            params = arg_names(fn)
            if "wavenumber" not in params:
                raise AnalysisError("%s::%s has no `wavenumber` parameter" % (rel, fname))
            # locate the dispatch if
            cands = []
            for st in fn.body:
                if isinstance(st, ast.If) and any(isinstance(n, ast.Name) and n.id == "wavenumber" for n in ast.walk(st.test)):
                    rets = [s for s in st.body if isinstance(s, ast.Return) and isinstance(s.value, ast.Call)]
                    if rets:
                        cands.append((st, rets[0].value))
            inst = "%s::%s" % (rel.split("/")[-2], fname)
            if len(cands) != 1:
                r_g.fail(inst, rel, fname, fn.lineno, "dispatch guard missing",
                         "no unique `if <test on wavenumber>: return <modified ...>(...)` guard (found %d)" % len(cands))
                continue
            st, call = cands[0]
            t = st.test
            okg = False
            if isinstance(t, ast.Compare) and len(t.ops) == 1 and isinstance(t.ops[0], ast.Eq):
                lhs = factories.wavenumber_value(t.left)  # (an expression outside the wavenumber subset: cannot analyse, not a verdict)
                rhs = factories.wavenumber_value(t.comparators[0])
                okg = (lhs - rhs).eq(KR) or (rhs - lhs).eq(KR)
            r_g.check(okg, inst, rel, fname, st.lineno, "dispatch test " + unparse(t),
                      "dispatch guard `%s` is not `real(wavenumber) == 0`" % unparse(t))
            # callee
            alias = unparse(call.func)
            tgt = factories.resolve_local_import(m, fn, alias)
            if tgt is None:
                r_c.fail(inst, rel, fname, call.lineno, "dispatch callee " + alias, "cannot resolve dispatch target `%s`" % alias)
                continue
            trel, tname = tgt
            tm = ctx.repo.mod(trel)
            tfn = tm.fn(tname)
            k_self, a_self, opt_self, site = _factory_kernel(ctx, rel, fname)
            k_tgt, a_tgt, opt_tgt, _ = _factory_kernel(ctx, trel, tname)
            ks, kt_ = getattr(k_self, "value", None), getattr(k_tgt, "value", None)
            as_, at_ = getattr(a_self, "value", None), getattr(a_tgt, "value", None)
            okc = (
                isinstance(ks, str) and isinstance(kt_, str) and kt_ == "modified_" + ks
                and isinstance(as_, str) and isinstance(at_, str)
                and (at_ == as_ or at_ == "modified_" + as_)
            )
            r_c.check(okc, inst, rel, fname, call.lineno, "dispatch callee %s -> %s/%s" % (alias, kt_, at_),
                      "dispatch target %s::%s builds (%s, %s) but the caller builds (%s, %s)" % (trel, tname, kt_, at_, ks, as_))
            # arguments
            tparams = arg_names(tfn)
            problems = []
            for p in tparams:
                a = call_arg(call, tparams, p)
                if a is None:
                    if p in params and p != "omega":
                        # default used instead of forwarding
                        problems.append("parameter `%s` not forwarded" % p)
                    continue
                if p == "omega":
                    try:
                        val = factories.wavenumber_value(a)
                        if not val.eq(KI):
                            problems.append("`omega` is bound to `%s`, which is not imag(wavenumber)" % unparse(a))
                    except AnalysisError as e:
                        problems.append("`omega` is bound to `%s` (%s)" % (unparse(a), e))
                else:
                    if not (isinstance(a, ast.Name) and a.id == p):
                        problems.append("parameter `%s` receives `%s`" % (p, unparse(a)))
            if "omega" not in tparams:
                problems.append("callee has no `omega` parameter")
            r_a.check(not problems, inst, rel, fname, call.lineno,
                      "dispatch args: " + "; ".join(problems) if problems else "dispatch args",
                      "; ".join(problems))
            # options on the non-dispatch path
            oko = False
            if isinstance(opt_self, (ast.List, ast.Tuple)) and len(opt_self.elts) == 2:
                oko = factories.wavenumber_value(opt_self.elts[0]).eq(KR) and factories.wavenumber_value(opt_self.elts[1]).eq(KI)
            r_o.check(oko, inst, rel, fname, site.lineno, "options " + (unparse(opt_self) if opt_self is not None else "?"),
                      "kernel parameters are `%s`, expected [real(k), imag(k)]" % (unparse(opt_self) if opt_self is not None else "?"))
            # modified callee's own options must be [omega]
            okm = isinstance(opt_tgt, (ast.List, ast.Tuple)) and len(opt_tgt.elts) == 1 and isinstance(opt_tgt.elts[0], ast.Name) and opt_tgt.elts[0].id == "omega"
            r_o.check(okm, inst + " (callee)", trel, tname, tfn.lineno, "options " + (unparse(opt_tgt) if opt_tgt is not None else "?"),
                      "modified Helmholtz kernel parameters are `%s`, expected [omega]" % (unparse(opt_tgt) if opt_tgt is not None else "?"))


# ---------------------------------------------------------------- hypersingular k^2 terms


def hypersingular_terms(ctx):
    from .. import assemblers

    r = ctx.rule("HYP-K2", "hypersingular integrand: Helmholtz has -k^2 (phi psi n.n), modified has +omega^2, equal at k = i*omega", 4)
    assemblers.hypersingular_k2(ctx, r)
