"""C20 — OpenCL and Numba backends define the same kernels and shape functions."""

import re as _re
import ast

from .. import cfront, kernels as K, shapesets as S
from ..alg import I, Poly, V
from ..core import AnalysisError
from ..src import dict_literals

LEVEL = "translation_validation"
TECHNIQUE = "source-to-source translation validation: C-subset parser + Python AST symbolic extraction to exact normal forms, compared per kernel function"
LEVEL_TEXT = (
    "Every OpenCL kernel function in kernels.h (12 families x novec/vec4/vec8/vec16) and every shapeset header is "
    "translated to an exact algebraic normal form and compared with the normal form of the Numba function registered "
    "under the same kernel type; equality is decided for all points, normals and wavenumbers."
)
LEVEL_NOTE = (
    "Both precisions share one source, so one comparison covers them; constants are compared symbolically and their "
    "literals checked to printed precision. Not decided: behaviour of an actual OpenCL compiler, rsqrt/native math "
    "accuracy, the .cl assembly kernels that call these functions."
)
EXPLANATION = (
    "For each key of select_cl_kernel's `kernels` table and each variant, the C function is parsed (hand-written "
    "recursive-descent parser for the subset used) and evaluated lane-wise to a rational exponential-polynomial "
    "normal form; the Numba kernel registered under the same key is extracted the same way; the two are equal iff "
    "their cross-multiplied difference is the zero polynomial.  Also: `if k_imag != 0` fast paths on both sides, "
    "helmholtz_gradient_* == gradient of the Helmholtz single-layer form, registry key sets, shapeset headers vs "
    "Python shapesets, literal constants of both precisions."
)
ASSUMPTIONS = [
    "OpenCL built-ins distance/length/dot/sqrt/rsqrt/exp/cos/sin have their mathematical meaning",
    "vector types act lane-wise (any lane-specific construct is rejected as outside the subset)",
    "preprocessor conditionals do not change the body of a kernel function",
]

KH = "bempp_cl/core/sources/include/kernels.h"
NK = K.NK
OCK = "bempp_cl/core/opencl_kernels.py"
VARIANTS = ("novec", "vec4", "vec8", "vec16")
SHAPE_HEADERS = {
    "p0_discontinuous": ("bempp_cl/core/sources/include/p0_discontinuous_shapeset.h", "p0_discontinuous_evaluate"),
    "p1_discontinuous": ("bempp_cl/core/sources/include/p1_discontinuous_shapeset.h", "p1_discontinuous_evaluate"),
    "rwg0": ("bempp_cl/core/sources/include/rwg0_shapeset.h", "rwg0_evaluate"),
    "snc0": ("bempp_cl/core/sources/include/snc0_shapeset.h", "snc0_evaluate"),
}


def cl_registry(ctx):
    m = ctx.repo.mod(OCK)
    d = dict_literals(m.fn("select_cl_kernel"))
    if "kernels" not in d:
        raise AnalysisError("`kernels` table vanished from select_cl_kernel")
    out = {}
    for k, v in d["kernels"].items():
        if not isinstance(v, ast.Constant) or not isinstance(v.value, str):
            raise AnalysisError("kernels[%r] is not a string literal" % k)
        out[k] = v.value
    return out


def c_kernel_value(fns, consts, name, nparams, skip):
    """Complex value of C kernel function ``name`` at the generic point pair (list for gradient kernels).  A guard on
    the sign of a kernel parameter is followed both ways; the two values must be the same function (K-SIGN-GUARD)."""
    v, ifs, signs = _c_kernel_value(fns, consts, name, nparams, skip, False)
    if signs:
        v2, _, _ = _c_kernel_value(fns, consts, name, nparams, skip, True)
        a, b = (v if isinstance(v, list) else [v]), (v2 if isinstance(v2, list) else [v2])
        if not all(x.eq(y) for x, y in zip(a, b)):
            from ..core import SignGuard

            raise SignGuard(KH, name, fns[name].line, "sign guard: " + "; ".join(signs),
                            "the OpenCL kernel applies part of its formula only when `%s`: for the other sign of that parameter the value is a different function (kernels are analytic in their parameters)" % "`, `".join(signs))
    return v, ifs


def _c_kernel_value(fns, consts, name, nparams, skip, skip_sign):
    f = fns[name]
    if len(f.params) != 6:
        raise AnalysisError("C kernel %s does not have the 6-ary kernel signature" % name)
    sym = [K.X, K.Y, K.NX, K.NY]
    args = []
    for k, (ty, ptr, pn, dims) in enumerate(f.params[:4]):
        if dims == [3]:
            a = cfront.CArr()
            for i in range(3):
                a.d[(i,)] = sym[k][i]
            args.append(a)
        elif not dims and not ptr:
            args.append(cfront.Vec3(sym[k]))
        else:
            raise AnalysisError("C kernel %s: unsupported parameter shape for %s" % (name, pn))
    kp = cfront.CArr()
    for i, a in enumerate([K.KR, K.KI][:nparams] if nparams == 2 else [K.W][:nparams]):
        kp.d[(i,)] = a
    res = cfront.CArr()
    ev = cfront.Ev(fns, consts, KH)
    ev.skip_sign = skip_sign
    ev.call(name, args + [kp, res], skip=skip)
    d = res.d
    if set(d) == {(0,)}:
        return d[(0,)], ev.ifs, ev.sign_ifs
    if set(d) == {(0,), (1,)}:
        return d[(0,)] + I * d[(1,)], ev.ifs, ev.sign_ifs
    if set(d) == {(i, j) for i in range(3) for j in range(2)}:
        return [d[(i, 0)] + I * d[(i, 1)] for i in range(3)], ev.ifs, ev.sign_ifs
    raise AnalysisError("C kernel %s writes an unexpected set of result slots %s" % (name, sorted(d)))


def run(ctx):
    consts, cproblems = cfront.base_constants(ctx)
    r_const = ctx.rule("CL-CONST", "M_INV_4PI, M_4PI, M_ONE, M_TWO, M_ZERO literals of both precisions equal their exact values to printed precision", 1)
    r_const.check(not cproblems, "bempp_base_types.h constants", "bempp_cl/core/sources/include/bempp_base_types.h", "-",
                  cproblems[0][2] if cproblems else 0, "constant literal %s" % (cproblems[0][0] if cproblems else ""),
                  "literal(s) differ from the exact value: %s" % cproblems)
    # the precision-dependent type aliases: every REALTYPE<n> of the single-precision block is float<n>, of the
    # double-precision block double<n> (local points, geometry and the vectorised kernels are declared with them; a
    # float2 local point in the double build rounds every quadrature point to single precision)
    r_ty = ctx.rule("CL-TYPES", "bempp_base_types.h: in the PRECISION == 0 block REALTYPE<n> is float<n>, in the PRECISION == 1 block double<n>, for n in {1, 2, 3, 4, 8, 16}", 12)
    trel, tds = cfront.precision_typedefs(ctx)
    base = {0: "float", 1: "double"}
    seen_t = set()
    for line, prec, ty, alias in tds:
        mt = _re.match(r"REALTYPE(\d*)$", alias)
        if not mt or prec not in base:
            continue
        seen_t.add((prec, mt.group(1)))
        r_ty.check(ty == base[prec] + mt.group(1), "PRECISION == %d: %s" % (prec, alias), trel, "-", line, "typedef %s %s" % (ty, alias),
                   "in the %s-precision block %s is `%s`, expected `%s%s`: values of that type are stored with the other precision" % ("double" if prec else "single", alias, ty, base[prec], mt.group(1)))
    missing_t = sorted({(p_, n_) for p_ in (0, 1) for n_ in ("", "2", "3", "4", "8", "16")} - seen_t)
    if missing_t:
        raise AnalysisError("bempp_base_types.h: REALTYPE aliases not found for %s" % missing_t)
    fns = cfront.parse_file(ctx, KH)
    clreg = cl_registry(ctx)
    nreg = K.registries(ctx)["kernel_functions_regular"]
    r_keys = ctx.rule("REG-KEYS", "select_cl_kernel.kernels and select_numba_kernels.kernel_functions_regular have the same key set", 1)
    r_keys.check(set(clreg) == set(nreg), "kernel key sets", OCK, "select_cl_kernel", ctx.repo.mod(OCK).fn("select_cl_kernel").lineno,
                 "registry keys differ: %s" % sorted(set(clreg) ^ set(nreg)), "kernel types known to only one backend: %s" % sorted(set(clreg) ^ set(nreg)))
    r_eq = ctx.rule("CL-EQ-NUMBA", "OpenCL kernel function == Numba kernel registered under the same kernel type (exact normal forms)", 44)
    r_fast = ctx.rule("CL-FAST", "OpenCL `if (k_imag != 0)` fast path: skipped path == taken path at k_imag = 0", 12)
    programs = 0
    used = set()
    # Numba keeps two copies of every kernel (regular / singular quadrature); OpenCL has one.  "The same kernels" therefore
    # also means: the two Numba copies registered for one kernel type are one function.
    nsing = K.registries(ctx)["kernel_functions_singular"]
    r_sib = ctx.rule("NUMBA-REG-SING", "the regular and the singular Numba kernel registered for one kernel type are the same function of (x, y, n_x, n_y, k) - the function the single OpenCL kernel of that type is compared with", 9)
    for kt in sorted(set(nreg) & set(nsing)):
        np_ = K.n_params(kt)
        a, _, _ = K.extract_checked(ctx, nreg[kt], False, np_)
        b, _, _ = K.extract_checked(ctx, nsing[kt], True, np_)
        r_sib.check(a.eq(b), "%s vs %s" % (nreg[kt], nsing[kt]), NK, nsing[kt], ctx.repo.mod(NK).fn(nsing[kt]).lineno, "%s != %s" % (nsing[kt], nreg[kt]),
                    "the singular-quadrature copy %s and the regular copy %s of kernel type %s differ as functions" % (nsing[kt], nreg[kt], kt))
    for kt in sorted(set(clreg) & set(nreg)):
        np_ = K.n_params(kt)
        pv, ifs, okf = K.extract_checked(ctx, nreg[kt], False, np_)
        # the Numba kernel's own special cases (a `p != 0` block, a `p == 0` branch) agree with its general formula at p = 0:
        # otherwise the function the OpenCL kernel is compared with is not the function the Numba kernel computes there
        r_kf = ctx.rule("K-FAST", "Numba kernels: a special case for a vanishing parameter equals the general formula at that value (checked per parameter)", 1)
        r_kf.check(okf, nreg[kt], NK, nreg[kt], ctx.repo.mod(NK).fn(nreg[kt]).lineno, "special cases of " + nreg[kt],
                   "%s: with the special case for one of %s taken the value differs from the general formula at that parameter = 0" % (nreg[kt], sorted(set(ifs))))
        for var in VARIANTS:
            cname = "%s_%s" % (clreg[kt], var)
            if cname not in fns:
                r_eq.fail("%s vs %s" % (cname, nreg[kt]), KH, cname, 0, "missing " + cname, "kernels.h defines no function %s" % cname)
                continue
            used.add(cname)
            cv, cifs = c_kernel_value(fns, consts, cname, np_, False)
            programs += 1
            r_eq.check(cv.eq(pv), "%s vs %s" % (cname, nreg[kt]), KH, cname, fns[cname].line, "%s != %s" % (cname, nreg[kt]),
                       "OpenCL %s and Numba %s differ as functions of (x, y, n_x, n_y, k)" % (cname, nreg[kt]))
            if cifs:
                cv0, _ = c_kernel_value(fns, consts, cname, np_, True)
                env = {p: Poly() for p in cifs}
                r_fast.check(cv0.subs(env).eq(cv.subs(env)), cname, KH, cname, fns[cname].line, "fast path of " + cname,
                             "with the `!= 0` block skipped the value differs at %s = 0" % cifs[0])
        ctx.sample({"pair": "%s_novec vs %s" % (clreg[kt], nreg[kt]), "kernel_type": kt})
    # gradient kernels
    r_grad = ctx.rule("CL-GRAD", "helmholtz_gradient_* == gradient in the test point of the Helmholtz single-layer kernel", 4)
    G = K.spec("helmholtz_single_layer")
    want = [G.diff("x%d" % i) for i in range(3)]
    for var in VARIANTS:
        cname = "helmholtz_gradient_" + var
        if cname not in fns:
            raise AnalysisError("kernels.h lost %s" % cname)
        used.add(cname)
        cv, cifs = c_kernel_value(fns, consts, cname, 2, False)
        programs += 1
        ok = isinstance(cv, list) and all(a.eq(b) for a, b in zip(cv, want))
        r_grad.check(ok, cname, KH, cname, fns[cname].line, cname + " != grad_x G", "value differs from the gradient of exp(ik|x-y|)/(4 pi |x-y|) in x")
        if cifs:
            cv0, _ = c_kernel_value(fns, consts, cname, 2, True)
            env = {p: Poly() for p in cifs}
            r_fast.check(all(a.subs(env).eq(b.subs(env)) for a, b in zip(cv0, cv)), cname, KH, cname, fns[cname].line,
                         "fast path of " + cname, "with the `!= 0` block skipped the value differs at %s = 0" % cifs[0])
    # FMM near-field helmholtz kernel components 1..3 share the formula (sibling)
    r_all = ctx.rule("CL-COVERAGE", "every kernel function of kernels.h was compared (no unregistered variant)", 1)
    extra = sorted(n for n in fns if not n.startswith("diff_vec") and n not in used)
    r_all.check(not extra, "kernels.h functions", KH, "-", fns[extra[0]].line if extra else 0, "unverified functions %s" % extra,
                "kernel functions without a registered Numba counterpart: %s" % extra)
    # shapesets
    r_sh = ctx.rule("CL-SHAPESET", "OpenCL reference shape functions == Python shapesets at every local point", 4)
    sreg = S.registry(ctx)
    for ident, (rel, cname) in SHAPE_HEADERS.items():
        if ident not in sreg:
            raise AnalysisError("_SHAPESETS lost %s" % ident)
        ent = sreg[ident]
        dim, nfun = ent["dimension"], ent["number_of_shape_functions"]
        py = S.evaluate(ctx, ent["evaluate"], dim, nfun)
        sf = cfront.parse_file(ctx, rel)
        if cname not in sf:
            raise AnalysisError("%s lost %s" % (rel, cname))
        lp = cfront.Vec2(S.XI)
        res = cfront.CArr()
        ev = cfront.Ev(sf, consts, rel)

        class PtrVec2(cfront.Vec2):
            pass

        ev.call(cname, [PtrVec2(S.XI), res])
        programs += 1
        ok = True
        msg = ""
        want_slots = {(dim * f + c,) for f in range(nfun) for c in range(dim)}
        if set(res.d) != want_slots:
            ok = False
            msg = "writes slots %s, expected %s" % (sorted(res.d), sorted(want_slots))
        else:
            for f in range(nfun):
                for c in range(dim):
                    if not res.d[(dim * f + c,)].eq(py[c][f]):
                        ok = False
                        msg = "function %d component %d: OpenCL %r vs Python %r" % (f, c, res.d[(dim * f + c,)], py[c][f])
        r_sh.check(ok, "%s vs %s" % (cname, ent["evaluate"]), rel, cname, sf[cname].line, "%s != %s" % (cname, ent["evaluate"]), msg)
    ctx.extra["programs"] = programs
    ctx.extra["disagreements_checked"] = sum(r.failed for r in ctx.rules.values())


def level_keys(ctx):
    return {"programs": ctx.extra.get("programs", 0), "disagreements_checked": ctx.extra.get("disagreements_checked", 0)}
