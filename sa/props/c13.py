"""C13 — Sparse operators, projections and integrals are exact L2 quantities."""

from .. import gridfun, misc_guards, rules, shapesets as S, sparse, spaces
from ..alg import V

LEVEL = "other"
TECHNIQUE = "symbolic extraction of the sparse element kernels, basis evaluators, integration and projection kernels against integrand specs; provenance typing of the sparse/projection call sites; repository-wide index-domain and method-subscript lints; finite-domain abstract execution of guards and dtype switches; index/extent agreement analysis of the Numba kernels; non-commutative term evaluation of l2_norm"
LEVEL_TEXT = (
    "Decides that the four sparse element kernels accumulate exactly sum_q <test basis, trial basis> w_q J into the "
    "slot the assembler decodes, that rows/columns/multipliers/dof transformations are applied with the right roles "
    "and exactly once, that _integrate and the projection kernels are the stated quadrature sums (the local "
    "multiplier enters once, through the evaluator), that call sites hand each kernel the tables of the space it is "
    "documented to use, and that element-numbered tables are never indexed by an enumerate position."
)
LEVEL_NOTE = (
    "Exactness for 'every quadrature order that integrates the product exactly' follows from C12 and the polynomial "
    "degree of the integrand (implied, not separately decided).  Not decided: positive definiteness, callable "
    "variants (jit / non-jit) beyond argument forwarding."
)
EXPLANATION = "rules SPARSE-KERNELS, BASIS-MULT-ONCE, SPARSE-ROLES, SPARSE-LAYOUT, SPARSE-SCATTER, GF-INTEGRATE, GF-PROJECT, GF-FORWARD, GF-EVALUATE, GF-L2NORM, IDX-ELEM-BY-POSITION, PROTO-METHOD-SUBSCRIPT, SPACE-MAPS, REFGRAD-SUM"
ASSUMPTIONS = ["Numba/numpy broadcasting semantics as modelled by the symbolic evaluator", "basis evaluators return [component, function, point] arrays"]


def run(ctx):
    sparse.kernels(ctx)
    sparse.evaluators(ctx)
    sparse.assembler(ctx)
    misc_guards.sparse_grid_guard(ctx)
    misc_guards.projection_dtype(ctx)
    gridfun.integrate_kernel(ctx)
    gridfun.project_vectorized(ctx)
    gridfun.forwarding(ctx)
    gridfun.evaluate_rules(ctx)
    gridfun.l2_norm_rule(ctx)
    gridfun.representations(ctx)
    gridfun.repo_lints(ctx)
    spaces.coefficient_maps(ctx)
    sparse.mass_matrices(ctx)
    rules.factory_sites(ctx, "boundary", only_files=("sparse.py",), rule_id="FACTORY-SPARSE")
    # constants are annihilated by Laplace-Beltrami: reference P1 gradients sum to zero
    r = ctx.rule("REFGRAD-SUM", "reference P1 gradients sum to zero over the three functions (Laplace-Beltrami annihilates constants)", 1)
    ent = S.registry(ctx)["p1_discontinuous"]
    g = S.gradient(ctx, ent["gradient"], 1, 3)
    ok = all((g[0][c][0] + g[0][c][1] + g[0][c][2]).iszero() for c in range(2))
    r.check(ok, "p1 gradient", S.SH, ent["gradient"], 0, "p1 reference gradients sum", "reference gradients of the P1 shapeset do not sum to zero")
    from .. import intwidth

    intwidth.int_narrowing(ctx)  # index / offset arrays must not wrap
    from .. import spaces as _spaces

    _spaces.localised_inherit(ctx)  # singular parts, sparse forms, potentials and FMM point maps are computed on the localised companion space
    from . import c11 as _c11

    _c11.refinement(ctx)  # barycentric spaces live on the barycentric grid: its children, midpoints and inherited domain indices
    from .. import dtypes as _dt
    from . import c10 as _c10

    _dt.promote_double(ctx)  # (tools/wiring.py) sparse values pass through the promotion helper
    _c10.compat(ctx)
    _c10.compat_use(ctx)
    from . import c09 as _c09

    _c09.edge_evaluators(ctx)  # (tools/wiring.py) sparse forms and projections integrate space.evaluate of RWG / SNC bases
    from .. import state as _state

    _state.process_state(ctx)  # no result object keeps its per-call data in state shared between instances or calls
    from . import c14 as _c14

    _c14.gf_algebra(ctx)  # (tools/wiring.py) sums of grid functions held as projections: same dual space or through the coefficients
    from .. import fx as _fx13

    _fx13.parameter_resolution(ctx)  # (tools/wiring.py) sparse operators and projections take their quadrature order from the resolved parameter object
