"""C16 — Assembly results are independent of thread count and scheduling."""

import ast

from .. import assemblers as A
from .. import kernels as K
from .. import par, roles, rules, symex
from ..alg import V
from ..core import AnalysisError
from ..src import arg_names, calls_in, unparse

LEVEL = "other"
TECHNIQUE = "prange effect analysis: every store to a shared array classified (owner-indexed by mixed-radix injectivity / colour scatter / CSR owner range), call-site typestate of the per-colour launch, colouring-soundness lints"
LEVEL_TEXT = (
    "Decided in full for the Numba backend under Numba's documented prange semantics: for every prange loop of every "
    "parallel=True function, every store to an array that exists before the loop is proved to address a slot owned by "
    "one iteration (index injective in the induction variable, by exact mixed-radix reasoning over the loop bounds), "
    "or is a scatter through the test space's global-dof table launched one colour at a time, with the colouring "
    "built from exactly the elements that share a global dof; no shared scalar is updated.  Hence no lost update, "
    "and every slot receives its contributions in program order: bitwise reproducibility."
)
LEVEL_NOTE = (
    "Assumes Numba's prange semantics and CSR index pointers that are non-decreasing.  OpenCL work-group scheduling is "
    "not decided (different execution model, no source-level loop to analyse).  Floating-point reassociation by "
    "fastmath inside one iteration is sequential and schedule independent."
)
EXPLANATION = (
    "obligations = stores to shared arrays inside prange loops (classified), shared scalar updates (none allowed), "
    "launch-site and colouring rules that make the scatter class safe"
)
ASSUMPTIONS = [
    "Numba prange: iterations may run concurrently in any order; names assigned in the body are private; array element updates are not reductions",
    "CSR indexptr arrays are non-decreasing",
    "elements outside a space's support are never launched (element lists come from get_elements_by_color / support_elements)",
]

NK = K.NK
SP = "bempp_cl/api/space/space.py"
SS = "bempp_cl/api/space/scalar_spaces.py"
MS = "bempp_cl/api/space/maxwell_spaces.py"


def run(ctx):
    pf, seq = par.parallel_functions(ctx)
    reg = K.registries(ctx)
    r_cov = ctx.rule("PAR-COVERAGE", "every parallel=True function containing a prange is analysed (registered assembler, sparse driver or FMM helper)", 18)
    r_st = ctx.rule("PAR-STORES", "every store inside a prange to an array existing before the loop is owner-indexed, a colour scatter, or a CSR owner range", 33)
    r_sc = ctx.rule("PAR-SCALARS", "no scalar defined outside a prange loop is updated inside it", 18)
    known = {}
    for kind, regname in (("regular", "assembly_functions_regular"), ("singular", "assembly_functions_singular"), ("potential", "assembly_function_potential")):
        for at, fname in reg[regname].items():
            known[fname] = (kind, at)
    nloops = 0
    scatter_fns = []
    for rel, name, fn, loops in pf:
        nloops += len(loops)
        if rel == NK and name in known:
            kind, at = known[name]
            kp = rules.kparams_for(at)
            it, hooks, ret = A.run_assembler(ctx, name, kind, kp, kernel_dimension=(1 if at == "default_scalar" else 3)) if kind == "potential" else A.run_assembler(ctx, name, kind, kp)
        elif rel == NK and name == "default_sparse_kernel":
            sparse_driver(ctx, r_st, r_cov, fn, reg)
            r_sc.ok(name)
            continue
        elif rel == par.FH:
            it, _ = par.run_fmm_function(ctx, name)
        else:
            r_cov.fail(name, rel, name, fn.lineno, "unanalysed parallel function " + name,
                       "parallel=True function with a prange that is neither a registered assembler nor a known helper: its stores are not classified")
            continue
        r_cov.ok("%s::%s" % (rel.split("/")[-1], name))
        stores = par.classify_writes(rel, name, it)
        if not stores:
            r_st.fail(name, rel, name, fn.lineno, "no shared store in " + name, "no store to a shared array found inside the prange (analysis lost the output)")
        csr = csr_ranges(it, stores)
        for s in stores:
            if s.cls == "unsafe" and id(s) in csr:
                s.cls, s.why = "csr-range", csr[id(s)]
            ok = s.cls in ("owner", "scatter", "csr-range")
            if s.cls == "scatter":
                table, elist = s.why
                ok = kind == "regular" and table == "test_global_dofs" and elist == "test_elements"
                scatter_fns.append(name)
                why = "scatter through %s[%s[v], .]" % (table, elist) + ("" if ok else " — only the test-dof table of the coloured test element list is safe")
            else:
                why = s.why
            r_st.check(ok, "%s: %s" % (name, s.text[:110]), rel, name, s.line, "%s store %s" % (name, s.text[:160]),
                       "two iterations of the prange may write the same slot: %s (%s)" % (s.text[:160], why), detail=s.cls)
        hz = par.scalar_hazards(it)
        r_sc.check(not hz, name, rel, name, hz[0][1] if hz else fn.lineno, "shared scalar update %s" % (hz[0][0] if hz else ""),
                   "scalar `%s` is defined before the prange and updated inside it (order-dependent reduction)" % (hz[0][0] if hz else ""))
    if nloops < 21:
        raise AnalysisError("only %d prange loops in parallel functions found (21 confirmed by hand)" % nloops)
    ctx.sample({"parallel_functions": len(pf), "prange_loops": nloops, "sequential_prange_functions": [n for _, n, _, _ in seq]})
    # embedded positive: result[trial_dofs[..]] keyed by a non-prange element must not be accepted as owner
    bad = symex.opaque_atom("x", [V.atom("‹ιq0›")])
    r_st.must_fire(not par._axis_injective(bad * V.const(0) + V.atom("‹ιw0›"), "‹ιv0›"), "index independent of the prange variable")
    # PAR-2: launch per colour
    r2 = ctx.rule("PAR-LAUNCH", "scatter-class assemblers are launched only from dense_assembler, once per colour of the TEST space, with that space's local2global as scatter table", 2)
    ls = rules.launch_sites(ctx, which=("dense",))
    callers = []
    for rel in ctx.repo.py_files("bempp_cl"):
        m = ctx.repo.mod(rel)
        for qn, f in m.functions.items():
            for c in calls_in(f):
                fn_txt = unparse(c.func)
                if "select_numba_kernels" in unparse(c) and "regular" in unparse(c) and fn_txt.endswith("select_numba_kernels"):
                    callers.append((rel, qn))
    callers = sorted(set(callers))
    r2.check(callers == [(rules.NA, "dense_assembler")], "callers of the regular registry", rules.NA, "dense_assembler", 0,
             "regular assemblers obtained in %s" % callers, "regular (scatter) assemblers are obtained outside dense_assembler: %s" % callers)
    r2.check(len(set(scatter_fns)) == 6, "scatter functions = the 6 regular assemblers", NK, "-", 0, "scatter functions %s" % sorted(set(scatter_fns)),
             "scatter-class stores found in %s" % sorted(set(scatter_fns)))
    colouring(ctx)
    aliasing(ctx)
    singular_after(ctx)


def csr_ranges(it, stores):
    """Stores indexed by a counter c with c = base(v) on entry and base(v) + (#increments per iteration) == base(v+1)."""
    out = {}
    cands = [s for s in stores if s.cls == "unsafe"]
    if not cands:
        return out
    incs = {}
    for name, birth, loops, node in it.scalar_aug:
        ppos = next((i for i, l in enumerate(loops) if l.parallel), None)
        if ppos is None or birth <= ppos:
            continue
        if not (isinstance(node.op, ast.Add) and isinstance(node.value, ast.Constant) and node.value.value == 1):
            continue
        cnt = V.const(1)
        for l in loops[ppos + 1 :]:
            cnt = cnt * l.bound
        incs.setdefault(name, [loops[ppos].var, V.const(0)])
        incs[name][1] = incs[name][1] + cnt
    if len(incs) != 1:
        return out
    (cname, (var, total)), = incs.items()
    by_arr = {}
    for s in cands:
        by_arr.setdefault(s.arr, []).append(s)
    for arr, ss in by_arr.items():
        base = ss[0].pattern[0]
        if len(ss[0].pattern) != 1:
            continue
        nxt = symex.subst_index(base, {var: V.atom(var) + V.const(1)})
        if (base + total).eq(nxt):
            for k, s in enumerate(ss):
                if (s.pattern[0] - base).eq(V.const(k)):
                    out[id(s)] = "counter `%s` walks the owner range [base(v), base(v+1)) with base(v) = %s" % (cname, symex.idx_str(base))
    return out


def sparse_driver(ctx, r_st, r_cov, fn, reg):
    """default_sparse_kernel: the prange body is one call of the kernel parameter with the induction variable in the
    element_index slot and `result` passed through; each registered sparse kernel writes result at an index that is
    injective in its element_index parameter."""
    loops = [n for n in ast.walk(fn) if isinstance(n, ast.For) and unparse(n.iter.func).endswith("prange")]
    params = arg_names(fn)
    ok = len(loops) == 1 and len(loops[0].body) == 1 and isinstance(loops[0].body[0], ast.Expr) and isinstance(loops[0].body[0].value, ast.Call)
    msg = "prange body is not a single call"
    if ok:
        call = loops[0].body[0].value
        v = loops[0].target.id
        ok = isinstance(call.func, ast.Name) and call.func.id in params and len(call.args) == len(A.SPARSE_KERNEL_SIG)
        if ok:
            pos = [i for i, a in enumerate(call.args) if isinstance(a, ast.Name) and a.id == v]
            ok = pos == [A.SPARSE_KERNEL_SIG.index("element_index")] and all(isinstance(a, ast.Name) and (a.id in params or a.id == v) for a in call.args)
            msg = "induction variable is passed in slot(s) %s, expected only the element_index slot" % pos
    r_cov.ok("numba_kernels.py::default_sparse_kernel")
    r_st.check(ok, "default_sparse_kernel: call of kernel_evaluator(element_index=v, ..., result)", NK, fn.name, fn.lineno, "default_sparse_kernel prange body", msg, detail="callee-summarised")
    for kt, fname in sorted(reg["kernel_functions_sparse"].items()):
        it, hooks, ret = A.run_assembler(ctx, fname, "sparse_kernel", [])
        ws = [w for w in it.writes if w[0].kind == "input"]
        ev = it.env[arg_names(it.fn)[A.SPARSE_KERNEL_SIG.index("element_index")]]
        var = symex._single_atom_name(ev)
        good = bool(ws) and all(w[0].desc == "result" and any(par._axis_injective(p, var) for p in w[2]) for w in ws)
        r_st.check(good, "%s: result[...] owner-indexed by element_index" % fname, NK, fname, it.fn.lineno, "%s stores %s" % (fname, sorted({symex.idx_str(w[2][0]) for w in ws})[:2]),
                   "sparse kernel writes a parameter array at an index that is not injective in element_index", detail="owner (callee summary)")


def colouring(ctx):
    m = ctx.repo.mod(SP)
    r = ctx.rule("PAR-COLOUR", "colour map: an element's colour differs from every element sharing one of its global dofs; elements are grouped by equal colour", 3)
    fn = m.fn("FunctionSpace._compute_color_map")
    outer = [s for s in fn.body if isinstance(s, ast.For)]
    ok = False
    why = "unrecognised structure"
    if len(outer) == 1:
        lp = outer[0]
        e = lp.target.id if isinstance(lp.target, ast.Name) else None
        defs = roles.Defs(ast.FunctionDef(name="_", args=fn.args, body=lp.body, decorator_list=[], lineno=lp.lineno))
        inner = [s for s in lp.body if isinstance(s, ast.For)]
        adds = []
        if e and len(inner) == 1 and roles.canon(inner[0].iter, defs) == "self.local2global[%s]" % e and isinstance(inner[0].target, ast.Name):
            d = inner[0].target.id
            in2 = [s for s in inner[0].body if isinstance(s, ast.For)]
            if len(in2) == 1 and unparse(in2[0].iter).replace(" ", "") == "self.global2local[%s]" % d and isinstance(in2[0].target, ast.Tuple):
                en = in2[0].target.elts[0].id
                adds = [c for c in ast.walk(in2[0]) if isinstance(c, ast.Call) and unparse(c.func).endswith(".add") and len(c.args) == 1 and unparse(c.args[0]) == en]
        asg = [s for s in lp.body if isinstance(s, ast.Assign) and unparse(s.targets[0]).replace(" ", "") == "self._color_map[%s]" % e]
        good_pick = False
        if asg and adds:
            setname = unparse(adds[0].func.value)
            val = asg[0].value
            gens = [g for g in ast.walk(val) if isinstance(g, ast.GeneratorExp)]
            if gens and len(gens[0].generators) == 1 and len(gens[0].generators[0].ifs) == 1:
                cond = gens[0].generators[0].ifs[0]
                cvar = gens[0].generators[0].target.id
                if (isinstance(cond, ast.Compare) and isinstance(cond.ops[0], ast.NotIn) and unparse(cond.left) == cvar
                        and roles.canon(cond.comparators[0], defs, keep={setname}).replace(" ", "") == "self._color_map[list(%s)]" % setname and unparse(gens[0].elt) == cvar):
                    good_pick = True
        src_iter = unparse(lp.iter).replace(" ", "")
        ok = bool(adds) and good_pick and src_iter == "self.support_elements"
        why = "neighbour set is not built from global2local of every local dof / colour is not chosen outside the neighbours' colours"
    r.check(ok, "_compute_color_map", SP, fn.name, fn.lineno, "colour map construction", why)
    fs = m.fn("FunctionSpace._sort_elements_by_color")
    s = unparse(fs).replace(" ", "")
    oks = ("colors=_np.where(self.color_map==color)[0]" in s and "sorted_indices[count:count+colors_length]=colors" in s and "indexptr[index+1]=count" in s
           and "count+=colors_length" in s and "ncolors=1+max(self.color_map)" in s and "enumerate(_np.arange(ncolors" in s)
    r.check(oks, "_sort_elements_by_color", SP, fs.name, fs.lineno, "grouping by colour", "elements are no longer grouped by equality of colour into consecutive indexptr ranges")
    inv = m.fn("invert_local2global")
    si = unparse(inv).replace(" ", "")
    oki = "iflocal_multipliers[elem_index,local_index]!=0:" in si and "global2local_map[dof].append((elem_index,local_index))" in si and "forlocal_index,dofinenumerate(local2global_map[elem_index])" in si
    r.check(oki, "invert_local2global", SP, inv.name, inv.lineno, "global2local inversion", "global2local no longer lists (element, local index) under local2global[element, local] exactly when the multiplier is non-zero")


def aliasing(ctx):
    """PAR-4: every writer of local2global tables is injective on the support or aliases zero-multiplier entries to a
    dof the same element holds with non-zero multiplier (so that global2local-based colouring covers all writes)."""
    r = ctx.rule("PAR-ALIAS", "every local2global builder is identity-on-support or uses a confirmed zero-multiplier aliasing idiom", 12)
    sites = []
    for rel in ("bempp_cl/api/space/scalar_spaces.py", "bempp_cl/api/space/scalar_dual_spaces.py", "bempp_cl/api/space/maxwell_spaces.py", SP):
        m = ctx.repo.mod(rel)
        for qn, fn in m.functions.items():
            if "." in qn or "<" in qn:
                continue
            for c in calls_in(fn):
                if isinstance(c.func, ast.Attribute) and c.func.attr == "set_local2global" and len(c.args) == 1:
                    sites.append((rel, qn, fn, c))
    for rel, qn, fn, c in sites:
        defs = roles.Defs(fn)
        prov = roles.canon(c.args[0], defs)
        arg = c.args[0]
        cls = None
        if isinstance(arg, ast.Name):
            nm = arg.id
            src = unparse(fn).replace(" ", "")
            if ("%s[support]=_np.arange(" % nm in src or "%s[space.support]=_np.arange(" % nm in src or "%s[support]=_np.expand_dims(_np.arange(" % nm in src) and "=_np.zeros(" in src:
                cls = "identity numbering on the support"
        if cls is None and prov.startswith("_compute_p1_dof_map("):
            cls = p1_idiom(ctx)
        if cls is None and prov.startswith("_compute_rwg0_space_data("):
            cls = rwg_idiom(ctx)
        if cls is None and prov.startswith("_compute_bc_space_data("):
            g = ctx.repo.mod("bempp_cl/api/grid/grid.py").fn("_get_data_multipliers")
            sg = unparse(g).replace(" ", "")
            if "local2global[support]=_np.arange(3*bary_support_size).reshape(bary_support_size,3)" in sg and "local_multipliers[support]=1" in sg:
                cls = "identity numbering on the barycentric support (_get_data_multipliers)"
        r.check(cls is not None, "%s::%s" % (rel.split("/")[-1], qn), rel, qn, c.lineno, "local2global provenance " + prov[:80],
                "local2global comes from `%s`, which is neither an identity numbering nor a confirmed aliasing idiom" % prov[:120], detail=cls)


def p1_idiom(ctx):
    fn = ctx.repo.mod(SS).fn("_compute_p1_dof_map")
    s = unparse(fn).replace(" ", "")
    if ("max_dof=_np.max(local2global_final[element_index])" in s and "iflocal2global[element_index,local_index]==-1:\nlocal2global_final[element_index,local_index]=max_dof".replace("\n", "") in s.replace("\n", "")
            and "ifsupport_final[element_index]:" in s):
        return "P1: unused local dofs alias the element's own maximal dof (guarded by support_final)"
    return None


def rwg_idiom(ctx):
    fn = ctx.repo.mod(MS).fn("_compute_rwg0_space_data")
    s = unparse(fn).replace(" ", "").replace("\n", "")
    if ("iflocal_multipliers[element_index,local_index]!=0:first_nonzero=local_indexbreak" in s
            and "iflocal_multipliers[element_index,local_index]==0:dofmap[local_index]=dofmap[first_nonzero]" in s
            and "local2global_map[element_index,:]=dofmap" in s):
        return "RWG: zero-multiplier entries alias dofmap[first_nonzero] of the same element"
    return None


def singular_after(ctx):
    m = ctx.repo.mod(rules.DA)
    fn = m.fn("assemble_dense")
    r = ctx.rule("PAR-SINGULAR-SEQ", "the singular part is added by one sequential np.add.at after the parallel regular phase has returned", 1)
    calls = [c for c in calls_in(fn)]
    disp = [c for c in calls if unparse(c.func).endswith("dense_assembler_dispatcher")]
    addat = [c for c in calls if unparse(c.func).endswith("add.at")]
    ok = len(disp) == 1 and len(addat) == 1 and addat[0].lineno > disp[0].lineno and unparse(addat[0].args[0]) == unparse(disp[0].args[-1])
    r.check(ok, "assemble_dense", rules.DA, fn.name, fn.lineno, "singular part accumulation", "singular values are not accumulated into the result with np.add.at after the regular assembly call")
