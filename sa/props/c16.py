"""C16 — Assembly results are independent of thread count and scheduling."""

import ast
import re

from .. import assemblers as A
from .. import kernels as K
from .. import par, roles, rules, symex
from ..alg import V
from ..core import AnalysisError
from ..src import arg_names, calls_in, unparse

LEVEL = "other"
TECHNIQUE = "prange effect analysis: every store to a shared array classified (owner-indexed by mixed-radix injectivity / colour scatter / CSR owner range), call-site typestate of the per-colour launch, colouring-soundness lints; sentinel check of the colour map; provenance of the colour map (own allocation / memo-key dependency analysis)"
LEVEL_TEXT = (
    "Decided in full for the Numba backend under Numba's documented prange semantics: for every prange loop of every "
    "parallel=True function, every store to an array that exists before the loop is proved to address a slot owned by "
    "one iteration (index injective in the induction variable, by exact mixed-radix reasoning over the loop bounds), "
    "or is a scatter through the test space's global-dof table launched one colour at a time, with the colouring "
    "built from exactly the elements that share a global dof; no shared scalar is updated.  Hence no lost update, "
    "and every slot receives its contributions in program order: bitwise reproducibility."
)
LEVEL_NOTE = (
    "Assumes Numba's prange semantics and CSR index pointers that are non-decreasing.  OpenCL work-group scheduling is "
    "not decided (different execution model, no source-level loop to analyse).  Floating-point reassociation by "
    "fastmath inside one iteration is sequential and schedule independent."
)
EXPLANATION = (
    "obligations = stores to shared arrays inside prange loops (classified), shared scalar updates (none allowed), "
    "launch-site and colouring rules that make the scatter class safe"
)
ASSUMPTIONS = [
    "Numba prange: iterations may run concurrently in any order; names assigned in the body are private; array element updates are not reductions",
    "CSR indexptr arrays are non-decreasing",
    "elements outside a space's support are never launched (element lists come from get_elements_by_color / support_elements)",
]

NK = K.NK
SP = "bempp_cl/api/space/space.py"
SS = "bempp_cl/api/space/scalar_spaces.py"
MS = "bempp_cl/api/space/maxwell_spaces.py"


def run(ctx):
    pf, seq = par.parallel_functions(ctx)
    reg = K.registries(ctx)
    r_cov = ctx.rule("PAR-COVERAGE", "every parallel=True function containing a prange is analysed (registered assembler, sparse driver or FMM helper)", 18)
    r_st = ctx.rule("PAR-STORES", "every store inside a prange to an array existing before the loop is owner-indexed, a colour scatter, or a CSR owner range", 33)
    r_sc = ctx.rule("PAR-SCALARS", "no scalar defined outside a prange loop is updated inside it", 18)
    known = {}
    for kind, regname in (("regular", "assembly_functions_regular"), ("singular", "assembly_functions_singular"), ("potential", "assembly_function_potential")):
        for at, fname in reg[regname].items():
            known[fname] = (kind, at)
    nloops = 0
    scatter_fns = []
    for rel, name, fn, loops in pf:
        nloops += len(loops)
        if rel == NK and name in known:
            kind, at = known[name]
            kp = rules.kparams_for(at)
            it, hooks, ret = A.run_assembler(ctx, name, kind, kp, kernel_dimension=(1 if at == "default_scalar" else 3)) if kind == "potential" else A.run_assembler(ctx, name, kind, kp)
        elif rel == NK and name == "default_sparse_kernel":
            sparse_driver(ctx, r_st, r_cov, fn, reg)
            r_sc.ok(name)
            continue
        elif rel == par.FH:
            it, _ = par.run_fmm_function(ctx, name)
        else:
            # a parallel function the analysis has no model for: neither "holds" nor "violated" can be claimed
            raise AnalysisError("%s::%s is a parallel=True function with a prange that is neither a registered assembler nor a known helper: its stores cannot be classified" % (rel, name))
        r_cov.ok("%s::%s" % (rel.split("/")[-1], name))
        stores = par.classify_writes(rel, name, it)
        if not stores:
            r_st.fail(name, rel, name, fn.lineno, "no shared store in " + name, "no store to a shared array found inside the prange (analysis lost the output)")
        csr = csr_ranges(it, stores)
        for s in stores:
            if s.cls == "unsafe" and id(s) in csr:
                s.cls, s.why = "csr-range", csr[id(s)]
            ok = s.cls in ("owner", "scatter", "csr-range")
            if s.cls == "scatter":
                table, elist = s.why
                ok = kind == "regular" and table == "test_global_dofs" and elist == "test_elements"
                scatter_fns.append(name)
                why = "scatter through %s[%s[v], .]" % (table, elist) + ("" if ok else " — only the test-dof table of the coloured test element list is safe")
            else:
                why = s.why
            r_st.check(ok, "%s: %s" % (name, s.text[:110]), rel, name, s.line, "%s store %s" % (name, s.text[:160]),
                       "two iterations of the prange may write the same slot: %s (%s)" % (s.text[:160], why), detail=s.cls)
        hz = par.scalar_hazards(it)
        r_sc.check(not hz, name, rel, name, hz[0][1] if hz else fn.lineno, "shared scalar update %s" % (hz[0][0] if hz else ""),
                   "scalar `%s` is defined before the prange and updated inside it (order-dependent reduction)" % (hz[0][0] if hz else ""))
    if nloops < 21:
        raise AnalysisError("only %d prange loops in parallel functions found (21 confirmed by hand)" % nloops)
    ctx.sample({"parallel_functions": len(pf), "prange_loops": nloops, "sequential_prange_functions": [n for _, n, _, _ in seq]})
    # embedded positive: result[trial_dofs[..]] keyed by a non-prange element must not be accepted as owner
    bad = symex.opaque_atom("x", [V.atom("‹ιq0›")])
    r_st.must_fire(not par._axis_injective(bad * V.const(0) + V.atom("‹ιw0›"), "‹ιv0›"), "index independent of the prange variable")
    # PAR-2: launch per colour
    r2 = ctx.rule("PAR-LAUNCH", "scatter-class assemblers are launched only from dense_assembler, once per colour of the TEST space, with that space's local2global as scatter table", 2)
    ls = rules.launch_sites(ctx, which=("dense",))
    callers = []
    for rel in ctx.repo.py_files("bempp_cl"):
        m = ctx.repo.mod(rel)
        for qn, f in m.functions.items():
            for c in calls_in(f):
                fn_txt = unparse(c.func)
                if "select_numba_kernels" in unparse(c) and "regular" in unparse(c) and fn_txt.endswith("select_numba_kernels"):
                    callers.append((rel, qn))
    callers = sorted(set(callers))
    r2.check(callers == [(rules.NA, "dense_assembler")], "callers of the regular registry", rules.NA, "dense_assembler", 0,
             "regular assemblers obtained in %s" % callers, "regular (scatter) assemblers are obtained outside dense_assembler: %s" % callers)
    r2.check(len(set(scatter_fns)) == 6, "scatter functions = the 6 regular assemblers", NK, "-", 0, "scatter functions %s" % sorted(set(scatter_fns)),
             "scatter-class stores found in %s" % sorted(set(scatter_fns)))
    colouring(ctx)
    aliasing(ctx)
    # the dof maps the colouring relies on: zero-multiplier entries of *every* launched element alias one of its own dofs
    from .. import p1dofs, rwgdofs

    p1dofs.p1_dof_decisions(ctx)
    rwgdofs.rwg_dof_decisions(ctx)
    singular_after(ctx)
    rules.elements_adjacent_complete(ctx)  # the predicate that routes a pair to the singular rule (ADJ-9)


def csr_ranges(it, stores):
    """Stores indexed by a counter c with c = base(v) on entry and base(v) + (#increments per iteration) == base(v+1)."""
    out = {}
    cands = [s for s in stores if s.cls == "unsafe"]
    if not cands:
        return out
    incs = {}
    for name, birth, loops, node in it.scalar_aug:
        ppos = next((i for i, l in enumerate(loops) if l.parallel), None)
        if ppos is None or birth <= ppos:
            continue
        if not (isinstance(node.op, ast.Add) and isinstance(node.value, ast.Constant) and node.value.value == 1):
            continue
        cnt = V.const(1)
        for l in loops[ppos + 1 :]:
            cnt = cnt * l.bound
        incs.setdefault(name, [loops[ppos].var, V.const(0)])
        incs[name][1] = incs[name][1] + cnt
    if len(incs) != 1:
        return out
    (cname, (var, total)), = incs.items()
    by_arr = {}
    for s in cands:
        by_arr.setdefault(s.arr, []).append(s)
    for arr, ss in by_arr.items():
        base = ss[0].pattern[0]
        if len(ss[0].pattern) != 1:
            continue
        nxt = symex.subst_index(base, {var: V.atom(var) + V.const(1)})
        if (base + total).eq(nxt):
            for k, s in enumerate(ss):
                if (s.pattern[0] - base).eq(V.const(k)):
                    out[id(s)] = "counter `%s` walks the owner range [base(v), base(v+1)) with base(v) = %s" % (cname, symex.idx_str(base))
    return out


def sparse_driver(ctx, r_st, r_cov, fn, reg):
    """default_sparse_kernel: the prange body is one call of the kernel parameter with the induction variable in the
    element_index slot and `result` passed through; each registered sparse kernel writes result at an index that is
    injective in its element_index parameter."""
    loops = [n for n in ast.walk(fn) if isinstance(n, ast.For) and unparse(n.iter.func).endswith("prange")]
    params = arg_names(fn)
    ok = len(loops) == 1 and len(loops[0].body) == 1 and isinstance(loops[0].body[0], ast.Expr) and isinstance(loops[0].body[0].value, ast.Call)
    msg = "prange body is not a single call"
    if ok:
        call = loops[0].body[0].value
        v = loops[0].target.id
        ok = isinstance(call.func, ast.Name) and call.func.id in params and len(call.args) == len(A.SPARSE_KERNEL_SIG)
        if ok:
            pos = [i for i, a in enumerate(call.args) if isinstance(a, ast.Name) and a.id == v]
            ok = pos == [A.SPARSE_KERNEL_SIG.index("element_index")] and all(isinstance(a, ast.Name) and (a.id in params or a.id == v) for a in call.args)
            msg = "induction variable is passed in slot(s) %s, expected only the element_index slot" % pos
    r_cov.ok("numba_kernels.py::default_sparse_kernel")
    r_st.check(ok, "default_sparse_kernel: call of kernel_evaluator(element_index=v, ..., result)", NK, fn.name, fn.lineno, "default_sparse_kernel prange body", msg, detail="callee-summarised")
    for kt, fname in sorted(reg["kernel_functions_sparse"].items()):
        it, hooks, ret = A.run_assembler(ctx, fname, "sparse_kernel", [])
        ws = [w for w in it.writes if w[0].kind == "input"]
        ev = it.env[arg_names(it.fn)[A.SPARSE_KERNEL_SIG.index("element_index")]]
        var = symex._single_atom_name(ev)
        good = bool(ws) and all(w[0].desc == "result" and any(par._axis_injective(p, var) for p in w[2]) for w in ws)
        r_st.check(good, "%s: result[...] owner-indexed by element_index" % fname, NK, fname, it.fn.lineno, "%s stores %s" % (fname, sorted({symex.idx_str(w[2][0]) for w in ws})[:2]),
                   "sparse kernel writes a parameter array at an index that is not injective in element_index", detail="owner (callee summary)")


def colouring(ctx):
    from .. import misc_guards

    misc_guards.colour_sentinel(ctx)
    thread_count_reads(ctx)
    misc_guards.inverse_dof_map(ctx)  # the colouring reads a dof's elements from global2local
    m = ctx.repo.mod(SP)
    r = ctx.rule("PAR-COLOUR", "colour map: an element's colour differs from every element sharing one of its global dofs; elements are grouped by equal colour", 3)
    fn = m.fn("FunctionSpace._compute_color_map")
    ok, why = _recognised(_colour_map_shape(fn), "_compute_color_map")
    r.check(ok, "_compute_color_map", SP, fn.name, fn.lineno, "colour map construction", why)
    fs = m.fn("FunctionSpace._sort_elements_by_color")
    oks, whys = _recognised(_sort_by_colour_shape(fs), "_sort_elements_by_color")
    r.check(oks, "_sort_elements_by_color", SP, fs.name, fs.lineno, "grouping by colour", whys)
    inv = m.fn("invert_local2global")
    oki, whyi = _recognised(_invert_shape(inv), "invert_local2global")
    r.check(oki, "invert_local2global", SP, inv.name, inv.lineno, "global2local inversion", whyi)
    # embedded positives: the same recognisers must reject the obvious breakages
    bad1 = ast.parse("def f(self):\n    for e in self.support_elements:\n        nb = set()\n        for d in self.local2global[e][:1]:\n            for x, _ in self.global2local[d]:\n                nb.add(x)\n"
                     "        self._color_map[e] = next(c for c in range(9) if c not in self._color_map[list(nb)])").body[0]
    bad2 = ast.parse("def f(m, mult):\n    g = [[] for _ in range(1 + _np.max(m))]\n    for e in range(len(m)):\n        for l, d in enumerate(m[e]):\n            g[d].append((l, e))\n    return g").body[0]
    r.must_fire(_colour_map_shape(bad1)[0] is False, "neighbours from the first local dof only")
    r.must_fire(_invert_shape(bad2)[0] is False, "global2local entries as (local index, element)")


THREAD_READS = ("get_num_threads", "get_thread_id", "NUMBA_NUM_THREADS", "cpu_count", "sched_getaffinity", "active_count", "_get_thread_id", "get_parallel_chunksize")


def thread_count_reads(ctx):
    """No function of the package lets the number (or identity) of worker threads influence what it computes: the
    result of an assembly must not depend on it, and a value derived from it that is cached outlives a later change of
    the setting.  Reads that only feed a log / print call are not counted."""
    r = ctx.rule("PAR-THREAD-READ", "no function of the package reads the worker-thread count or a thread id into a test, a bound, an index or a stored value", 1)
    n, bad = 0, 0
    for rel in ctx.repo.py_files("bempp_cl"):
        m = ctx.repo.mod(rel)
        for qn, fn in m.functions.items():
            if "<" in qn:
                continue
            n += 1
            logged = {id(x) for c in ast.walk(fn) if isinstance(c, ast.Call) and unparse(c.func).split(".")[-1] in ("log", "print", "debug", "info", "warning") for x in ast.walk(c)}
            for x in ast.walk(fn):
                nm = x.attr if isinstance(x, ast.Attribute) else x.id if isinstance(x, ast.Name) else None
                if nm in THREAD_READS and id(x) not in logged:
                    bad += 1
                    r.fail("%s::%s" % (rel.rsplit("/", 1)[-1], qn), rel, qn, x.lineno, "read of %s in %s" % (nm, qn),
                           "%s reads `%s`: what it computes (or caches) depends on the number of worker threads at that moment, the results of later assemblies on the history of that setting" % (qn, unparse(x)[:50]))
                    break
    if n < 400:
        raise AnalysisError("thread-count lint: only %d functions scanned" % n)
    if not bad:
        r.ok("%d functions, no read of the thread count" % n)
    pos = ast.parse("def f(self):\n    if _numba.get_num_threads() == 1:\n        self._indexptr = self._indexptr[[0, -1]]\n").body[0]
    r.must_fire(any((isinstance(x, ast.Attribute) and x.attr in THREAD_READS) for x in ast.walk(pos)), "colour classes merged when one thread is active")


def _recognised(res, what):
    """(True / False, why) of a shape recogniser; its third answer (None, why) - the construction is written in a way the
    recogniser does not read - is a limit of the analysis, not a verdict."""
    if res[0] is None:
        raise AnalysisError("%s: construction not recognised: %s" % (what, res[1]))
    return res


def _colour_map_shape(fn):
    """Greedy colouring: for every support element e, N collects elem for (elem, _) in global2local[d] for every d in
    local2global[e]; colour[e] is picked outside colour[list(N)]."""
    defs = roles.Defs(fn)
    S = roles.stores(fn.body, defs)
    adds = [s for s in S if s.op == "call" and isinstance(s.vnode.func, ast.Attribute) and s.vnode.func.attr == "add" and len(s.vnode.args) == 1 and len(s.loops) == 3 and not s.guards]
    if len(adds) != 1:
        return None, "no unguarded `<set>.add(<element>)` inside the loops element -> local dofs -> global2local entries (found %d)" % len(adds)
    a = adds[0]
    l0, l1, l2 = a.loops
    if not (isinstance(l0.target, ast.Name) and isinstance(l1.target, ast.Name) and isinstance(l2.target, ast.Tuple) and isinstance(l2.target.elts[0], ast.Name)
            and isinstance(a.vnode.func.value, ast.Name)):
        return None, "loop targets are not (element), (dof), (element, local index)"
    e, d, en, setname = l0.target.id, l1.target.id, l2.target.elts[0].id, a.vnode.func.value.id
    ln = a.node.lineno
    if roles.canon(l0.iter, defs).replace(" ", "") != "self.support_elements":
        return False, "outer loop does not run over self.support_elements"
    if roles.canon(l1.iter, defs).replace(" ", "") != roles.expect("self.local2global[E]", defs, l1.lineno, lv=False, E=e):
        return False, "the dof loop runs over `%s`, not over all of self.local2global[element]" % unparse(l1.iter)[:60]
    if roles.canon(l2.iter, defs).replace(" ", "") != roles.expect("self.global2local[D]", defs, l2.lineno, lv=False, D=d):
        return False, "the neighbour loop runs over `%s`, not over self.global2local[dof]" % unparse(l2.iter)[:60]
    if not (isinstance(a.vnode.args[0], ast.Name) and a.vnode.args[0].id == en):
        return False, "the set does not receive the neighbouring element"
    picks = [s for s in S if s.op == "=" and s.target == roles.expect("self._color_map[E]", defs, s.node.lineno, E=e) and s.loops == (l0,)]
    if len(picks) != 1 or picks[0].node.lineno < a.node.lineno:
        return None, "self._color_map[element] is not assigned once after the neighbour set is complete"
    gens = [g for g in ast.walk(picks[0].vnode) if isinstance(g, ast.GeneratorExp)]
    if not (isinstance(picks[0].vnode, ast.Call) and unparse(picks[0].vnode.func) == "next" and len(gens) == 1 and len(gens[0].generators) == 1 and len(gens[0].generators[0].ifs) == 1):
        return None, "colour is not `next(c for c in ... if c not in <neighbour colours>)`"
    g = gens[0].generators[0]
    cond = g.ifs[0]
    cvar = g.target.id if isinstance(g.target, ast.Name) else None
    if not (cvar and isinstance(cond, ast.Compare) and isinstance(cond.ops[0], ast.NotIn) and unparse(cond.left) == cvar and unparse(gens[0].elt) == cvar):
        return None, "colour candidates are not filtered by `not in`"
    if roles.canon(cond.comparators[0], defs, keep={setname}).replace(" ", "") != "self._color_map[list(%s)]" % setname:
        return False, "candidates are compared with `%s`, not with the colours of the collected neighbours" % unparse(cond.comparators[0])[:60]
    if not (isinstance(g.iter, ast.Call) and unparse(g.iter.func) == "range"):
        return None, "colour candidates are not an ascending range"
    return True, ""


def _sort_by_colour_shape(fs):
    defs = roles.Defs(fs)
    S = roles.stores(fs.body, defs)
    # the published arrays
    pub = {}
    for st in ast.walk(fs):
        if isinstance(st, ast.Assign):
            tg, vs = st.targets[0], st.value
            pairs = list(zip(tg.elts, vs.elts)) if isinstance(tg, ast.Tuple) and isinstance(vs, ast.Tuple) else [(tg, vs)]
            for t, v in pairs:
                if unparse(t) in ("self._sorted_indices", "self._indexptr") and isinstance(v, ast.Name):
                    pub[unparse(t)] = v.id
    if set(pub) != {"self._sorted_indices", "self._indexptr"}:
        return None, "self._sorted_indices / self._indexptr are not published from local arrays"
    SI, IP = pub["self._sorted_indices"], pub["self._indexptr"]
    loops = [s for s in fs.body if isinstance(s, ast.For)]
    if len(loops) != 1:
        return None, "expected one loop over the colours"
    lp = loops[0]
    it = roles.canon(lp.iter, defs).replace(" ", "")
    alts ={roles.expect(x, defs, lp.lineno) for x in ("1 + max(self.color_map)", "1 + _np.max(self.color_map)", "1 + self.color_map.max()")}
    if isinstance(lp.target, ast.Tuple) and len(lp.target.elts) == 2 and it in {"enumerate(_np.arange(%s))" % a for a in alts} | {"enumerate(range(%s))" % a for a in alts}:
        I, C = lp.target.elts[0].id, lp.target.elts[1].id
    elif isinstance(lp.target, ast.Name) and it in {"range(%s)" % a for a in alts} | {"_np.arange(%s)" % a for a in alts}:
        I = C = lp.target.id
    else:
        return None, "the loop runs over `%s`, not over every colour 0 .. max(color_map)" % unparse(lp.iter)[:80]
    body = [s for s in S if s.loops == (lp,) and not s.guards]
    cnt = [s for s in body if s.op == "Add=" and isinstance(s.tnode, ast.Name)]
    if not cnt:
        dec = [s for s in body if s.op in ("Sub=", "Mult=") and isinstance(s.tnode, ast.Name)]
        if len(dec) == 1:
            return False, "the running position `%s` is updated with %s instead of advancing by the number of elements of the colour: the colour classes overlap in the sorted index array" % (dec[0].target, dec[0].op)
    if len(cnt) != 1:
        return None, "no single running counter in the colour loop"
    CNT = cnt[0].target
    ln = cnt[0].node.lineno
    members = "_np.flatnonzero(self.color_map == C)"
    ex = lambda src, line: roles.expect(src, defs, line, SI=SI, IP=IP, I=I, C=C, N=CNT, M=members)
    if cnt[0].value != ex("len(M)", ln):
        return False, "the counter advances by `%s`, not by the number of elements of the colour" % cnt[0].value[:80]
    put = [s for s in body if s.op == "=" and isinstance(s.tnode, ast.Subscript) and unparse(s.tnode.value) == SI]
    if len(put) != 1 or put[0].target != ex("SI[N:N + len(M)]", put[0].node.lineno) or put[0].value != ex("M", put[0].node.lineno) or put[0].node.lineno > ln:
        return False, "the elements with color_map == colour are not stored at [count, count + their number) before the counter advances"
    ptr = [s for s in body if s.op == "=" and isinstance(s.tnode, ast.Subscript) and unparse(s.tnode.value) == IP]
    if len(ptr) != 1 or ptr[0].target != ex("IP[I + 1]", ptr[0].node.lineno) or ptr[0].value != CNT or ptr[0].node.lineno < ln:
        return False, "indexptr[colour + 1] is not the counter after the colour's elements were added"
    # what is published is what the colour loop filled: neither array is rebound, sliced or stored into between the loop
    # and the publication (a collapsed index pointer merges colour classes: elements that share a dof run concurrently)
    later = [st for st in ast.walk(fs) if isinstance(st, (ast.Assign, ast.AugAssign)) and st.lineno > lp.end_lineno
             and any(isinstance(b, ast.Name) and b.id in (SI, IP) and isinstance(b.ctx, ast.Store) or (isinstance(t, ast.Subscript) and isinstance(t.value, ast.Name) and t.value.id in (SI, IP))
                     for t in (st.targets if isinstance(st, ast.Assign) else [st.target]) for b in ([t] if isinstance(t, ast.Name) else [t]))]
    if later:
        return False, "`%s` changes the sorted indices / index pointer after the colour loop has filled them: the published classes are no longer one per colour" % unparse(later[0])[:70]
    init = [st for st in fs.body if isinstance(st, ast.Assign) and unparse(st.targets[0]) == CNT and isinstance(st.value, ast.Constant) and st.value.value == 0 and st.lineno < lp.lineno]
    ipdef = defs.alloc(IP, lp.lineno)
    if not init:
        return False, "the counter does not start at 0"
    if not (ipdef is not None and ipdef[0] == "expr" and isinstance(ipdef[1], ast.Call) and unparse(ipdef[1].func).endswith(".zeros")):
        return False, "indexptr is not zero-initialised (indexptr[0] must be 0)"
    return True, ""


def _invert_shape(inv):
    defs = roles.Defs(inv)
    p = arg_names(inv)
    S = roles.stores(inv.body, defs)
    rets = [s for s in S if s.op == "return"]
    if len(rets) != 1 or not isinstance(rets[0].vnode, ast.Name):
        return None, "does not return one local list"
    G = rets[0].vnode.id
    apps = [s for s in S if s.op == "call" and isinstance(s.vnode.func, ast.Attribute) and s.vnode.func.attr == "append"]
    if len(apps) != 1 or len(apps[0].loops) != 2:
        return None, "expected one append inside the loops over elements and local dofs"
    a = apps[0]
    l0, l1 = a.loops
    if not (isinstance(l0.target, ast.Name) and isinstance(l1.target, ast.Tuple) and len(l1.target.elts) == 2):
        return None, "loops are not `for element` / `for local, dof in enumerate(...)`"
    E, L, D = l0.target.id, l1.target.elts[0].id, l1.target.elts[1].id
    ln = a.node.lineno
    ex = lambda src, lv=True: roles.expect(src, defs, ln, lv=lv, G=G, E=E, L=L, D=D, M=p[0], W=p[1])
    if roles.canon(l0.iter, defs).replace(" ", "") not in (ex("range(len(M))", False), ex("range(M.shape[0])", False)):
        return None, "outer loop does not run over every element of the map"
    if roles.canon(l1.iter, defs).replace(" ", "") != ex("enumerate(M[E])", False):
        return None, "inner loop does not enumerate local2global[element]"
    if a.value != ex("G[D].append((E, L))"):
        return False, "global2local[dof] does not receive (element, local index) (is `%s`)" % unparse(a.vnode)[:80]
    # under which multipliers the entry is made is decided by evaluation over a table of multiplier rows (INVERT-L2G)
    return True, ""


def aliasing(ctx):
    """PAR-4: every writer of local2global tables is injective on the support or aliases zero-multiplier entries to a
    dof the same element holds with non-zero multiplier (so that global2local-based colouring covers all writes)."""
    r = ctx.rule("PAR-ALIAS", "every local2global builder is identity-on-support or uses a confirmed zero-multiplier aliasing idiom", 12)
    sites = []
    for rel in ("bempp_cl/api/space/scalar_spaces.py", "bempp_cl/api/space/scalar_dual_spaces.py", "bempp_cl/api/space/maxwell_spaces.py", SP):
        m = ctx.repo.mod(rel)
        for qn, fn in m.functions.items():
            if "." in qn or "<" in qn:
                continue
            for c in calls_in(fn):
                if isinstance(c.func, ast.Attribute) and c.func.attr == "set_local2global" and len(c.args) == 1:
                    sites.append((rel, qn, fn, c))
    for rel, qn, fn, c in sites:
        defs = roles.Defs(fn)
        prov = roles.canon(c.args[0], defs)
        arg = c.args[0]
        cls = None
        if isinstance(arg, ast.Name):
            cls = _identity_numbering(fn, arg.id, defs)
        m_call = re.match(r"(_compute_p1_dof_map|_compute_rwg0_space_data|_compute_bc_space_data)\(.*\)\[(\d+)\]$", prov.replace(" ", ""))
        if cls is None and m_call:
            callee, pos = m_call.group(1), int(m_call.group(2))
            if callee == "_compute_bc_space_data":
                cls = _bc_numbering(ctx, pos)
            else:
                cls = _alias_idiom(ctx.repo.mod(SS if callee == "_compute_p1_dof_map" else MS).fn(callee), pos)
        r.check(cls is not None and not cls.startswith("!"), "%s::%s" % (rel.split("/")[-1], qn), rel, qn, c.lineno, "local2global provenance " + prov[:80],
                "local2global comes from `%s`, which is neither an identity numbering nor an aliasing of zero-multiplier entries to a dof of the same element%s" % (prov[:120], ": " + cls[1:] if cls else ""), detail=cls)
    # embedded positive: aliasing to a dof of another element must be rejected
    bad = ast.parse("def f(n, sup, dofs):\n    m = _np.zeros((n, 3))\n    w = _np.zeros((n, 3))\n    for e in sup:\n        for l in range(3):\n            if dofs[e, l] != -1:\n"
                    "                m[e, l] = dofs[e, l]\n                w[e, l] = 1\n            else:\n                m[e, l] = m[0, l]\n    return m, w").body[0]
    r.must_fire((_alias_idiom(bad, 0) or "!").startswith("!"), "alias to another element's dof")


def _resolve(node, defs):
    seen = 0
    while isinstance(node, ast.Name) and seen < 20:
        d = defs.lookup(node.id, getattr(node, "lineno", None))
        if d is None or d[0] != "expr":
            break
        node = d[1]
        seen += 1
    return node


def _is_arange(node, defs):
    node = _resolve(node, defs)
    if isinstance(node, ast.Call) and unparse(node.func) in ("_np.arange", "np.arange") and len(node.args) == 1:
        return node.args[0]
    return None


def _identity_numbering(fn, name, defs):
    """`name` is filled by exactly one unguarded block store  name[mask] = arange(K*n).reshape(n, K)  (pairwise distinct
    dofs): description, or None."""
    S = [s for s in roles.stores(fn.body, defs) if isinstance(s.tnode, ast.Subscript) and unparse(s.tnode.value) == name]
    if len(S) != 1 or S[0].guards or S[0].loops or S[0].op != "=" or isinstance(S[0].tnode.slice, ast.Tuple):
        return None
    v = _resolve(S[0].vnode, defs)
    if isinstance(v, ast.Call) and isinstance(v.func, ast.Attribute) and v.func.attr == "reshape":
        cnt = _is_arange(v.func.value, defs)
        dims = v.args[0].elts if len(v.args) == 1 and isinstance(v.args[0], ast.Tuple) else v.args
        one = len(dims) == 2 and isinstance(dims[1], ast.Constant) and dims[1].value == 1
        if cnt is not None and len(dims) == 2 and roles.canon(cnt, defs).replace(" ", "") == roles.expect("A" if one else "A * B", defs, S[0].node.lineno, lv=False, A=dims[0], B=dims[1]):
            return "identity numbering on the support (arange(n*K).reshape(n, K))"
    if isinstance(v, ast.Call) and unparse(v.func).endswith("expand_dims") and len(v.args) == 2 and _is_arange(v.args[0], defs) is not None:
        return "identity numbering on the support (arange(n) as a column)"
    return None


def _bc_numbering(ctx, pos):
    """_compute_bc_space_data returns at `pos` the map produced by _get_data_multipliers, which numbers identically."""
    f = ctx.repo.mod(MS).fn("_compute_bc_space_data")
    d = roles.Defs(f)
    rets = [s for s in f.body if isinstance(s, ast.Return)]
    if len(rets) != 1 or not isinstance(rets[0].value, ast.Tuple) or pos >= len(rets[0].value.elts):
        return None
    e = rets[0].value.elts[pos]
    mm = re.match(r"_get_data_multipliers\(.*\)\[(\d+)\]$", roles.canon(e, d).replace(" ", ""))
    if not (isinstance(e, ast.Name) and mm):
        return None
    if any(isinstance(s.tnode, ast.Subscript) and unparse(s.tnode.value) == e.id for s in roles.stores(f.body, d)):
        return "!_compute_bc_space_data modifies the map after _get_data_multipliers built it"
    g = ctx.repo.mod("bempp_cl/api/grid/grid.py").fn("_get_data_multipliers")
    gd = roles.Defs(g)
    gr = [s for s in g.body if isinstance(s, ast.Return)]
    k = int(mm.group(1))
    if len(gr) != 1 or not isinstance(gr[0].value, ast.Tuple) or k >= len(gr[0].value.elts) or not isinstance(gr[0].value.elts[k], ast.Name):
        return None
    got = _identity_numbering(g, gr[0].value.elts[k].id, gd)
    return got and got + " in _get_data_multipliers"


def _alias_idiom(fn, pos):
    """Every store into the map returned at `pos` either comes with a non-zero multiplier on every path (a real dof,
    seen by global2local and hence by the colouring) or copies a dof of the *same* element.  Returns a description,
    '!reason' when a store is neither, None when the function is not of the expected form."""
    defs = roles.Defs(fn)
    rets = [s for s in fn.body if isinstance(s, ast.Return)]
    if len(rets) != 1 or not isinstance(rets[0].value, ast.Tuple) or pos >= len(rets[0].value.elts) or not isinstance(rets[0].value.elts[pos], ast.Name):
        return None
    R = rets[0].value.elts[pos].id
    S = roles.stores(fn.body, defs, lv=False)
    # the multiplier array: the returned array that receives non-zero constants at [e, l]
    names = [e.id for e in rets[0].value.elts if isinstance(e, ast.Name) and e.id != R]

    def nonzero_const(v):
        if isinstance(v, ast.Constant):
            return v.value not in (0, 0.0, False)
        if isinstance(v, ast.UnaryOp) and isinstance(v.op, ast.USub):
            return nonzero_const(v.operand)
        if isinstance(v, ast.IfExp):
            return nonzero_const(v.body) and nonzero_const(v.orelse)
        return False

    W = [n for n in names if any(isinstance(s.tnode, ast.Subscript) and unparse(s.tnode.value) == n and isinstance(s.tnode.slice, ast.Tuple) and nonzero_const(s.vnode) for s in S)]
    if len(W) != 1:
        return None
    W = W[0]
    wst = [s for s in S if isinstance(s.tnode, ast.Subscript) and unparse(s.tnode.value) == W]

    def covered(idx_txt, guards, loops):
        """W[idx] receives a non-zero constant on every path below (guards, loops)."""
        suf = []
        for s in wst:
            if unparse(s.tnode.slice).replace(" ", "").strip("()") != idx_txt.strip("()") or not nonzero_const(s.vnode) or s.loops != loops or s.guards[:len(guards)] != guards:
                continue
            suf.append(s.guards[len(guards):])
        if () in suf:
            return True
        firsts = {g[0] for g in suf if len(g) == 1}
        return any((t, True) in firsts and (t, False) in firsts for t, _ in firsts)

    kinds = []
    rows = {}  # per-element row buffers copied into R[e, :]
    for s in S:
        if not (isinstance(s.tnode, ast.Subscript) and unparse(s.tnode.value) == R):
            continue
        sl = s.tnode.slice
        if isinstance(sl, ast.Tuple) and len(sl.elts) == 2 and isinstance(sl.elts[1], ast.Slice) and isinstance(s.vnode, ast.Name):
            rows[s.vnode.id] = (unparse(sl.elts[0]), s)
            continue
        if not (isinstance(sl, ast.Tuple) and len(sl.elts) == 2 and all(isinstance(e, ast.Name) for e in sl.elts)):
            return "!store `%s` is not of the form map[element, local]" % unparse(s.node)[:70]
        e = sl.elts[0].id
        if covered(unparse(sl).replace(" ", ""), s.guards, s.loops):
            kinds.append("real dof with non-zero multiplier")
        elif _same_row(s.vnode, defs, R, e):
            kinds.append("alias of a dof in the same row")
        else:
            return "!`%s` writes a dof that neither has a non-zero multiplier nor is taken from row `%s` of the same map" % (unparse(s.node)[:70], e)
    for buf, (e, rs) in rows.items():
        alloc = defs.alloc(buf, rs.node.lineno)
        if not (alloc and alloc[0] == "expr" and rs.loops and alloc[1].lineno > rs.loops[-1].lineno):
            return "!row buffer `%s` is not allocated per element" % buf
        for s in S:
            if not (isinstance(s.tnode, ast.Subscript) and unparse(s.tnode.value) == buf):
                continue
            l = unparse(s.tnode.slice)
            if covered("%s,%s" % (e, l), s.guards, s.loops):
                kinds.append("real dof with non-zero multiplier")
                continue
            v = s.vnode
            if isinstance(v, ast.Subscript) and unparse(v.value) == buf and isinstance(v.slice, ast.Name) and _index_of_nonzero(S, defs, v.slice.id, W, e):
                kinds.append("alias of the row's first entry with non-zero multiplier")
                continue
            return "!`%s` fills the row with a dof that has no non-zero multiplier and is not an entry of the same row chosen by a non-zero multiplier" % unparse(s.node)[:70]
    if not kinds:
        return None
    return "; ".join(sorted(set(kinds)))


def _same_row(v, defs, R, e):
    """v is max/min of R[e] (or R[e, :]) or an entry R[e, x] of the same row."""
    v = _resolve(v, defs)
    if isinstance(v, ast.Call) and unparse(v.func) in ("_np.max", "np.max", "max", "_np.min", "np.min", "min", "_np.amax") and len(v.args) == 1:
        v = v.args[0]
    elif isinstance(v, ast.Call) and isinstance(v.func, ast.Attribute) and v.func.attr in ("max", "min") and not v.args:
        v = v.func.value
    elif not isinstance(v, ast.Subscript):
        return False
    if not (isinstance(v, ast.Subscript) and unparse(v.value) == R):
        return False
    first = v.slice.elts[0] if isinstance(v.slice, ast.Tuple) else v.slice
    return isinstance(first, ast.Name) and first.id == e


def _index_of_nonzero(S, defs, name, W, e):
    """Every non-constant store to the index variable `name` is `name = l` under the guard W[e, l] != 0."""
    st = [s for s in S if s.op == "=" and isinstance(s.tnode, ast.Name) and s.tnode.id == name]
    dyn = [s for s in st if not isinstance(s.vnode, ast.Constant)]
    if not dyn:
        return False
    for s in dyn:
        if not isinstance(s.vnode, ast.Name):
            return False
        want = roles.expect("W[E, L] != 0", defs, s.node.lineno, lv=False, W=W, E=e, L=s.vnode.id)
        if not s.guards or s.guards[-1] != (want, True):
            return False
    return True


def singular_after(ctx):
    m = ctx.repo.mod(rules.DA)
    fn = m.fn("assemble_dense")
    r = ctx.rule("PAR-SINGULAR-SEQ", "the singular part is added by one sequential np.add.at after the parallel regular phase has returned", 1)
    calls = [c for c in calls_in(fn)]
    disp = [c for c in calls if unparse(c.func).endswith("dense_assembler_dispatcher")]
    addat = [c for c in calls if unparse(c.func).endswith("add.at")]
    ok = len(disp) == 1 and len(addat) == 1 and addat[0].lineno > disp[0].lineno and unparse(addat[0].args[0]) == unparse(disp[0].args[-1])
    r.check(ok, "assemble_dense", rules.DA, fn.name, fn.lineno, "singular part accumulation", "singular values are not accumulated into the result with np.add.at after the regular assembly call")
