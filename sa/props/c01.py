"""C01 — Laplace boundary operators satisfy the Calderon identities on any polyhedron."""

from .. import duffy, grideq, rules, singular

LEVEL = "other"
TECHNIQUE = "symbolic extraction of the regular/singular Galerkin assemblers against integrand specs, near/far partition and singular-rule table agreement lints, exact Duffy change-of-variables proof; segment stores evaluated in degenerate-support worlds; package-wide lints (integer width of index arrays, forwarding of the parameter object, geometry definitions)"
LEVEL_TEXT = (
    "Decides the structural clauses that are necessary for the regular + singular split to be a Galerkin "
    "discretisation of the stated integrals on every mesh: exhaustive/disjoint near-far partition, agreement of the "
    "singular rule tables with the remap order, correctness of the remaps and of the Duffy Jacobians, Laplace kernel "
    "closed forms, integrands and scatter of the assemblers, role of every launch argument.  Any violation changes "
    "the matrices on every mesh."
)
LEVEL_NOTE = (
    "Not decided: the size of the quadrature residual (1e-6) and the Calderon identity as a numerical statement; "
    "geometry tables (normals, Jacobians) are taken as given (C11)."
)
EXPLANATION = (
    "rules: ADJ-9, ASM-REGULAR/ASM-SINGULAR (default_scalar + laplace_hypersingular), LAUNCH-ROLES, SING-* (offset "
    "tables, segments, stacking, support filters, result layout, scatter), REMAP-AFFINE, DUFFY-*, K-SPEC (Laplace)"
)
ASSUMPTIONS = [
    "Numba semantics of the numeric subset; grid tables (normals, integration elements, jac_inv_trans, local2global) denote what their names say (C09, C11)",
    "scipy/numpy fancy indexing and np.add.at accumulate duplicates",
]

TYPES = ("default_scalar", "laplace_hypersingular")


def run(ctx):
    rules.elements_adjacent_complete(ctx)
    grideq.grid_identity(ctx)
    rules.assembler_integrands(ctx, types=TYPES)
    rules.launch_sites(ctx, which=("dense", "singular"))
    singular.check_offsets(ctx)
    singular.check_segments(ctx)
    singular.check_support_filters(ctx)
    singular.check_result_layout(ctx)
    singular.check_scatter(ctx)
    duffy.remaps(ctx)
    duffy.check(ctx, max_degree=4 if ctx.thorough else 2)
    rules.kernel_specs(ctx, ("laplace",))
    # "once the regular and singular quadrature orders are raised": every order a user may raise them to reads the tables
    from . import c12

    c12.triangle(ctx)
    c12.gauss(ctx)
    # which pairs the singular rule treats, and with which shared local vertices / edges, comes from the grid's adjacency tables
    from . import c11

    c11.adjacency(ctx)
    from .. import intwidth

    intwidth.int_narrowing(ctx)  # 'orders raised': the offset tables grow with the order; they must not wrap
    from .. import spaces as _spaces

    _spaces.localised_inherit(ctx)  # singular parts, sparse forms, potentials and FMM point maps are computed on the localised companion space
    from .. import fx as _fx, argbind as _ab

    _fx.parameter_resolution(ctx)  # the quadrature order given with an operator is the order its assembler integrates with
    _fx.assembler_plumbing(ctx)
    _ab.forwarded_optionals(ctx)
    from . import c10 as _c10b

    _c10b.compat(ctx)  # the singular part (and the FMM near field built on it) converts the spaces first and reads the converted ones only
    _c10b.compat_use(ctx)
    from . import c11 as _c11g

    _c11g.geometry(ctx)  # (tools/wiring.py) normals, Jacobians, integration elements against their definitions for a general triangle of any size
