"""C19 — Grid and grid-function export and import round-trip."""

import ast

from .. import gridfun, iorules, roles
from ..core import AnalysisError
from ..src import arg_names, calls_in, unparse

LEVEL = "other"
TECHNIQUE = "writer/reader table agreement on the meshio cell-data keys (tag provenance), provenance typing of the exported arrays, exhaustiveness lint of the transformation modes; finite-domain abstract execution of export() and _transform_array (file type x data type x real/complex x mode) with exact evaluation of each mode over a symbolic complex vector; lossless-cast and fallback-condition rules; shape rule of the vertex / centre evaluation the exporter writes"
LEVEL_TEXT = (
    "Decides the clauses visible in the shape of io.py: every cell-data key from which the importer may take domain "
    "indices is written by the exporter with the domain indices themselves; cells and points are written from "
    "elements.T / vertices.T and read back with the inverse transposes; node data come from evaluate_on_vertices into "
    "point_data and element data from evaluate_on_element_centers into cell_data, transformed before the real/imag "
    "split, complex data writing both parts; the transformation dispatch covers exactly the documented modes."
)
LEVEL_NOTE = "Out of reach statically: the round trip itself, which goes through meshio's writers/readers and the file system."
EXPLANATION = "rules TAG-PROVENANCE, MESH-ARRAYS, TRANSFORM-FORMULAS, CAST-LOSSLESS, IMPORT-FALLBACK, EXPORT-DISPATCH, GF-EVALUATE"
ASSUMPTIONS = ["meshio stores and returns cell_data / point_data arrays unchanged under the keys used"]

IO = "bempp_cl/api/grid/io.py"


def _stores(body, sink, guard):
    """(innermost guard, statement) of every store into the dict `sink` below `body`; guard = (test, branch taken)."""
    for st in body:
        if isinstance(st, ast.Assign) and len(st.targets) == 1:
            t = st.targets[0]
            if (isinstance(t, ast.Name) and t.id == sink) or (isinstance(t, ast.Subscript) and unparse(t.value) == sink):
                yield guard, st
        elif isinstance(st, ast.If):
            yield from _stores(st.body, sink, (st.test, True))
            yield from _stores(st.orelse, sink, (st.test, False))
        elif isinstance(st, (ast.For, ast.While, ast.With, ast.Try)):
            for field in ("body", "orelse", "finalbody"):
                yield from _stores(getattr(st, field, []) or [], sink, guard)


def _entries(st, sink):
    t = st.targets[0]
    if isinstance(t, ast.Subscript):
        if not isinstance(t.slice, ast.Constant):
            raise AnalysisError("export: non-literal key stored into %s at line %d" % (sink, st.lineno))
        return [(t.slice.value, st.value)]
    if not isinstance(st.value, ast.Dict) or not all(isinstance(k, ast.Constant) for k in st.value.keys):
        raise AnalysisError("export: %s assigned a non-literal dict at line %d" % (sink, st.lineno))
    return [(k.value, v) for k, v in zip(st.value.keys, st.value.values)]


def run(ctx):
    m = ctx.repo.mod(IO)
    imp = m.fn("import_grid")
    exp = m.fn("export")
    # importer keys, in fallback order
    keys = []
    meshes = [st.targets[0].id for st in imp.body if isinstance(st, ast.Assign) and isinstance(st.targets[0], ast.Name) and isinstance(st.value, ast.Call) and unparse(st.value.func).endswith(".read")]
    grids = [k.value.id for c in calls_in(imp) if unparse(c.func) == "Grid" for k in c.keywords if k.arg == "domain_indices" and isinstance(k.value, ast.Name)]
    if len(meshes) != 1 or len(set(grids)) != 1:
        raise AnalysisError("import_grid: cannot name the mesh read from the file (%s) or the local handed to Grid(domain_indices=...) (%s)" % (meshes, grids))
    for st in ast.walk(imp):
        if isinstance(st, ast.Assign) and unparse(st.targets[0]) == grids[0] and isinstance(st.value, ast.Subscript):
            v = st.value
            if isinstance(v.value, ast.Subscript) and unparse(v.value.value) == meshes[0] + ".cell_data_dict" and isinstance(v.value.slice, ast.Constant) and isinstance(v.slice, ast.Constant) and v.slice.value == "triangle":
                keys.append((v.value.slice.value, st.lineno))
    keys.sort(key=lambda k: k[1])
    if not keys:
        raise AnalysisError("import_grid: no cell-data key is read into domain_indices")
    defs = roles.Defs(exp)
    # the one meshio write call names the sinks: everything below is phrased on what reaches that call
    wcall = [c for c in calls_in(exp) if unparse(c.func).endswith("write_points_cells")]
    if len(wcall) != 1:
        raise AnalysisError("export: expected exactly one meshio write_points_cells call, found %d" % len(wcall))
    wcall = wcall[0]
    wargs = dict(zip(("filename", "points", "cells", "point_data", "cell_data"), wcall.args))
    wargs.update({k.arg: k.value for k in wcall.keywords})
    if not all(isinstance(wargs.get(k), ast.Name) for k in ("point_data", "cell_data")):
        raise AnalysisError("export: point_data/cell_data are not passed to meshio as plain local names")
    point_sink, cell_sink = wargs["point_data"].id, wargs["cell_data"].id
    written = {}
    for st in ast.walk(exp):
        if isinstance(st, ast.Assign) and isinstance(st.targets[0], ast.Subscript) and unparse(st.targets[0].value) == cell_sink and isinstance(st.targets[0].slice, ast.Constant):
            written[st.targets[0].slice.value] = (roles.canon(st.value, defs).replace(" ", ""), st.lineno)
    r = ctx.rule("TAG-PROVENANCE", "every cell-data key the importer may take domain indices from is written by the exporter with the domain indices themselves", 2)
    want = "grid.domain_indices.reshape((1,USub(1)))"
    for key, ln in keys:
        w = written.get(key)
        if w is None:
            r.ok("%s (not written by export: importer falls through)" % key)
            continue
        r.check(w[0] == want, "key %r" % key, IO, "export", w[1], "cell_data[%r] is not the domain indices" % key,
                "the importer may take domain indices from %r, but the exporter writes `%s` there (not the domain indices): a grid whose importer falls back to this key does not round-trip" % (key, w[0][:120]))
    # the importer's Grid(...) construction and the exporter's arrays
    r2 = ctx.rule("MESH-ARRAYS", "cells/points are written from elements.T / vertices.T and read back with the inverse transposes; domain indices are forwarded", 3)
    pts = roles.canon(wargs["points"], defs).replace(" ", "") if "points" in wargs else "<missing>"
    cells = roles.canon(wargs["cells"], defs).replace(" ", "") if "cells" in wargs else "<missing>"
    r2.check(pts == "grid.vertices.T" and cells == "[('triangle',grid.elements.T)]", "export arrays", IO, "export", wcall.lineno, "export points/cells %s %s" % (pts, cells),
             "points/cells reach meshio as `%s` / `%s`" % (pts, cells))
    idefs = roles.Defs(imp)
    ret = [s for s in imp.body if isinstance(s, ast.Return)][0]
    got = roles.canon(ret.value, idefs).replace(" ", "")
    r2.check(got.startswith("Grid(_meshio.read(filename).points.T,_meshio.read(filename).cells_dict['triangle'].T,domain_indices="), "import arrays", IO, "import_grid", ret.lineno,
             "import returns " + got[:100], "import_grid builds `%s`" % got[:200])
    passed = {k: roles.canon(v, defs).replace(" ", "") for k, v in wargs.items()}
    okw = passed.get("filename") == "filename" and passed.get("binary") == "write_binary" and isinstance(wargs.get("file_format"), ast.Name) and set(wargs) == {
        "filename", "points", "cells", "point_data", "cell_data", "file_format", "binary"}
    r2.check(okw, "write call", IO, "export", wcall.lineno, "meshio write call", "write_points_cells receives %s" % {k: v[:40] for k, v in passed.items()})
    # node / element data plumbing and the transformation dispatch: rules EXPORT-DISPATCH and TRANSFORM-FORMULAS (abstract
    # execution; the earlier DATA-PLUMBING / TRANSFORM-MODES matched `name == literal` tests textually and raised a false
    # alarm on `literal == name` and missed `!=`)
    transform_formulas(ctx)
    iorules.cast_widths(ctx)
    iorules.import_fallback(ctx, keys, grids[0])
    iorules.export_dispatch(ctx, keys[0][0])
    # what export() writes are the values of evaluate_on_vertices / evaluate_on_element_centers (anchored here as
    # "vertex/centre evaluation"): the same rule as in C13 decides that they are the function's values there
    gridfun.evaluate_rules(ctx)


# ---------------------------------------------------------------- the transformations as formulas
    from . import c09 as _c09

    _c09.shapeset_identities(ctx)  # (tools/wiring.py) the exported values are space.evaluate of the basis: reference functions and the RWG / SNC evaluators
    _c09.edge_evaluators(ctx)


class _Q:
    """A real non-negative quantity P^(1/2^k) (k = 0: plain value, possibly complex), or log of such a quantity."""

    def __init__(self, p, k=0, log=False):
        self.p, self.k, self.log = p, k, log


def _tf_eval(node, comps, aname):
    """Evaluate a numpy expression over the symbolic complex vector `aname` = comps (list of alg.V) componentwise.
    Returns a list of _Q (one per remaining component)."""
    from ..alg import V, vsum

    def ev(n):
        if isinstance(n, ast.Name) and n.id == aname:
            return [_Q(c) for c in comps]
        if isinstance(n, ast.Constant) and isinstance(n.value, (int, float)):
            return n.value
        if isinstance(n, ast.BinOp) and isinstance(n.op, ast.Pow) and isinstance(n.right, ast.Constant) and n.right.value == 2:
            xs = ev(n.left)
            out = []
            for q in xs:
                if q.log:
                    raise AnalysisError("_transform_array: square of a logarithm")
                out.append(_Q(q.p * q.p) if q.k == 0 else _Q(q.p, q.k - 1))
            return out
        if isinstance(n, ast.BinOp) and isinstance(n.op, ast.Mult):
            a, b = ev(n.left), ev(n.right)
            if isinstance(a, list) and isinstance(b, list) and len(a) == len(b) and all(x.k == 0 and y.k == 0 and not x.log and not y.log for x, y in zip(a, b)):
                return [_Q(x.p * y.p) for x, y in zip(a, b)]
            raise AnalysisError("_transform_array: unsupported product")
        if isinstance(n, ast.Call):
            f = unparse(n.func)
            short = f.split(".")[-1]
            kw = {k.arg: k.value for k in n.keywords}
            if isinstance(n.func, ast.Attribute) and short in ("conj", "conjugate") and not n.args:
                return [_Q(q.p.conj(), q.k, q.log) for q in ev(n.func.value)]
            xs = ev(n.args[0]) if n.args else None
            if short in ("conj", "conjugate") and xs is not None:
                return [_Q(q.p.conj(), q.k, q.log) for q in xs]
            if short in ("abs", "absolute"):
                return [_Q(q.p.conj() * q.p, 1) if q.k == 0 else q for q in xs]
            if short == "real":
                return [_Q((q.p + q.p.conj()) * V.const(1) / V.const(2)) for q in xs]
            if short == "imag":
                from ..alg import I

                return [_Q((q.p - q.p.conj()) / (V.const(2) * I)) for q in xs]
            if short == "sqrt":
                return [_Q(q.p, q.k + 1) for q in xs]
            if short == "log":
                return [_Q(q.p, q.k, True) for q in xs]
            if short == "sum" and "axis" in kw and isinstance(kw["axis"], ast.Constant) and kw["axis"].value == 0:
                if not all(q.k == 0 and not q.log for q in xs):
                    raise AnalysisError("_transform_array: sum of roots")
                return [_Q(vsum(q.p for q in xs))]
            if f.endswith("linalg.norm") and "axis" in kw and isinstance(kw["axis"], ast.Constant) and kw["axis"].value == 0:
                return [_Q(vsum(q.p.conj() * q.p for q in xs), 1)]
        raise AnalysisError("_transform_array: expression outside the analysed subset: %s" % unparse(n)[:70])

    return ev(node)


def _q_equal(a, b):
    """P^(1/2^k) == R^(1/2^l) for non-negative real P, R (compare after raising to the common power)."""
    if a.log != b.log:
        return False
    p, r, k, l = a.p, b.p, a.k, b.k
    while k < l:
        p, k = p * p, k + 1
    while l < k:
        r, l = r * r, l + 1
    return p.eq(r)


def transform_formulas(ctx):
    from ..alg import I, V, vsum

    m = ctx.repo.mod(IO)
    tf = m.fn("_transform_array")
    r = ctx.rule("TRANSFORM-FORMULAS", "_transform_array: real / imag act componentwise; abs = sqrt(sum_c |a_c|^2), abs_squared = sum_c |a_c|^2, log_abs = log of abs, for complex vector-valued data", 5)
    a, modep = arg_names(tf)[0], arg_names(tf)[1]
    defs = roles.Defs(tf)
    S = roles.stores(tf.body, defs, lv=False)
    comps = [V.atom("x%d" % c) + I * V.atom("y%d" % c) for c in range(3)]
    norm2 = vsum(V.atom("x%d" % c) * V.atom("x%d" % c) + V.atom("y%d" % c) * V.atom("y%d" % c) for c in range(3))
    want = {
        "real": [_Q(V.atom("x%d" % c)) for c in range(3)], "imag": [_Q(V.atom("y%d" % c)) for c in range(3)],
        "abs": [_Q(norm2, 1)], "abs_squared": [_Q(norm2)], "log_abs": [_Q(norm2, 1, True)],
    }
    from .. import dispatch

    body = [s for s in tf.body if not (isinstance(s, ast.Expr) and isinstance(s.value, ast.Constant))]

    def returned(mode_value):
        """Expression (source text) _transform_array returns for this mode on a 2-d array (abstract execution of the dispatch)."""
        effs = dispatch.effects(body, {modep: mode_value, a + ".ndim": 2}, "_transform_array")
        sets = {e[1]: e[2] for e in effs if e[0] == "set"}
        ret = [e for e in effs if e[0] == "return"]
        if len(ret) != 1:
            return None
        txt = ret[0][1]
        seen = 0
        while isinstance(txt, str) and txt in sets and seen < 10:
            txt, seen = sets[txt], seen + 1
        return txt if isinstance(txt, str) else None

    for mode, w in want.items():
        txt = returned(mode)
        ok, why = False, "nothing is returned for mode '%s'" % mode
        if txt is not None:
            if txt.replace(" ", "") in ("%s(%s)" % (modep, a), a):
                got = []  # the callable / pass-through path is taken for a documented string mode
            else:
                got = _tf_eval(ast.parse(txt, mode="eval").body, comps, a)
            ok = len(got) == len(w) and all(_q_equal(g, x) for g, x in zip(got, w))
            why = "for mode '%s' the function returns `%s`, which is not %s for complex vector-valued data" % (mode, txt[:90], {"real": "the real part", "imag": "the imaginary part", "abs": "sqrt(sum_c |a_c|^2)", "abs_squared": "sum_c |a_c|^2", "log_abs": "log sqrt(sum_c |a_c|^2)"}[mode])
        r.check(ok, "mode %s" % mode, IO, tf.name, tf.lineno, "transformation %s" % mode, why)
    none = returned(None)
    r.check(none == a, "mode None", IO, tf.name, tf.lineno, "transformation None", "with mode None the function returns `%s`, not the data unchanged" % none)
    call = returned("‹callable›")
    r.check(call is not None and call.replace(" ", "") == "%s(%s)" % (modep, a), "mode callable", IO, tf.name, tf.lineno, "transformation callable", "a callable mode returns `%s`, not %s(%s)" % (call, modep, a))
    bad = ast.parse("_np.sqrt(_np.abs(_np.sum(a ** 2, axis=0, keepdims=True)))", mode="eval").body
    r.must_fire(not _q_equal(_tf_eval(bad, comps, "a")[0], want["abs"][0]), "|sum a_c^2| instead of sum |a_c|^2")
