"""C19 — Grid and grid-function export and import round-trip."""

import ast

from .. import roles
from ..core import AnalysisError
from ..src import arg_names, calls_in, unparse

LEVEL = "other"
TECHNIQUE = "writer/reader table agreement on the meshio cell-data keys (tag provenance), provenance typing of the exported arrays, exhaustiveness lint of the transformation modes"
LEVEL_TEXT = (
    "Decides the clauses visible in the shape of io.py: every cell-data key from which the importer may take domain "
    "indices is written by the exporter with the domain indices themselves; cells and points are written from "
    "elements.T / vertices.T and read back with the inverse transposes; node data come from evaluate_on_vertices into "
    "point_data and element data from evaluate_on_element_centers into cell_data, transformed before the real/imag "
    "split, complex data writing both parts; the transformation dispatch covers exactly the documented modes."
)
LEVEL_NOTE = "Out of reach statically: the round trip itself, which goes through meshio's writers/readers and the file system."
EXPLANATION = "rules TAG-PROVENANCE, MESH-ARRAYS, DATA-PLUMBING, TRANSFORM-MODES"
ASSUMPTIONS = ["meshio stores and returns cell_data / point_data arrays unchanged under the keys used"]

IO = "bempp_cl/api/grid/io.py"


def _stores(body, sink, guard):
    """(innermost guard, statement) of every store into the dict `sink` below `body`; guard = (test, branch taken)."""
    for st in body:
        if isinstance(st, ast.Assign) and len(st.targets) == 1:
            t = st.targets[0]
            if (isinstance(t, ast.Name) and t.id == sink) or (isinstance(t, ast.Subscript) and unparse(t.value) == sink):
                yield guard, st
        elif isinstance(st, ast.If):
            yield from _stores(st.body, sink, (st.test, True))
            yield from _stores(st.orelse, sink, (st.test, False))
        elif isinstance(st, (ast.For, ast.While, ast.With, ast.Try)):
            for field in ("body", "orelse", "finalbody"):
                yield from _stores(getattr(st, field, []) or [], sink, guard)


def _entries(st, sink):
    t = st.targets[0]
    if isinstance(t, ast.Subscript):
        if not isinstance(t.slice, ast.Constant):
            raise AnalysisError("export: non-literal key stored into %s at line %d" % (sink, st.lineno))
        return [(t.slice.value, st.value)]
    if not isinstance(st.value, ast.Dict) or not all(isinstance(k, ast.Constant) for k in st.value.keys):
        raise AnalysisError("export: %s assigned a non-literal dict at line %d" % (sink, st.lineno))
    return [(k.value, v) for k, v in zip(st.value.keys, st.value.values)]


def run(ctx):
    m = ctx.repo.mod(IO)
    imp = m.fn("import_grid")
    exp = m.fn("export")
    # importer keys, in fallback order
    keys = []
    for st in ast.walk(imp):
        if isinstance(st, ast.Assign) and unparse(st.targets[0]) == "domain_indices" and isinstance(st.value, ast.Subscript):
            v = st.value
            if isinstance(v.value, ast.Subscript) and unparse(v.value.value) == "mesh.cell_data_dict" and isinstance(v.value.slice, ast.Constant) and isinstance(v.slice, ast.Constant) and v.slice.value == "triangle":
                keys.append((v.value.slice.value, st.lineno))
    keys.sort(key=lambda k: k[1])
    if not keys:
        raise AnalysisError("import_grid: no cell-data key is read into domain_indices")
    defs = roles.Defs(exp)
    # the one meshio write call names the sinks: everything below is phrased on what reaches that call
    wcall = [c for c in calls_in(exp) if unparse(c.func).endswith("write_points_cells")]
    if len(wcall) != 1:
        raise AnalysisError("export: expected exactly one meshio write_points_cells call, found %d" % len(wcall))
    wcall = wcall[0]
    wargs = dict(zip(("filename", "points", "cells", "point_data", "cell_data"), wcall.args))
    wargs.update({k.arg: k.value for k in wcall.keywords})
    if not all(isinstance(wargs.get(k), ast.Name) for k in ("point_data", "cell_data")):
        raise AnalysisError("export: point_data/cell_data are not passed to meshio as plain local names")
    point_sink, cell_sink = wargs["point_data"].id, wargs["cell_data"].id
    written = {}
    for st in ast.walk(exp):
        if isinstance(st, ast.Assign) and isinstance(st.targets[0], ast.Subscript) and unparse(st.targets[0].value) == cell_sink and isinstance(st.targets[0].slice, ast.Constant):
            written[st.targets[0].slice.value] = (roles.canon(st.value, defs).replace(" ", ""), st.lineno)
    r = ctx.rule("TAG-PROVENANCE", "every cell-data key the importer may take domain indices from is written by the exporter with the domain indices themselves", 2)
    want = "grid.domain_indices.reshape((1,USub(1)))"
    for key, ln in keys:
        w = written.get(key)
        if w is None:
            r.ok("%s (not written by export: importer falls through)" % key)
            continue
        r.check(w[0] == want, "key %r" % key, IO, "export", w[1], "cell_data[%r] is not the domain indices" % key,
                "the importer may take domain indices from %r, but the exporter writes `%s` there (not the domain indices): a grid whose importer falls back to this key does not round-trip" % (key, w[0][:120]))
    # the importer's Grid(...) construction and the exporter's arrays
    r2 = ctx.rule("MESH-ARRAYS", "cells/points are written from elements.T / vertices.T and read back with the inverse transposes; domain indices are forwarded", 3)
    pts = roles.canon(wargs["points"], defs).replace(" ", "") if "points" in wargs else "<missing>"
    cells = roles.canon(wargs["cells"], defs).replace(" ", "") if "cells" in wargs else "<missing>"
    r2.check(pts == "grid.vertices.T" and cells == "[('triangle',grid.elements.T)]", "export arrays", IO, "export", wcall.lineno, "export points/cells %s %s" % (pts, cells),
             "points/cells reach meshio as `%s` / `%s`" % (pts, cells))
    idefs = roles.Defs(imp)
    ret = [s for s in imp.body if isinstance(s, ast.Return)][0]
    got = roles.canon(ret.value, idefs).replace(" ", "")
    r2.check(got.startswith("Grid(_meshio.read(filename).points.T,_meshio.read(filename).cells_dict['triangle'].T,domain_indices="), "import arrays", IO, "import_grid", ret.lineno,
             "import returns " + got[:100], "import_grid builds `%s`" % got[:200])
    passed = {k: roles.canon(v, defs).replace(" ", "") for k, v in wargs.items()}
    okw = passed.get("filename") == "filename" and passed.get("binary") == "write_binary" and isinstance(wargs.get("file_format"), ast.Name) and set(wargs) == {
        "filename", "points", "cells", "point_data", "cell_data", "file_format", "binary"}
    r2.check(okw, "write call", IO, "export", wcall.lineno, "meshio write call", "write_points_cells receives %s" % {k: v[:40] for k, v in passed.items()})
    # data plumbing
    r3 = ctx.rule("DATA-PLUMBING", "node data: evaluate_on_vertices -> point_data; element data: evaluate_on_element_centers -> cell_data; transformation before the real/imag split; complex data write both parts", 2)
    branches = {}
    for st in ast.walk(exp):
        if isinstance(st, ast.If) and isinstance(st.test, ast.Compare) and unparse(st.test.left) == "data_type" and isinstance(st.test.comparators[0], ast.Constant):
            branches[st.test.comparators[0].value] = st
    for kind, src_fn, sink in (("node", "evaluate_on_vertices", point_sink), ("element", "evaluate_on_element_centers", cell_sink)):
        b = branches.get(kind)
        ok = False
        msg = "no `data_type == %r` branch" % kind
        if b is not None:
            D = "_transform_array(grid_function.%s(),transformation).T" % src_fn
            # one array per cell block for cell data (meshio's cell_data layout), the bare array for point data
            wrap = (lambda x: "[%s]" % x) if sink == cell_sink else (lambda x: x)
            want = {True: {"real": wrap("_np.real(%s)" % D), "imag": wrap("_np.imag(%s)" % D)}, False: {"data": wrap(D)}}
            got = {True: {}, False: {}}
            other = []
            for guard, st in _stores(b.body, sink, None):
                gtxt = None if guard is None else (roles.canon(guard[0], defs).replace(" ", ""), guard[1])
                if gtxt is None or gtxt[0] != "_np.iscomplexobj(%s)" % D:
                    other.append(st.lineno)
                    continue
                for k, v in _entries(st, sink):
                    got[gtxt[1]][k] = roles.canon(v, defs).replace(" ", "")
            ok = got == want and not other
            msg = "data_type %r writes %s into %s (complex branch) / %s (real branch); expected %s / %s%s" % (
                kind, got[True], sink, got[False], want[True], want[False], "; unguarded stores at lines %s" % other if other else "")
        r3.check(ok, "data_type %s" % kind, IO, "export", b.lineno if b is not None else exp.lineno, "export data_type %s plumbing" % kind, msg)
    # transformation modes
    r4 = ctx.rule("TRANSFORM-MODES", "_transform_array dispatches exactly the documented modes (None, real, imag, abs, abs_squared, log_abs, callable)", 1)
    tf = m.fn("_transform_array")
    lits = set()
    has_else_call = False
    for st in ast.walk(tf):
        if isinstance(st, ast.If) and isinstance(st.test, ast.Compare) and unparse(st.test.left) == "mode" and isinstance(st.test.comparators[0], ast.Constant) and isinstance(st.test.comparators[0].value, str):
            lits.add(st.test.comparators[0].value)
            if st.orelse and not isinstance(st.orelse[0], ast.If):
                has_else_call = any(isinstance(c, ast.Call) and unparse(c.func) == "mode" for x in st.orelse for c in ast.walk(x))
    none_first = isinstance(tf.body[1] if isinstance(tf.body[0], ast.Expr) else tf.body[0], ast.If) and "modeisNone" in unparse(tf.body[1] if isinstance(tf.body[0], ast.Expr) else tf.body[0]).replace(" ", "")
    r4.check(lits == {"real", "imag", "abs", "abs_squared", "log_abs"} and has_else_call and none_first, "_transform_array", IO, "_transform_array", tf.lineno,
             "transformation modes %s" % sorted(lits), "dispatch covers %s (callable fallback: %s, None passthrough: %s)" % (sorted(lits), has_else_call, none_first))
