"""C18 — Results depend only on explicit arguments, not on process history."""

from .. import aliasmut, argbind, dtypes, fx, state

LEVEL = "other"
TECHNIQUE = "global-state effect lints: enumeration of every read of the mutable global parameter object, cache-key vs builder read-set comparison, memo-site purity, memo identity, precision pinning, escape analysis of closures (no evaluator handed out for later use reads a parameter group); inventory of every write to module-level state with a parameter-dependency analysis of memo keys; package-wide may-alias lint (no in-place update of an array that may share storage with an operand or a cached object)"
LEVEL_TEXT = (
    "Decides which functions read the mutable global parameter object (only the sanctioned resolver may), whether "
    "each FMM cache key contains every parameter its builder reads, whether memoised values of a space are computed "
    "from the object's own state only, that weak_form() returns the memo on every later call, and that the Numba "
    "assemblers compute in double precision with the requested precision selecting the result dtype only, and that no closure handed out for later use (potential evaluators, matvec functions) re-reads a parameter group when it runs.  Dense, "
    "sparse, singular and potential assemblers are clean; the FMM glue and the mass-matrix memo are not (recorded "
    "findings)."
)
LEVEL_NOTE = "Not decided: single- vs double-precision accuracy; equality with a fresh interpreter as an observation (needs execution)."
EXPLANATION = "rules FX-GLOBAL-READ, FX-PARAM-SNAPSHOT, FX-PARAM-FORWARD, FX-CACHE-KEY, FX-MEMO, WEAKFORM-MEMO, PRECISION-PIN, PROMOTE-DOUBLE, FX-LATE-READ, FX-PROCESS-STATE, ALIAS-MUTATION, ARG-NAME-BINDING, ARG-FORWARDED"
ASSUMPTIONS = ["GLOBAL_PARAMETERS is the only mutable module-level configuration object that affects numerical results (DEFAULT_* are read at construction through the same pattern)"]


def run(ctx):
    fx.parameter_provenance(ctx)
    fx.parameter_forwarding(ctx)
    fx.cache_keys(ctx)
    fx.memo_sites(ctx)
    fx.weak_form_memo(ctx)
    fx.precision_pin(ctx)
    dtypes.promote_double(ctx)
    fx.late_reads(ctx)
    fx.assembler_plumbing(ctx)
    state.process_state(ctx)
    aliasmut.alias_mutation(ctx)
    argbind.repo_argument_binding(ctx)
    argbind.forwarded_optionals(ctx)
