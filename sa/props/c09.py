"""C09 — Function spaces are conforming and their DOF maps are coherent."""

import ast
from fractions import Fraction as F

from .. import assemblers as A
from .. import bary, bcsupport, dualasm, idxspace, misc_guards, p1dofs, rwgdofs, shapesets as S, sparse, spaces, symex
from ..alg import V, vsum
from ..core import AnalysisError
from ..src import arg_names, unparse
from ..symex import Arr, Interp, Opq, opaque_atom, tov
from . import c06, c16

LEVEL = "other"
TECHNIQUE = "exact polynomial identities on the reference shape functions, symbolic extraction of the basis evaluators and Piola map, loop-shape lint of the local-to-global inversion, dispatch-totality lint, zero-multiplier aliasing lint; finite-domain abstract execution of the RWG and P1 numbering loops (which edge / vertex gets a dof under each option), index-space typing of coarse vs barycentric element tables"
LEVEL_TEXT = (
    "Decides the conformity conditions that live on the reference element and in the evaluators: P1 reference "
    "functions are nodal and sum to one, RWG reference functions have normal flux 1 through their own edge and 0 "
    "through the other two, gradients are the derivatives of the evaluate functions, the RWG evaluator is "
    "multiplier * edge length / integration element * J phi^ (and SNC is n x that with the multiplier-scaled "
    "normal), the edge sign rule is antisymmetric, global2local lists exactly the non-zero-multiplier entries of "
    "local2global, zero-multiplier entries alias a dof of the same element, and function_space dispatches every "
    "documented (kind, degree) pair and raises otherwise."
)
LEVEL_NOTE = (
    "Honestly out of reach: continuity across edges *for every mesh*, DOF counts and attachment of DOFs to mesh "
    "entities -- correctness of loops over arbitrary connectivity arrays (_compute_p1_dof_map, "
    "_compute_rwg0_space_data, _compute_bc_space_data) is program verification, not shape.  Only the structural "
    "necessary conditions listed above are decided."
)
EXPLANATION = "rules SHAPESET-P1, SHAPESET-RWG, SHAPESET-GRAD, EVAL-RWG, PIOLA, RWG-SIGN, NORMAL-MULT, PAR-COLOUR(invert_local2global), PAR-ALIAS, SPACE-DISPATCH, SPACE-MAPS"
ASSUMPTIONS = ["H1 / H(div) conformity of lowest-order elements is equivalent to matching nodal values / edge fluxes of the reference functions, given a consistent dof map"]

MS = "bempp_cl/api/space/maxwell_spaces.py"
SP = "bempp_cl/api/space/space.py"


def shapeset_identities(ctx):
    reg = S.registry(ctx)
    el = bary.edge_local(ctx)
    REF = [(F(0), F(0)), (F(1), F(0)), (F(0), F(1))]
    at = lambda v, p: v.subs({"ξ0": V.const(p[0]), "ξ1": V.const(p[1])})
    r = ctx.rule("SHAPESET-P1", "P1 reference functions: phi_i(v_j) = delta_ij and sum_i phi_i = 1", 2)
    p1 = S.evaluate(ctx, reg["p1_discontinuous"]["evaluate"], 1, 3)
    nodal = all(at(p1[0][i], REF[j]).eq(V.const(1 if i == j else 0)) for i in range(3) for j in range(3))
    r.check(nodal, "nodal", S.SH, reg["p1_discontinuous"]["evaluate"], 0, "p1 nodal values", "P1 reference functions are not nodal at the reference vertices (0,0),(1,0),(0,1)")
    r.check(vsum(p1[0]).eq(V.const(1)), "partition of unity", S.SH, reg["p1_discontinuous"]["evaluate"], 0, "p1 partition of unity", "P1 reference functions do not sum to one")
    p0 = S.evaluate(ctx, reg["p0_discontinuous"]["evaluate"], 1, 1)
    r.check(p0[0][0].eq(V.const(1)), "p0 constant", S.SH, reg["p0_discontinuous"]["evaluate"], 0, "p0 value", "P0 reference function is not the constant one")
    r2 = ctx.rule("SHAPESET-RWG", "RWG reference functions: outward normal flux 1 through their own edge, 0 through the other two (edges as in _EDGE_LOCAL)", 9)
    rw = S.evaluate(ctx, reg["rwg0"]["evaluate"], 2, 3)
    for f in range(3):
        for e, (a, b) in enumerate(el):
            p, q = REF[a], REF[b]
            # outward normal * length for the positively oriented reference triangle: edge a->b may run against the
            # counter-clockwise direction, so orient by the third vertex
            c = REF[3 - a - b]
            n = (q[1] - p[1], -(q[0] - p[0]))
            mid = ((p[0] + q[0]) / 2, (p[1] + q[1]) / 2)
            if n[0] * (c[0] - mid[0]) + n[1] * (c[1] - mid[1]) > 0:
                n = (-n[0], -n[1])
            flux = at(rw[0][f], mid) * V.const(n[0]) + at(rw[1][f], mid) * V.const(n[1])
            want = 1 if e == f else 0
            r2.check(flux.eq(V.const(want)), "function %d through edge %d" % (f, e), S.SH, reg["rwg0"]["evaluate"], 0, "rwg flux of function %d through edge %d" % (f, e),
                     "flux is %r, expected %d" % (flux, want))
    r3 = ctx.rule("SHAPESET-GRAD", "registered gradients are the derivatives of the registered evaluate functions; snc0 shares the rwg0 reference functions", 3)
    for ident in ("p0_discontinuous", "p1_discontinuous", "rwg0"):
        ent = reg[ident]
        dim, nf = ent["dimension"], ent["number_of_shape_functions"]
        ev = S.evaluate(ctx, ent["evaluate"], dim, nf)
        g = S.gradient(ctx, ent["gradient"], dim, nf)
        ok = all(ev[c][f].diff("ξ%d" % d).eq(g[c][d][f]) for c in range(dim) for d in range(2) for f in range(nf))
        r3.check(ok, ident, S.SH, ent["gradient"], 0, "gradient of " + ident, "gradient table is not the derivative of the evaluate function")
    r3.check(reg["snc0"]["evaluate"] == reg["rwg0"]["evaluate"], "snc0 evaluate", S.SH, "_SHAPESETS", 0, "snc0 reference functions", "snc0 no longer uses the rwg0 reference functions")


def edge_evaluators(ctx):
    """_numba_rwg0_evaluate == m * l / J * Jac phi^ ; _numba_snc0_evaluate == n x (that) with n = normal * normal multiplier."""
    r = ctx.rule("EVAL-RWG", "RWG evaluator = multiplier * edge length / integration element * J phi^; SNC evaluator = (multiplier-scaled normal) x RWG evaluator", 2)
    m = ctx.repo.mod(MS)
    reg = S.registry(ctx)
    py = S.evaluate(ctx, reg["rwg0"]["evaluate"], 2, 3)
    el = bary.edge_local(ctx)
    vals = {}
    for fname in ("_numba_rwg0_evaluate", "_numba_snc0_evaluate"):
        fn = m.fn(fname)
        p = arg_names(fn)
        symex.reset()
        hooks = A.Hooks(ctx, "geom").as_dict()
        N = opaque_atom("#pts")
        pts = Arr("P", "input", ndim=2, shape=[2, N])
        lm = Arr("lm", "input", ndim=2, shape=[opaque_atom("#g"), 3])
        nm = Arr("nm", "input", ndim=1, shape=[opaque_atom("#g")])
        e = opaque_atom("e")
        it = Interp(m, fn, {p[0]: e, p[1]: Opq("shapeset", "shapeset"), p[2]: pts, p[3]: A.Grid("G"), p[4]: lm, p[5]: nm}, hooks)
        out = it.run()
        q = symex.fresh("q")
        symex.RANGES[q] = N
        xi = {"ξ0": opaque_atom("P", [0, V.atom(q)]), "ξ1": opaque_atom("P", [1, V.atom(q)])}
        got = [[tov(it.index(out, [d, f, V.atom(q)], fn)) for f in range(3)] for d in range(3)]

        def ell(f):
            a, b = el[f]
            dv = [opaque_atom("G.vertices", [c, opaque_atom("G.elements", [a, e])]) - opaque_atom("G.vertices", [c, opaque_atom("G.elements", [b, e])]) for c in range(3)]
            return vsum(x * x for x in dv).sqrt()

        # reference values as the evaluator sees them: φ(shapeset)⟨c, f, ξ⟩
        ref = lambda c, f: opaque_atom("φ(shapeset)", [c, f, xi["ξ0"], xi["ξ1"]])
        rwg = [[opaque_atom("lm", [e, f]) * ell(f) / opaque_atom("G.integration_elements", [e]) * vsum(opaque_atom("G.jacobians", [e, d, c]) * ref(c, f) for c in range(2)) for f in range(3)] for d in range(3)]
        if fname == "_numba_rwg0_evaluate":
            want = rwg
        else:
            n = [opaque_atom("G.normals", [e, d]) * opaque_atom("nm", [e]) for d in range(3)]
            want = [[None] * 3 for _ in range(3)]
            for f in range(3):
                col = [rwg[d][f] for d in range(3)]
                cr = [n[1] * col[2] - n[2] * col[1], n[2] * col[0] - n[0] * col[2], n[0] * col[1] - n[1] * col[0]]
                for d in range(3):
                    want[d][f] = cr[d]
        ok = all(got[d][f].eq(want[d][f]) for d in range(3) for f in range(3))
        r.check(ok, fname, MS, fname, fn.lineno, "evaluator formula of " + fname, "evaluator output differs from the stated formula")


class _Rejected(Exception):
    pass


def _run_dispatch(fn, Fv, call, env):
    """Abstractly run function_space up to the constructor call for concrete (kind, degree): the constructor expression
    bound to the dispatch variable, or None when an exception is raised first.  Tests that do not depend on
    kind/degree/the dispatch variable are unknown; both branches must then leave the dispatch variable alone."""
    state = {"f": None, "done": False}

    def writes_f(body):
        return any(isinstance(n, (ast.Assign, ast.AugAssign)) and any(unparse(t) == Fv for t in (n.targets if isinstance(n, ast.Assign) else [n.target])) for b in body for n in ast.walk(b))

    def val(e):
        if isinstance(e, ast.Constant):
            return e.value
        if isinstance(e, ast.Name) and e.id in env:
            return env[e.id]
        if isinstance(e, (ast.Tuple, ast.List, ast.Set)):
            return tuple(val(x) for x in e.elts)
        raise KeyError

    def test(t):
        try:
            if isinstance(t, ast.BoolOp):
                vs = [test(x) for x in t.values]
                if isinstance(t.op, ast.And):
                    return False if any(v is False for v in vs) else (None if any(v is None for v in vs) else True)
                return True if any(v is True for v in vs) else (None if any(v is None for v in vs) else False)
            if isinstance(t, ast.UnaryOp) and isinstance(t.op, ast.Not):
                v = test(t.operand)
                return None if v is None else not v
            if isinstance(t, ast.Compare) and len(t.ops) == 1:
                if isinstance(t.left, ast.Name) and t.left.id == Fv and isinstance(t.comparators[0], ast.Constant) and t.comparators[0].value is None:
                    isnone = state["f"] is None
                    return isnone if isinstance(t.ops[0], (ast.Is, ast.Eq)) else (not isnone if isinstance(t.ops[0], (ast.IsNot, ast.NotEq)) else None)
                a, b = val(t.left), val(t.comparators[0])
                op = t.ops[0]
                return {ast.Eq: lambda: a == b, ast.NotEq: lambda: a != b, ast.In: lambda: a in b, ast.NotIn: lambda: a not in b}[type(op)]()
            if isinstance(t, ast.Name) and t.id == Fv:
                return state["f"] is not None
        except (KeyError, TypeError):
            return None
        return None

    def block(body):
        for st in body:
            if state["done"]:
                return
            if any(n is call for n in ast.walk(st)):
                state["done"] = True
                return
            if isinstance(st, ast.If):
                tv = test(st.test)
                if tv is None:
                    if writes_f(st.body) or writes_f(st.orelse):
                        raise AnalysisError("function_space: the constructor is selected under a test the analysis cannot decide: `%s`" % unparse(st.test)[:80])
                    continue
                block(st.body if tv else st.orelse)
            elif isinstance(st, ast.Raise):
                raise _Rejected()
            elif isinstance(st, ast.Assign) and any(unparse(t) == Fv for t in st.targets):
                state["f"] = None if isinstance(st.value, ast.Constant) and st.value.value is None else unparse(st.value)
            elif isinstance(st, (ast.For, ast.While, ast.With, ast.Try)) and writes_f([st]):
                raise AnalysisError("function_space: the constructor is selected inside a loop/with/try block")

    try:
        block(fn.body)
    except _Rejected:
        return None
    if not state["done"]:
        raise AnalysisError("function_space: the constructor call is not reached on the straight-line path")
    return state["f"]


def dispatch(ctx):
    r = ctx.rule("SPACE-DISPATCH", "function_space maps every documented (kind, degree) pair to its constructor and raises for anything else", 11)
    m = ctx.repo.mod(SP)
    fn = m.fn("function_space")
    pa = arg_names(fn)
    if "kind" not in pa or "degree" not in pa:
        raise AnalysisError("function_space: public parameters kind/degree missing")
    # the dispatch variable: the local name called with **kwargs
    fcalls = [c for c in ast.walk(fn) if isinstance(c, ast.Call) and isinstance(c.func, ast.Name) and any(k.arg is None for k in c.keywords)]
    if len(fcalls) != 1:
        raise AnalysisError("function_space: the constructor call `<f>(grid, **kwargs)` was not found")
    Fv = fcalls[0].func.id
    kinds = sorted({c.value for n in ast.walk(fn) if isinstance(n, ast.Compare) and unparse(n.left) == "kind" for c in ast.walk(n) if isinstance(c, ast.Constant) and isinstance(c.value, str)}) + ["\0other"]
    degs = sorted({c.value for n in ast.walk(fn) if isinstance(n, ast.Compare) and unparse(n.left) == "degree" for c in ast.walk(n) if isinstance(c, ast.Constant) and isinstance(c.value, int)}) + [97]
    table, rejected = {}, set()
    for k in kinds:
        for dg in degs:
            res = _run_dispatch(fn, Fv, fcalls[0], {"kind": k, "degree": dg})
            if res is None:
                rejected.add((k, dg))
            else:
                table[(k, dg)] = res
    want = {
        ("DP", 0): "scalar_spaces.p0_discontinuous_function_space", ("DP", 1): "scalar_spaces.p1_discontinuous_function_space", ("P", 1): "scalar_spaces.p1_continuous_function_space",
        ("DUAL", 0): "scalar_dual_spaces.dual0_function_space", ("DUAL", 1): "scalar_dual_spaces.dual1_function_space", ("RWG", 0): "maxwell_spaces.rwg0_function_space",
        ("RT", 0): "maxwell_spaces.rwg0_function_space", ("SNC", 0): "maxwell_spaces.snc0_function_space", ("NC", 0): "maxwell_spaces.snc0_function_space",
        ("BC", 0): "maxwell_spaces.bc_function_space", ("RBC", 0): "maxwell_spaces.rbc_function_space",
    }
    for key, tgt in want.items():
        r.check(table.get(key) == tgt, "%s %d" % key, SP, "function_space", fn.lineno, "dispatch of %s%d -> %s" % (key[0], key[1], table.get(key)), "(%s, %d) dispatches to %s, documented constructor is %s" % (key[0], key[1], table.get(key), tgt))
    extra = sorted(set(table) - set(want))
    raises = ("\0other", 97) in rejected and all((k, 97) in rejected for k in kinds) and all(("\0other", dg) in rejected for dg in degs)
    r.check(raises and not extra, "unknown pairs rejected", SP, "function_space", fn.lineno, "dispatch fallthrough (extra pairs %s)" % extra,
            "unknown (kind, degree) pairs are not rejected with an exception / undocumented pairs reach a constructor: %s" % [(k.replace("\0", "<"), d) for k, d in extra])
    # every constructor exists
    for key, tgt in want.items():
        mod, name = tgt.split(".")
        mm = ctx.repo.mod("bempp_cl/api/space/%s.py" % mod)
        if not mm.has_fn(name):
            raise AnalysisError("space constructor %s vanished" % tgt)


def run(ctx):
    shapeset_identities(ctx)
    edge_evaluators(ctx)
    sparse.evaluators(ctx)
    c06.piola(ctx)
    spaces.rwg_sign_rule(ctx)
    rwgdofs.rwg_dof_decisions(ctx)
    p1dofs.p1_dof_decisions(ctx)
    idxspace.index_spaces(ctx)
    misc_guards.dof_counts(ctx)
    misc_guards.inverse_dof_map(ctx)
    bcsupport.bc_support(ctx)
    from . import c10

    c10.bary_inherit(ctx)  # support and normal multipliers of the spaces that live on the barycentric grid
    dualasm.dual1_assembly(ctx)  # attachment of the DUAL1 dofs to their element / edges / vertices
    spaces.normal_multipliers(ctx)
    spaces.coefficient_maps(ctx)
    spaces.localised_inherit(ctx)
    c16.colouring(ctx)
    c16.aliasing(ctx)
    spaces.dof_by_entity(ctx)
    spaces.builder_roles(ctx)
    dispatch(ctx)
    from .. import intwidth

    intwidth.int_narrowing(ctx)  # index / offset arrays must not wrap
    from .. import gridfun as _gf

    _gf.evaluate_rules(ctx)  # 'observe at GridFunction.evaluate': the function of a coefficient vector is read through the space's own dof map
    _gf.representations(ctx)
    from .. import spaces as _spc

    _spc.paired_defaults(ctx)  # RWG / SNC and BC / RBC are built from the same options under the same keywords
    from .. import bcfan as _bcf
    from . import c10 as _c10n

    _c10n.local_numbering_tables(ctx)  # (tools/wiring.py) the BC / RBC coefficients and the dual-space tables on the barycentric grid are anchored here too
    _bcf.fan_bundles(ctx)
    from . import c11 as _c11e

    _c11e.edge_convention(ctx)  # (tools/wiring.py) the RWG / SNC evaluators and the SNC surface curl read edge lengths by the local edge convention
