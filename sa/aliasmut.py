"""C18 / C14: no function updates IN PLACE an array it did not allocate itself.

`A.weak_form()` returns the cached discrete operator, `op.to_dense()` / `.A` / `._impl` the array that operator holds,
`f.coefficients` / `f.projections()` the vector a grid function holds.  An in-place update (`x += y`, `x[...] = y`,
`np.add(a, b, out=x)`, `x.fill(..)`) of a local that MAY share storage with such a value changes the operand for every
later use: the result of a later call then depends on what was computed before (history dependence), and the operand
no longer denotes the matrix / function it was built as.

May-alias analysis, per function, a forward analysis over the statement structure, deliberately small:

  sources      attribute reads `obj.attr`, accessor calls without arguments `obj.to_x()`, `obj.get_x()`, `obj.weak_form()`,
               `obj.projections()`, `obj.data()`
  propagation  plain assignment; views: `.T .real .imag .flat`, basic indexing, `.view() .reshape() .ravel() .squeeze()
               .transpose() .swapaxes()`, `np.asarray / ascontiguousarray / real / imag (x)`, `.astype(t, copy=False)`
  fresh        everything else (arithmetic, `.copy()`, `np.array`, `.astype(t)`, constructors, reductions ...)
  sinks        augmented assignment to an aliasing NAME; subscript store / augmented subscript store through an aliasing
               NAME; `out=` keyword; in-place methods `fill sort resize put itemset partition`; `np.<ufunc>.at(x, ..)`

Stores through `self.attr[...]` are not sinks (an object filling its own tables).  Dictionary-style reads
(`obj.table["key"]`) and the loop-carried scalar counters they feed are not sources.  Jitted kernels are skipped (their
array arguments are outputs by contract; rules PAR-STORES / IDX-EXTENT read them).  Zero sites on the pinned tree.
"""

import ast

from .core import AnalysisError
from .src import decorator_opts, unparse

VIEW_METHODS = {"view", "reshape", "ravel", "squeeze", "transpose", "swapaxes", "diagonal"}
VIEW_FUNCS = {"asarray", "ascontiguousarray", "asfortranarray", "atleast_1d", "atleast_2d", "atleast_3d", "require", "real", "imag", "asanyarray"}
INPLACE_METHODS = {"fill", "sort", "resize", "put", "itemset", "partition", "setfield", "byteswap"}
ACCESSORS = {"projections", "weak_form", "strong_form", "data"}


def may_alias(e, al):
    """May the value of `e` share storage with state held by some object? (al: locals already known to)"""
    if isinstance(e, ast.Name):
        return e.id in al
    if isinstance(e, ast.Attribute):
        if e.attr in ("T", "real", "imag", "flat", "H"):
            return may_alias(e.value, al)
        if e.attr in ("shape", "dtype", "ndim", "size", "nnz"):
            return False
        return True
    if isinstance(e, ast.Subscript):
        if isinstance(e.slice, ast.Constant) and isinstance(e.slice.value, str):
            return False  # table["key"]: a dictionary entry (counts, names), not array storage
        if isinstance(e.slice, (ast.List, ast.ListComp)):
            return False  # fancy indexing copies
        return may_alias(e.value, al)
    if isinstance(e, ast.IfExp):
        return may_alias(e.body, al) or may_alias(e.orelse, al)
    if isinstance(e, ast.Call):
        f = e.func
        name = unparse(f).split(".")[-1]
        if name == "astype":
            cp = [k for k in e.keywords if k.arg == "copy"]
            if cp and isinstance(cp[0].value, ast.Constant) and cp[0].value.value is False and isinstance(f, ast.Attribute):
                return may_alias(f.value, al)
            return False
        if name in VIEW_FUNCS and e.args:
            return may_alias(e.args[0], al)
        if isinstance(f, ast.Attribute) and name in VIEW_METHODS:
            return may_alias(f.value, al)
        if isinstance(f, ast.Attribute) and not e.args and not e.keywords and (name.startswith(("to_", "get_")) or name in ACCESSORS) and not (isinstance(f.value, ast.Name) and f.value.id in ("_np", "np", "numpy")):
            return True
        return False
    return False


def sites(fn):
    """[(line, text, why)] of the in-place updates of possibly shared storage in fn (nested functions included).

    Forward may-analysis over the statement structure: the set of local names that may share storage with an object's
    state is updated in source order (`x = <fresh>` removes x, `x = <alias>` adds it), joined over the branches of an
    `if` / `try`, and loop bodies are walked twice so that a binding made late in an iteration reaches its start."""
    params = {a.arg for a in fn.args.args + fn.args.kwonlyargs} - {"self", "cls"}
    out = []

    def check(st, al):
        if isinstance(st, ast.AugAssign) and isinstance(st.target, ast.Name) and st.target.id in al:
            out.append((st.lineno, unparse(st)[:80], "`%s` may share storage with an operand (it was bound to a view / accessor result) and is updated in place" % st.target.id))
        tgt = st.target if isinstance(st, ast.AugAssign) else (st.targets[0] if isinstance(st, ast.Assign) and len(st.targets) == 1 else None)
        if isinstance(tgt, ast.Subscript) and isinstance(tgt.value, ast.Name) and tgt.value.id in al:
            out.append((st.lineno, unparse(st)[:80], "entries of `%s`, which may share storage with an operand, are overwritten" % tgt.value.id))
        base = tgt.value if isinstance(tgt, ast.Subscript) else (tgt if isinstance(st, ast.AugAssign) else None)
        if isinstance(base, (ast.Attribute, ast.Subscript)):
            root = base
            while isinstance(root, (ast.Attribute, ast.Subscript)):
                root = root.value
            if isinstance(root, ast.Name) and root.id in params:
                out.append((st.lineno, unparse(st)[:80], "state of the argument `%s` is overwritten" % root.id))
        exprs = [st.value] if isinstance(st, (ast.Assign, ast.AugAssign, ast.Expr, ast.Return)) and st.value is not None else \
            [st.test] if isinstance(st, (ast.If, ast.While)) else [st.iter] if isinstance(st, ast.For) else []
        for ex in exprs:
            for c in ast.walk(ex):
                if not isinstance(c, ast.Call):
                    continue
                for k in c.keywords:
                    if k.arg == "out" and may_alias(k.value, al):
                        out.append((c.lineno, unparse(c)[:80], "`out=%s` writes into storage that may belong to an operand" % unparse(k.value)))
                f = c.func
                if isinstance(f, ast.Attribute) and f.attr in INPLACE_METHODS and isinstance(f.value, ast.Name) and f.value.id in al:
                    out.append((c.lineno, unparse(c)[:80], "in-place method on `%s`, which may share storage with an operand" % f.value.id))
                if isinstance(f, ast.Attribute) and f.attr == "at" and c.args and isinstance(c.args[0], ast.Name) and c.args[0].id in al:
                    out.append((c.lineno, unparse(c)[:80], "unbuffered in-place update of `%s`, which may share storage with an operand" % c.args[0].id))

    def scalar(v):
        return isinstance(v, ast.Constant) or (isinstance(v, ast.Call) and unparse(v.func) in ("len", "int", "float", "range"))

    def block(stmts, al):
        for st in stmts:
            check(st, al)
            if isinstance(st, ast.Assign):
                for t in st.targets:
                    names = [t] if isinstance(t, ast.Name) else [e for e in ast.walk(t) if isinstance(e, ast.Name) and isinstance(e.ctx, ast.Store)] if isinstance(t, (ast.Tuple, ast.List)) else []
                    for nm in names:
                        if isinstance(t, ast.Name) and not scalar(st.value) and may_alias(st.value, al):
                            al = al | {nm.id}
                        else:
                            al = al - {nm.id}
            elif isinstance(st, ast.If):
                al = block(st.body, al) | block(st.orelse, al)
            elif isinstance(st, (ast.For, ast.While)):
                if isinstance(st, ast.For):
                    al = al - {e.id for e in ast.walk(st.target) if isinstance(e, ast.Name)}
                once = block(st.body, al)
                al = al | once | block(st.body, al | once) | block(st.orelse, al | once)
            elif isinstance(st, ast.With):
                al = block(st.body, al)
            elif isinstance(st, ast.Try):
                b = block(st.body, al)
                for h in st.handlers:
                    b = b | block(h.body, al | b)
                al = block(st.finalbody, block(st.orelse, b))
            elif isinstance(st, (ast.FunctionDef, ast.AsyncFunctionDef)):
                block(st.body, al - {a.arg for a in st.args.args})  # a closure sees the bindings made so far
        return al

    block(fn.body, frozenset())
    return sorted(set(out))


def alias_mutation(ctx, rule_id="ALIAS-MUTATION"):
    r = ctx.rule(rule_id, "no function updates in place an array that may share storage with an operand or with an object's cached state (package-wide may-alias lint over views, accessors and copy=False casts)", 1)
    n_fn, n_bad = 0, 0
    for rel in ctx.repo.py_files("bempp_cl"):
        m = ctx.repo.mod(rel)
        for qn, fn in m.functions.items():
            if "<" in qn or decorator_opts(fn) is not None:
                continue
            n_fn += 1
            for line, text, why in sites(fn):
                n_bad += 1
                r.fail("%s::%s line %d" % (rel.rsplit("/", 1)[-1], qn, line), rel, qn, line, "in-place update `%s` in %s" % (text, qn),
                       "`%s`: %s; every later use of that operand (a cached weak form, a grid function's vector) sees the modified values" % (text, why))
    if n_fn < 400:
        raise AnalysisError("alias lint: only %d functions scanned" % n_fn)
    if not n_bad:
        r.ok("%d functions, no in-place update of possibly shared storage" % n_fn)
    pos = ast.parse("def __add__(self, other):\n    result = self.to_dense().astype(_np.result_type(self.dtype, other.dtype), copy=False)\n    result += other.to_dense()\n    return Dense(result)\n").body[0]
    neg = ast.parse("def __add__(self, other):\n    result = self.to_dense().astype(_np.result_type(self.dtype, other.dtype))\n    result += other.to_dense()\n    n = self.counts['a']\n    n += 1\n    t = self._impl\n    t = t.copy()\n    t *= 2\n    return Dense(result)\n").body[0]
    r.must_fire(len(sites(pos)) == 1 and not sites(neg), "sum accumulated into the left operand's own array (astype(copy=False))")
