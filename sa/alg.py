"""KEX algebra: rational functions of exponential polynomials over Q(i).

A value is ``V = N / d`` with ``d`` a polynomial and ``N`` a finite sum
``sum_k c_k * exp(e_k)`` with polynomial ``c_k, e_k``.  Polynomials are over
Q(i) in named atoms.  ``sqrt(q)`` is an atom ``S`` with the side relation
``S**2 = q``; polynomials are kept reduced (degree <= 1 in each sqrt atom), so
equality is decided by exact arithmetic: two values are equal iff the
cross-multiplied difference is the zero exponential polynomial.  ``cos``/``sin``
are rewritten to exponentials.  No solver, no floating point.
"""

from fractions import Fraction as F
from math import isqrt

from .core import AnalysisError


class C:
    """Element of Q(i)."""

    __slots__ = ("re", "im")

    def __init__(s, re=0, im=0):
        s.re = re if isinstance(re, F) else F(re)
        s.im = im if isinstance(im, F) else F(im)

    def __add__(a, b):
        return C(a.re + b.re, a.im + b.im)

    def __sub__(a, b):
        return C(a.re - b.re, a.im - b.im)

    def __mul__(a, b):
        if not b.im and not a.im:
            return C(a.re * b.re, 0)
        return C(a.re * b.re - a.im * b.im, a.re * b.im + a.im * b.re)

    def __neg__(a):
        return C(-a.re, -a.im)

    def conj(a):
        return C(a.re, -a.im)

    def inv(a):
        n = a.re * a.re + a.im * a.im
        return C(a.re / n, -a.im / n)

    def iszero(a):
        return not a.re and not a.im

    def key(a):
        return (a.re, a.im)

    def __eq__(a, b):
        return a.re == b.re and a.im == b.im

    def __hash__(a):
        return hash((a.re, a.im))

    def __repr__(a):
        if not a.im:
            return str(a.re)
        if not a.re:
            return "%si" % a.im
        return "(%s%s%si)" % (a.re, "+" if a.im >= 0 else "", a.im)


ONE = C(1)
ZERO = C(0)
IM = C(0, 1)

# sqrt atoms: name -> radicand Poly ; and reverse lookup by radicand key
SQ = {}
_SQ_BY_KEY = {}


def mono_mul(m1, m2):
    if not m1:
        return m2
    if not m2:
        return m1
    d = dict(m1)
    for a, e in m2:
        d[a] = d.get(a, 0) + e
    return tuple(sorted(d.items()))


class Poly:
    __slots__ = ("t",)

    def __init__(s, t=None):
        s.t = {k: v for k, v in t.items() if not v.iszero()} if t else {}

    @staticmethod
    def const(c):
        return Poly({(): c if isinstance(c, C) else C(c)})

    @staticmethod
    def atom(a, e=1):
        return Poly({((a, e),): ONE})

    def __add__(a, b):
        t = dict(a.t)
        for k, v in b.t.items():
            if k in t:
                t[k] = t[k] + v
            else:
                t[k] = v
        return Poly(t)

    def __neg__(a):
        p = Poly()
        p.t = {k: -v for k, v in a.t.items()}
        return p

    def __sub__(a, b):
        return a + (-b)

    def __mul__(a, b):
        t = {}
        for k1, v1 in a.t.items():
            for k2, v2 in b.t.items():
                k = mono_mul(k1, k2)
                v = v1 * v2
                if k in t:
                    t[k] = t[k] + v
                else:
                    t[k] = v
        return reduce_sq(Poly(t))

    def scale(a, c):
        p = Poly()
        p.t = {k: v * c for k, v in a.t.items()} if not c.iszero() else {}
        return p

    def iszero(a):
        return not a.t

    def isconst(a):
        return all(k == () for k in a.t)

    def constval(a):
        return a.t.get((), ZERO)

    def key(a):
        return tuple(sorted((k, v.key()) for k, v in a.t.items()))

    def conj(a):
        p = Poly()
        p.t = {k: v.conj() for k, v in a.t.items()}
        return p

    def atoms(a):
        s = set()
        for k in a.t:
            for at, _ in k:
                s.add(at)
        return s

    def subs(a, env):
        """env: atom -> Poly.  (Substituting into sqrt atoms is handled by V.subs.)"""
        if not any(at in env for at in a.atoms()):
            return a
        r = Poly()
        cache = {}
        for k, v in a.t.items():
            term = Poly.const(v)
            for at, e in k:
                if at in env:
                    ck = (at, e)
                    if ck not in cache:
                        p = Poly.const(1)
                        for _ in range(e):
                            p = p * env[at]
                        cache[ck] = p
                    term = term * cache[ck]
                else:
                    term = term * Poly.atom(at, e)
            r = r + term
        return r

    def __repr__(a):
        if not a.t:
            return "0"
        out = []
        for k, v in sorted(a.t.items(), key=lambda kv: str(kv[0])):
            m = "*".join(x if e == 1 else "%s^%d" % (x, e) for x, e in k)
            out.append((m if v == ONE else "%r*%s" % (v, m)) if m else repr(v))
        return " + ".join(out)


def reduce_sq(p):
    """Reduce powers >= 2 of sqrt atoms using S**2 = radicand."""
    if not SQ:
        return p
    need = False
    for k in p.t:
        for at, e in k:
            if e >= 2 and at in SQ:
                need = True
                break
        if need:
            break
    if not need:
        return p
    r = Poly()
    for k, v in p.t.items():
        term = Poly({tuple((at, e) for at, e in k if not (at in SQ and e >= 2)): v})
        for at, e in k:
            if at in SQ and e >= 2:
                q, rem = divmod(e, 2)
                for _ in range(q):
                    term = term * SQ[at]
                if rem:
                    term = term * Poly.atom(at)
        r = r + term
    return reduce_sq(r)


def _rat_sqrt(fr):
    """sqrt of a non-negative Fraction if it is a perfect square, else None."""
    if fr < 0:
        return None
    n, d = fr.numerator, fr.denominator
    rn, rd = isqrt(n), isqrt(d)
    if rn * rn == n and rd * rd == d:
        return F(rn, rd)
    return None


def sqrt_poly(p):
    """Return a Poly representing sqrt(p) (a rational, or a sqrt atom)."""
    if p.isconst():
        c = p.constval()
        if not c.im:
            r = _rat_sqrt(c.re)
            if r is not None:
                return Poly.const(r)
    key = p.key()
    if key in _SQ_BY_KEY:
        return Poly.atom(_SQ_BY_KEY[key])
    name = "√%d" % len(SQ)
    SQ[name] = p
    _SQ_BY_KEY[key] = name
    return Poly.atom(name)


class EP:
    """Exponential polynomial: sum of coefficient-Poly * exp(exponent-Poly)."""

    __slots__ = ("t",)

    def __init__(s, t=None):
        s.t = {k: v for k, v in t.items() if not v[1].iszero()} if t else {}

    @staticmethod
    def of(p):
        return EP({(): (Poly(), p)})

    @staticmethod
    def exp(p):
        return EP({p.key(): (p, Poly.const(1))})

    def __add__(a, b):
        t = dict(a.t)
        for k, (e, c) in b.t.items():
            t[k] = (e, t[k][1] + c) if k in t else (e, c)
        return EP(t)

    def __neg__(a):
        return EP({k: (e, -c) for k, (e, c) in a.t.items()})

    def __sub__(a, b):
        return a + (-b)

    def __mul__(a, b):
        t = {}
        for k1, (e1, c1) in a.t.items():
            for k2, (e2, c2) in b.t.items():
                e = e1 + e2
                k = e.key()
                c = c1 * c2
                t[k] = (e, t[k][1] + c) if k in t else (e, c)
        return EP(t)

    def iszero(a):
        return not a.t

    def conj(a):
        t = {}
        for k, (e, c) in a.t.items():
            e2 = e.conj()
            t[e2.key()] = (e2, c.conj())
        return EP(t)

    def single(a):
        """If a is one term c*exp(e) return (e, c) else None."""
        if len(a.t) == 1:
            return next(iter(a.t.values()))
        return None

    def __repr__(a):
        if not a.t:
            return "0"
        return " + ".join(("[%r]" % c) if e.iszero() else "[%r]*exp(%r)" % (c, e) for e, c in a.t.values())


_P1 = Poly.const(1)
_P1KEY = _P1.key()


class V:
    """Rational value: num (EP) / den (Poly)."""

    __slots__ = ("n", "d")

    def __init__(s, num, den=None):
        s.n = num
        s.d = den if den is not None else _P1

    @staticmethod
    def const(x, im=0):
        if isinstance(x, C):
            return V(EP.of(Poly.const(x)))
        return V(EP.of(Poly.const(C(x, im))))

    @staticmethod
    def atom(a):
        return V(EP.of(Poly.atom(a)))

    @staticmethod
    def of_poly(p):
        return V(EP.of(p))

    def __add__(a, b):
        if a.d.key() == b.d.key():
            return V(a.n + b.n, a.d)
        return V(a.n * EP.of(b.d) + b.n * EP.of(a.d), a.d * b.d)

    def __neg__(a):
        return V(-a.n, a.d)

    def __sub__(a, b):
        return a + (-b)

    def __mul__(a, b):
        return V(a.n * b.n, a.d * b.d)

    def inv(a):
        s = a.n.single()
        if s is None:
            if a.n.iszero():
                raise AnalysisError("KEX: division by zero value")
            raise AnalysisError("KEX: division by a sum of distinct exponentials")
        e, c = s
        return V(EP.exp(-e) * EP.of(a.d), c)

    def __truediv__(a, b):
        return a * b.inv()

    def __pow__(a, n):
        if not isinstance(n, int):
            raise AnalysisError("KEX: non-integer power")
        r = V.const(1)
        for _ in range(abs(n)):
            r = r * a
        return r if n >= 0 else r.inv()

    def iszero(a):
        return a.n.iszero()

    def eq(a, b):
        return (a.n * EP.of(b.d) - b.n * EP.of(a.d)).iszero()

    def conj(a):
        return V(a.n.conj(), a.d.conj())

    def aspoly(a):
        """Return the Poly if the value is a plain polynomial (den const, no exp), else None."""
        if a.n.iszero():
            return Poly()
        s = a.n.single()
        if s is None or not s[0].iszero():
            return None
        if not a.d.isconst():
            # exact division by a monomial denominator
            if len(a.d.t) != 1:
                return None
            (dk, dc), = a.d.t.items()
            dd = dict(dk)
            out = {}
            for k, c in s[1].t.items():
                kd = dict(k)
                if any(kd.get(at, 0) < e for at, e in dd.items()):
                    return None
                nk = tuple(sorted((at, e - dd.get(at, 0)) for at, e in kd.items() if e - dd.get(at, 0) > 0))
                out[nk] = c * dc.inv()
            return Poly(out)
        return s[1].scale(a.d.constval().inv())

    def sqrt(a):
        s = a.n.single() if not a.n.iszero() else (Poly(), Poly())
        if s is None or not s[0].iszero():
            raise AnalysisError("KEX: sqrt of an exponential expression")
        num = sqrt_poly(s[1])
        if a.d.key() == _P1KEY:
            return V(EP.of(num))
        return V(EP.of(num), sqrt_poly(a.d))

    def exp(a):
        p = a.aspoly()
        if p is None:
            raise AnalysisError("KEX: exp of a non-polynomial argument")
        if p.iszero():
            return V.const(1)
        # split constant part off?  exp(c) for rational non-zero c is an atom-free transcendental: keep inside exponent
        return V(EP.exp(p))

    def cos(a):
        ia = V.const(IM) * a
        return ((ia).exp() + (-ia).exp()) * V.const(F(1, 2))

    def sin(a):
        ia = V.const(IM) * a
        return ((ia).exp() - (-ia).exp()) * V.const(C(0, F(-1, 2)))

    def atoms(a):
        s = set(a.d.atoms())
        for e, c in a.n.t.values():
            s |= e.atoms() | c.atoms()
        # include atoms inside sqrt radicands
        todo = [x for x in s if x in SQ]
        while todo:
            x = todo.pop()
            for y in SQ[x].atoms():
                if y not in s:
                    s.add(y)
                    if y in SQ:
                        todo.append(y)
        return s

    def subs(a, env):
        """Substitute atoms by V values (env: atom name -> V or Poly).  Sqrt atoms whose radicand
        mentions a substituted atom are recomputed."""
        envv = {k: (v if isinstance(v, V) else V.of_poly(v)) for k, v in env.items()}
        memo = {}

        def sub_atom(at):
            if at in memo:
                return memo[at]
            if at in envv:
                r = envv[at]
            elif at in SQ and at in aff:
                r = sub_poly(SQ[at]).sqrt()
            else:
                r = V.atom(at)
            memo[at] = r
            return r

        def _closure(e):
            # atoms affected by the substitution, including sqrt atoms depending on them
            aff = set(e)
            changed = True
            while changed:
                changed = False
                for nm, rad in SQ.items():
                    if nm not in aff and rad.atoms() & aff:
                        aff.add(nm)
                        changed = True
            return aff

        aff = _closure(envv)

        def sub_poly(p):
            if not (p.atoms() & aff):
                return V.of_poly(p)
            r = V.const(0)
            for k, v in p.t.items():
                term = V.const(v)
                for at, e in k:
                    term = term * (sub_atom(at) ** e)
                r = r + term
            return r

        num = V.const(0)
        for e, c in a.n.t.values():
            num = num + sub_poly(c) * (sub_poly(e).exp() if not e.iszero() else V.const(1))
        return num / sub_poly(a.d) if a.d.key() != _P1KEY else num

    def diff(a, x):
        """Partial derivative with respect to atom x (sqrt atoms differentiated through their radicand)."""
        dn = V.const(0)
        for e, c in a.n.t.values():
            dc = _dpoly(c, x)
            de = _dpoly(e, x)
            term = dc + V.of_poly(c) * de
            if not e.iszero():
                term = term * V(EP.exp(e))
            dn = dn + term
        if a.d.isconst():
            return dn * V.const(a.d.constval().inv())
        dd = _dpoly(a.d, x)
        vd = V.of_poly(a.d)
        return (dn * vd - V(a.n) * dd) / (vd * vd)

    def __repr__(a):
        if a.d.key() == _P1KEY:
            return repr(a.n)
        return "(%r) / (%r)" % (a.n, a.d)


def _dpoly(p, x):
    """d p / d x as a V."""
    r = V.const(0)
    for k, v in p.t.items():
        for i, (at, e) in enumerate(k):
            if at == x:
                da = V.const(1)
            elif at in SQ and _depends(at, x):
                # d sqrt(q) = dq / (2 sqrt(q))
                da = _dpoly(SQ[at], x) / (V.const(2) * V.atom(at))
            else:
                continue
            mono = tuple(sorted(tuple(kk for j, kk in enumerate(k) if j != i) + (((at, e - 1),) if e > 1 else ())))
            r = r + V.of_poly(Poly({mono: v * C(e)})) * da
    return r


_DEP = {}


def _depends(sq, x):
    k = (sq, x)
    if k not in _DEP:
        ats = SQ[sq].atoms()
        _DEP[k] = x in ats or any(a in SQ and _depends(a, x) for a in ats)
    return _DEP[k]


def vsum(vals):
    r = V.const(0)
    for v in vals:
        r = r + v
    return r


def dot(a, b):
    return vsum(x * y for x, y in zip(a, b))


def cross(a, b):
    return [a[1] * b[2] - a[2] * b[1], a[2] * b[0] - a[0] * b[2], a[0] * b[1] - a[1] * b[0]]


I = V.const(IM)
PI = V.atom("π")
INV4PI = V.const(F(1, 4)) / PI
