"""KEX/IDX front end for Python: symbolic evaluation of a restricted numeric subset.

Translates the *source text* of a function (never its execution) into algebraic
values (``alg.V``) over named atoms.  Loops with literal trip count are
unrolled; loops with symbolic trip count are evaluated once with a symbolic
induction variable (data-parallel), array stores are recorded as *patterns*
over the enclosing induction variables, reads are resolved by unification
against the most recent matching store (mixed-radix aware), ``+=`` into a slot
that does not depend on an enclosing symbolic induction variable is a
*reduction* and is recorded with a formal marker atom ``Σ⟨var⟩``.

Anything outside the subset raises ``AnalysisError`` (exit 2, never a verdict).
"""

import ast
from fractions import Fraction as F

from .alg import C, EP, IM, Poly, V, vsum
from .core import AnalysisError

# registry of opaque atoms: atom name -> (descriptor, tuple of index V-polys)
ATOMS = {}
# induction variables and other bounded integer atoms: name -> bound (V) (0 <= var < bound)
RANGES = {}
_counter = [0]


def fresh(prefix):
    _counter[0] += 1
    return "‹%s%d›" % (prefix, _counter[0])


def reset():
    _counter[0] = 0


def idx_str(v):
    if isinstance(v, int):
        return str(v)
    if isinstance(v, V):
        p = v.aspoly()
        if p is None:
            raise AnalysisError("KEX: non-polynomial array index %r" % (v,))
        return repr(p)
    if isinstance(v, str):
        return v
    raise AnalysisError("KEX: unsupported index %r" % (v,))


def tov(x):
    if isinstance(x, V):
        return x
    if isinstance(x, bool):
        raise AnalysisError("KEX: boolean used as number")
    if isinstance(x, int):
        return V.const(x)
    if isinstance(x, F):
        return V.const(x)
    if isinstance(x, float):
        return V.const(F(repr(x)))
    if isinstance(x, complex):
        return V.const(C(F(repr(x.real)), F(repr(x.imag))))
    raise AnalysisError("KEX: value %r is not a scalar" % (x,))


def opaque_atom(desc, idx=()):
    idx = tuple(tov(i) for i in idx)
    name = desc + ("⟨" + ",".join(idx_str(i) for i in idx) + "⟩" if idx else "")
    if name not in ATOMS:
        ATOMS[name] = (desc, idx)
    return V.atom(name)


def subst_index(v, env):
    """Substitute index atoms (induction variables) in a value, rebuilding opaque atoms whose
    indices mention them (recursively) and simplifying DIV/MOD atoms.  env: atom name -> V."""
    if isinstance(v, Tensor):
        return Tensor(v.shape, [subst_index(x, env) for x in v.items])
    if not isinstance(v, V):
        return v
    memo = {}

    def atom_value(at):
        if at in memo:
            return memo[at]
        r = None
        if at in env:
            r = tov(env[at])
        elif at in ATOMS:
            desc, idx = ATOMS[at]
            nidx = [rb(i) for i in idx]
            if desc in ("DIV", "MOD"):
                dec = _split_radix(nidx[0], nidx[1])
                if dec is not None:
                    r = dec[0] if desc == "DIV" else dec[1]
            elif desc == "δ":
                a, b = _try_int(nidx[0]), _try_int(nidx[1])
                if a is not None and b is not None:
                    r = V.const(1 if a == b else 0)
            if r is None and any(not a.eq(b) for a, b in zip(idx, nidx)):
                r = opaque_atom(desc, nidx)
        memo[at] = r
        return r

    def rb(x):
        m = {}
        for at in x.atoms():
            r = atom_value(at)
            if r is not None:
                m[at] = r
        return x.subs(m) if m else x

    return rb(v)


def simplify_index(v):
    return subst_index(v, {})


# ---------------------------------------------------------------- mixed-radix arithmetic on index polynomials
#
# Index expressions are linear forms  sum_k w_k * d_k  whose weights w_k are *radix monomials*: a positive integer
# times a product of size symbols (all sizes >= 1).  Digits d_k are induction variables (range known from RANGES),
# non-negative integer literals, or again such forms.


def _mono(v):
    """(int coefficient, {atom: exp}) if v is a single term with positive integer coefficient, else None."""
    p = v.aspoly() if isinstance(v, V) else v
    if p is None or len(p.t) != 1:
        return None
    (k, c), = p.t.items()
    if c.im or c.re.denominator != 1 or c.re <= 0:
        return None
    return (int(c.re), dict(k))


def _mono_V(m):
    return V.of_poly(Poly({tuple(sorted(m[1].items())): C(m[0])}))


def _divide_terms(p, w):
    """Split polynomial p by radix monomial w: (hi, lo) with p = w*hi + lo, hi collecting the terms divisible by w."""
    wc, we = w
    hi, lo = {}, {}
    for k, c in p.t.items():
        kd = dict(k)
        if (not c.im and c.re.denominator == 1 and int(c.re) % wc == 0 and all(kd.get(a, 0) >= e for a, e in we.items())):
            nk = tuple(sorted((a, e - we.get(a, 0)) for a, e in kd.items() if e - we.get(a, 0) > 0))
            hi[nk] = C(c.re / wc)
        else:
            lo[k] = c
    return Poly(hi), Poly(lo)


def _split_radix(num, rad):
    """num = a*rad + b with b provably in [0, rad): return (a, b) as V else None."""
    pn = num.aspoly() if isinstance(num, V) else num
    w = _mono(rad)
    if pn is None or w is None:
        return None
    hi, lo = _divide_terms(pn, w)
    if not _in_range(lo, rad):
        return None
    return V.of_poly(hi), V.of_poly(lo)


def _in_range(p, bound, _depth=0):
    """Is index polynomial p provably in [0, bound)?"""
    if isinstance(p, V):
        p = p.aspoly()
        if p is None:
            return False
    if p.iszero():
        return True
    bm = _mono(bound)
    if bm is None or _depth > 6:
        return False
    if p.isconst():
        c = p.constval()
        if c.im or c.re.denominator != 1 or c.re < 0:
            return False
        return int(c.re) < bm[0]  # size symbols are >= 1
    name = _single_atom_name(V.of_poly(p))
    if name is not None:
        r = RANGES.get(name)
        if r is not None:
            rm = _mono(r)
            if rm is not None and bm[0] % rm[0] == 0 and all(bm[1].get(a, 0) >= e for a, e in rm[1].items()):
                return True  # range divides bound, and bound/range >= 1
            if r.eq(bound):
                return True
        return False
    # bound = r * w : top digit < r with weight w, remainder < w
    cands = []
    if bm[0] > 1 and bm[1]:
        cands.append(((bm[0], {}), (1, dict(bm[1]))))
    for at, e in bm[1].items():
        rest = dict(bm[1])
        if e == 1:
            del rest[at]
        else:
            rest[at] = e - 1
        cands.append(((1, {at: 1}), (bm[0], rest)))
    for r, w in cands:
        if w == (1, {}):
            continue
        hi, lo = _divide_terms(p, w)
        if hi.iszero():
            if _in_range(lo, _mono_V(w), _depth + 1):
                return True
            continue
        if _in_range(hi, _mono_V(r), _depth + 1) and _in_range(lo, _mono_V(w), _depth + 1):
            return True
    return False


def _reaches_negative(v):
    """Name of an induction variable k such that the index polynomial v is provably negative at k = 1, all other
    induction variables 0 (size symbols are >= 1); None when no such variable is found.  Only forms in which every term
    that survives carries k and a negative coefficient: `n - 1 - k` (a reversed traversal) and `-1 - k` (counting from the
    end on purpose) are not reported."""
    p = v.aspoly() if isinstance(v, V) else None
    if p is None or p.isconst():
        return None
    ind = {a for k in p.t for a, _ in k if a in RANGES}
    for k in sorted(ind):
        rk = RANGES[k]
        rp = rk.aspoly() if isinstance(rk, V) else None
        if rp is not None and rp.isconst() and rp.constval().re <= 1:
            continue
        rest = [(mono, c) for mono, c in p.t.items() if all(a == k or a not in RANGES for a, _ in mono)]
        if rest and all(any(a == k for a, _ in mono) and not c.im and c.re < 0 and all(a == k or a.startswith("#") for a, _ in mono) for mono, c in rest):
            return k
    return None


class Tensor:
    """Small dense array of values with literal shape."""

    def __init__(self, shape, items):
        self.shape = tuple(shape)
        self.items = list(items)

    def get(self, idx):
        off = 0
        for n, i in zip(self.shape, idx):
            if not isinstance(i, int):
                raise AnalysisError("KEX: symbolic index into literal-shape tensor")
            if i < 0:
                i += n
            if not 0 <= i < n:
                raise AnalysisError("KEX: tensor index out of range")
            off = off * n + i
        if len(idx) == len(self.shape):
            return self.items[off]
        sub = self.shape[len(idx) :]
        size = 1
        for n in sub:
            size *= n
        return Tensor(sub, self.items[off * size : (off + 1) * size])

    def set(self, idx, val):
        off = 0
        for n, i in zip(self.shape, idx):
            off = off * n + i
        if len(idx) == len(self.shape):
            self.items[off] = val
        else:
            sub = self.shape[len(idx) :]
            size = 1
            for n in sub:
                size *= n
            if not isinstance(val, Tensor) or val.shape != sub:
                raise AnalysisError("KEX: tensor slice assignment shape mismatch")
            self.items[off * size : (off + 1) * size] = list(val.items)

    def map(self, f):
        return Tensor(self.shape, [f(x) for x in self.items])

    def zipmap(self, other, f):
        if isinstance(other, Tensor):
            if other.shape != self.shape:
                raise AnalysisError("KEX: tensor shape mismatch %s vs %s" % (self.shape, other.shape))
            return Tensor(self.shape, [f(a, b) for a, b in zip(self.items, other.items)])
        return Tensor(self.shape, [f(a, other) for a in self.items])


class Opq:
    """Opaque object (grid data, dtype, callable parameter ...) identified by a descriptor."""

    def __init__(self, desc, kind="obj"):
        self.desc = desc
        self.kind = kind

    def __repr__(self):
        return "Opq(%s)" % self.desc


class Arr:
    """Symbolic array.  kind: 'zeros' | 'empty' | 'input'."""

    def __init__(self, desc, kind, ndim=None, shape=None, depth=0):
        self.desc = desc
        self.kind = kind
        self.ndim = ndim
        self.shape = shape
        self.stores = []  # (pattern tuple of V, bound set, value)
        self.depth = depth  # number of enclosing symbolic loops at creation
        self.loops_at_creation = ()

    def __repr__(self):
        return "Arr(%s,%s)" % (self.desc, self.kind)


class View:
    """base[fixed indices / full slices / offset slices]."""

    def __init__(self, base, spec):
        self.base = base
        self.spec = spec  # list per base axis: ('fix', V) | ('all',) | ('off', start V, length V or None)

    def free_axes(self):
        return [i for i, s in enumerate(self.spec) if s[0] != "fix"]


class Ret(Exception):
    def __init__(self, v):
        self.v = v


class LoopCtx:
    def __init__(self, var, bound, name, parallel=False):
        self.var = var
        self.bound = bound
        self.name = name
        self.parallel = parallel


def sigma(var):
    return opaque_atom("Σ⟨%s⟩" % var)


class Interp:
    """Symbolic interpreter for one function body."""

    def __init__(self, module, fn, args, hooks=None, depth=0, loops=None):
        self.module = module
        self.fn = fn
        self.env = dict(args)
        self.hooks = hooks or {}
        self.loops = list(loops or [])
        self.depth = depth
        self.writes = []  # (Arr, op, idx tuple, rhs V/Tensor, loops snapshot, node)
        self.guards = []  # multiplicative guard markers (V) applying to accumulations
        self.births = {}  # local name -> loop depth at its last plain assignment
        self.scalar_aug = []  # (name, birth depth, loops, node) for every augmented assignment to a plain name
        self.skip_if = set(self.hooks.get("skip_if", ()))
        self.seen_param_ifs = []
        self.seen_sign_ifs = []
        self.inline = self.hooks.get("inline", {})
        self.opaque_calls = self.hooks.get("opaque_calls", {})

    # ------------------------------------------------------------ driver
    def run(self):
        try:
            self.block(self.fn.body)
        except Ret as r:
            return r.v
        return None

    # what the evaluation of a statement can meet that is a fact about the code (every index / value involved was
    # computed, none assumed): reported as a defect with the statement's position, not as a limit of the analysis
    _DEFINITE = {
        "KEX: tensor index out of range": "an array of literal extent is indexed outside that extent (with boundscheck off: a silent read / write of foreign memory)",
        "KEX: division by zero value": "a quotient whose denominator is identically zero for every input",
        "KEX: too many indices for an array of literal shape": "an array is indexed with more indices than it has axes (a typing error when the kernel is compiled)",
        "KEX: shape axis out of range": "the shape of an array is read at an axis the array does not have (a typing error when the kernel is compiled)",
    }

    def block(self, stmts):
        for st in stmts:
            self.stmt_checked(st)

    def stmt_checked(self, st):
        try:
            self.stmt(st)
        except AnalysisError as e:
            why = self._DEFINITE.get(str(e).split(": .shape[")[0])
            if why is None or isinstance(st, (ast.For, ast.While, ast.If, ast.With, ast.Try)):
                raise
            from .core import DefectFound

            raise DefectFound(self.module.rel if self.module else "?", self.fn.name, getattr(st, "lineno", self.fn.lineno), "definite fault: " + _short(st),
                              "`%s`: %s" % (_short(st), why))

    def err(self, node, msg):
        raise AnalysisError(
            "KEX: %s::%s line %s: %s: %s"
            % (self.module.rel if self.module else "?", self.fn.name, getattr(node, "lineno", "?"), msg, _short(node))
        )

    # ------------------------------------------------------------ statements
    def stmt(self, st):
        if isinstance(st, ast.Expr):
            if isinstance(st.value, ast.Constant):
                return
            if isinstance(st.value, ast.Call):
                self.ev(st.value)
                return
            self.err(st, "unsupported expression statement")
        if isinstance(st, ast.Assign):
            if len(st.targets) != 1:
                self.err(st, "multiple assignment targets")
            v = self.ev(st.value)
            self.store(st.targets[0], v, st)
            return
        if isinstance(st, ast.AugAssign):
            self.augassign(st)
            return
        if isinstance(st, ast.For):
            self.for_(st)
            return
        if isinstance(st, ast.If):
            self.if_(st)
            return
        if isinstance(st, ast.Return):
            raise Ret(self.ev(st.value) if st.value is not None else None)
        if isinstance(st, ast.Continue):
            raise AnalysisError("KEX: bare continue outside a recognised guard")
        if isinstance(st, (ast.Pass, ast.Import, ast.ImportFrom)):
            return
        if isinstance(st, ast.Raise):
            raise AnalysisError("KEX: reached a raise statement on the analysed path: " + _short(st))
        self.err(st, "unsupported statement " + type(st).__name__)

    def if_(self, st):
        t = st.test
        # `if <param> != 0:` fast path guard on a kernel parameter
        if (
            isinstance(t, ast.Compare)
            and len(t.ops) == 1
            and isinstance(t.ops[0], ast.NotEq)
            and isinstance(t.comparators[0], ast.Constant)
            and t.comparators[0].value == 0
            and not st.orelse
        ):
            v = self.ev(t.left)
            if isinstance(v, V):
                ats = sorted(v.atoms())
                if len(ats) != 1 or not v.eq(V.atom(ats[0])):
                    self.err(st, "`!= 0` guard on a compound value")
                name = ats[0]
                self.seen_param_ifs.append(name)
                if "*" in self.skip_if or name in self.skip_if:
                    return
                self.block(st.body)
                return
        # `if <param> == 0: <special> else: <general>`: a special case for a vanishing kernel parameter.  The general branch is
        # taken; with the parameter in skip_if (the caller's second pass) the special one - the caller requires the special
        # value to equal the general one AT parameter = 0 (same check as for the `!= 0` fast path)
        if (
            isinstance(t, ast.Compare)
            and len(t.ops) == 1
            and isinstance(t.ops[0], ast.Eq)
            and isinstance(t.comparators[0], ast.Constant)
            and t.comparators[0].value == 0
            and "skip_if" in self.hooks
        ):
            v = self.ev(t.left)
            if isinstance(v, V):
                ats = sorted(v.atoms())
                if len(ats) == 1 and v.eq(V.atom(ats[0])):
                    self.seen_param_ifs.append(ats[0])
                    self.block(st.body if ("*" in self.skip_if or ats[0] in self.skip_if) else st.orelse)
                    return
        # `if <param> > 0:` / `< 0` (either strictness): a guard on the SIGN of a kernel parameter.  The body is taken; the
        # caller re-runs with hook "skip_sign" to obtain the value on the other half-line (the kernel is analytic in the
        # parameter, so the two values must be the same expression)
        if (
            isinstance(t, ast.Compare)
            and len(t.ops) == 1
            and isinstance(t.ops[0], (ast.Gt, ast.Lt, ast.GtE, ast.LtE))
            and isinstance(t.comparators[0], ast.Constant)
            and t.comparators[0].value == 0
            and "skip_sign" in self.hooks
        ):
            v = self.ev(t.left)
            if isinstance(v, V):
                ats = sorted(v.atoms())
                if len(ats) == 1 and v.eq(V.atom(ats[0])):
                    self.seen_sign_ifs.append((ats[0], unparse_test(t)))
                    self.block(st.orelse if self.hooks["skip_sign"] else st.body)
                    return
        h = self.hooks.get("if")
        if h is not None:
            r = h(self, st)
            if r is not None:
                return
        # literal-decidable test
        try:
            tv = self.ev(t)
        except AnalysisError:
            tv = None
        if isinstance(tv, bool):
            self.block(st.body if tv else st.orelse)
            return
        self.err(st, "unsupported if-test")

    def for_(self, st):
        if st.orelse:
            self.err(st, "for-else")
        it = st.iter
        if isinstance(it, ast.Call):
            f = ast.unparse(it.func)
            if f in ("range", "_numba.prange", "numba.prange", "prange"):
                if len(it.args) == 1:
                    lo, hi = 0, self.ev(it.args[0])
                elif len(it.args) == 2:
                    lo, hi = self.ev(it.args[0]), self.ev(it.args[1])
                else:
                    self.err(st, "range with step")
                if not isinstance(st.target, ast.Name):
                    self.err(st, "loop target")
                if isinstance(lo, int) and isinstance(hi, int):
                    for i in range(lo, hi):
                        self.env[st.target.id] = i
                        self.block(st.body)
                    return
                if lo != 0:
                    self.err(st, "symbolic range with non-zero start")
                self.symloop(st.target.id, tov(hi), st.body, parallel=f.endswith("prange"))
                return
            if f == "enumerate" and len(it.args) == 1:
                seq = self.ev(it.args[0])
                if not (isinstance(st.target, ast.Tuple) and len(st.target.elts) == 2):
                    self.err(st, "enumerate target")
                iname, ename = st.target.elts[0].id, st.target.elts[1].id
                if isinstance(seq, Tensor) and len(seq.shape) == 1:
                    for i in range(seq.shape[0]):
                        self.env[iname] = i
                        self.env[ename] = seq.items[i]
                        self.block(st.body)
                    return
                n = self.length(seq, it)

                def pre(var):
                    self.env[ename] = self.index(seq, [var], it)

                self.symloop(iname, n, st.body, pre=pre)
                return
        if isinstance(it, (ast.Name, ast.Attribute, ast.Subscript)) and isinstance(st.target, ast.Name):
            seq = self.ev(it)
            if isinstance(seq, (Arr, View, OpqArr)) and _ndim(seq) in (1, None):
                n = self.length(seq, it)
                ename = st.target.id

                def pre2(var):
                    self.env[ename] = self.index(seq, [var], it)

                self.symloop("pos_" + ename, tov(n), st.body, pre=pre2)
                self.env.pop("pos_" + ename, None)
                return
        self.err(st, "unsupported loop iterator")

    def symloop(self, name, bound, body, pre=None, parallel=False):
        var = fresh("ι" + name)
        RANGES[var] = bound
        v = V.atom(var)
        self.loops.append(LoopCtx(var, bound, name, parallel))
        self.env[name] = v
        if pre:
            pre(v)
        try:
            self.body_with_continue(body)
        finally:
            self.loops.pop()

    def body_with_continue(self, body):
        """Evaluate a loop body; `if <flag>: continue` guards are delegated to the hook."""
        pushed = 0
        try:
            for i, st in enumerate(body):
                if (
                    isinstance(st, ast.If)
                    and len(st.body) == 1
                    and isinstance(st.body[0], ast.Continue)
                    and not st.orelse
                ):
                    h = self.hooks.get("continue_guard")
                    if h is None:
                        self.err(st, "continue guard without hook")
                    g = h(self, st)
                    if g is not None:
                        self.guards.append(g)
                        pushed += 1
                    continue
                self.stmt_checked(st)
        finally:
            for _ in range(pushed):
                self.guards.pop()

    # ------------------------------------------------------------ stores
    def store(self, target, v, node):
        if isinstance(target, ast.Name):
            if isinstance(v, Arr) and v.desc.startswith("?"):
                v.desc = target.id + v.desc[1:]
            self.env[target.id] = v
            self.births[target.id] = len(self.loops)
            return
        if isinstance(target, ast.Tuple):
            if isinstance(v, (list, tuple)) and len(v) == len(target.elts):
                for t, x in zip(target.elts, v):
                    self.store(t, x, node)
                return
            self.err(node, "tuple unpack of non-tuple")
        if isinstance(target, ast.Subscript):
            base = self.ev(target.value)
            idx = self.slice_spec(target.slice, base, node)
            self.write(base, idx, "=", v, node)
            return
        self.err(node, "unsupported store target")

    def augassign(self, st):
        opn = type(st.op)
        if isinstance(st.target, ast.Name):
            cur = self.ev(st.target)
            v = self.ev(st.value)
            if isinstance(cur, Arr) and cur.ndim is not None and type(st.op) in (ast.Add, ast.Sub, ast.Mult, ast.Div):
                op = {ast.Add: "+=", ast.Sub: "-=", ast.Mult: "*=", ast.Div: "/="}[type(st.op)]
                self.write(cur, [("all",)] * cur.ndim, op, v, st)
                return
            self.scalar_aug.append((st.target.id, self.births.get(st.target.id, self.depth), list(self.loops), st))
            # scalar reduction into a local over symbolic loops
            if st.target.id in self.hooks.get("counters", ()):
                self.env[st.target.id] = self.binop(st.op, cur, v, st)
                return
            if isinstance(st.op, ast.Add) or isinstance(st.op, ast.Sub):
                red = self.reduction_vars_scalar(st.target.id)
                term = tov(v) if not isinstance(v, Tensor) else v
                for var in red:
                    term = self.mul(term, sigma(var))
                for g in self.guards:
                    term = self.mul(term, g)
                self.env[st.target.id] = self.binop(st.op, cur, term, st)
                return
            self.env[st.target.id] = self.binop(st.op, cur, v, st)
            return
        if isinstance(st.target, ast.Subscript):
            base = self.ev(st.target.value)
            idx = self.slice_spec(st.target.slice, base, st)
            v = self.ev(st.value)
            op = {ast.Add: "+=", ast.Sub: "-=", ast.Mult: "*=", ast.Div: "/="}.get(opn)
            if op is None:
                self.err(st, "unsupported augmented op")
            self.write(base, idx, op, v, st)
            return
        self.err(st, "unsupported augassign target")

    def reduction_vars_scalar(self, name):
        born = self.births.get(name, self.depth)
        return [lc.var for lc in self.loops[born:]]

    def write(self, base, spec, op, v, node):
        if isinstance(base, Tensor):
            idx = []
            for s in spec:
                if s[0] == "fix":
                    i = s[1]
                    if isinstance(i, V):
                        p = i.aspoly()
                        if p is not None and p.isconst() and p.constval().re.denominator == 1 and not p.constval().im:
                            i = int(p.constval().re)
                    if not isinstance(i, int):
                        self.err(node, "symbolic index into literal tensor")
                    idx.append(i)
                elif s[0] == "all":
                    break
                else:
                    self.err(node, "offset slice into literal tensor")
            if any(s[0] == "all" for s in spec) and not all(s[0] == "all" for s in spec[len(idx) :]):
                # e.g. T[:, i] = vec : column store
                return self.tensor_axis_store(base, spec, op, v, node)
            cur = base.get(idx)
            if op != "=":
                v = self.binop(_OPS[op], cur, v, node)
            if isinstance(v, Tensor) or len(idx) < len(base.shape):
                if not isinstance(v, Tensor):
                    sub = base.get(idx)
                    v = Tensor(sub.shape, [v] * len(sub.items))
            else:
                v = tov(v) if not isinstance(v, (int, V)) else v
            base.set(idx, v)
            return
        if isinstance(base, View):
            spec = self.compose(base, spec, node)
            base = base.base
        if isinstance(base, OpqArr) and not isinstance(base, Lazy):
            # in-place update of an opaque array (e.g. scaling the values a callee returned): overlay stores on it
            if getattr(base, "overlay", None) is None:
                base.overlay = Arr(base.desc, "overlay", ndim=base.ndim, depth=len(self.loops))
                base.overlay.ref = base
                lit = self.literal_shape_axes(base)
                if lit is not None:
                    base.overlay.shape = [x if isinstance(x, int) else opaque_atom("shape(%s,%d)" % (base.desc, k)) for k, x in enumerate(lit)]
            base = base.overlay
        if not isinstance(base, Arr):
            self.err(node, "store into non-array")
        # unroll full slices over axes of small literal extent (e.g. the coordinate axis)
        if base.shape is not None and len(spec) <= len(base.shape):
            full = list(spec) + [("all",)] * (len(base.shape) - len(spec))
            for ax, sp in enumerate(full):
                ext = base.shape[ax]
                if sp[0] == "all" and isinstance(ext, int) and ext <= 16 and isinstance(v, (Arr, View, OpqArr, Tensor)):
                    free_before = sum(1 for q in full[:ax] if q[0] != "fix")
                    nfree = sum(1 for q in full if q[0] != "fix")
                    for c in range(ext):
                        sub_spec = list(full)
                        sub_spec[ax] = ("fix", c)
                        vv = self.subscript(v, [("all",)] * free_before + [("fix", c)] + [("all",)] * (nfree - free_before - 1), node) if nfree > 1 else self.index(v, [c], node)
                        self.write(base, sub_spec, op, vv, node)
                    return
        # expand slices with fresh bound variables when RHS is an array-like
        pattern, bound, rhs = self.expand_store(base, spec, v, node)
        if op != "=":
            cur = self.read(base, pattern, node)
            term = rhs
            if op in ("+=", "-="):
                red = self.reduction_vars(base, pattern)
                for var in red:
                    term = self.mul(term, sigma(var))
                for g in self.guards:
                    term = self.mul(term, g)
            new = self.binop(_OPS[op], cur, term, node)
        else:
            new = rhs
            term = rhs
        bound |= {lc.var for lc in self.loops if _mentions(pattern, lc.var)}
        base.stores.append((tuple(pattern), bound, new))
        self.writes.append((base, op, tuple(pattern), term, list(self.loops), node))

    def reduction_vars(self, arr, pattern):
        out = []
        for lc in self.loops[arr.depth :]:
            if not _mentions(pattern, lc.var):
                out.append(lc.var)
        return out

    def tensor_axis_store(self, base, spec, op, v, node):
        # T[:, i] = vec   or   T[i, :] = vec
        if len(base.shape) != 2 or len(spec) != 2:
            self.err(node, "unsupported tensor slice store")
        if not isinstance(v, Tensor) or len(v.shape) != 1:
            self.err(node, "tensor axis store of non-vector")
        if spec[0][0] == "all" and spec[1][0] == "fix":
            j = _as_int(spec[1][1], self, node)
            for i in range(base.shape[0]):
                cur = base.get([i, j])
                base.set([i, j], v.items[i] if op == "=" else self.binop(_OPS[op], cur, v.items[i], node))
            return
        if spec[0][0] == "fix" and spec[1][0] == "all":
            i = _as_int(spec[0][1], self, node)
            for j in range(base.shape[1]):
                cur = base.get([i, j])
                base.set([i, j], v.items[j] if op == "=" else self.binop(_OPS[op], cur, v.items[j], node))
            return
        self.err(node, "unsupported tensor slice store")

    def expand_store(self, base, spec, v, node):
        pattern = []
        bound = set()
        free = []
        for s in spec:
            if s[0] == "fix":
                pattern.append(tov(s[1]))
            else:
                var = fresh("σ")
                bv = V.atom(var)
                if s[0] == "off":
                    if s[2] is not None:
                        RANGES[var] = s[2]
                    pattern.append(s[1] + bv)
                else:
                    pattern.append(bv)
                bound.add(var)
                free.append(bv)
        if free:
            if isinstance(v, (Arr, View, Tensor)) or _is_opqarr(v):
                rhs = self.index(v, free, node)
            else:
                rhs = v  # broadcast scalar
        else:
            rhs = v
            if isinstance(rhs, (Arr, View)) or _is_opqarr(rhs):
                self.err(node, "array stored into scalar slot")
        if not isinstance(rhs, Tensor):
            rhs = tov(rhs) if not isinstance(rhs, V) else rhs
        return pattern, bound, rhs

    # ------------------------------------------------------------ reads
    def read(self, arr, idx, node):
        idx = [simplify_index(tov(i)) for i in idx]
        for i in idx:
            at = _reaches_negative(i)
            if at is not None:
                from .core import DefectFound

                raise DefectFound(self.module.rel if self.module else "?", self.fn.name, getattr(node, "lineno", self.fn.lineno), "negative index: " + _short(node),
                                  "`%s`: the index %s of `%s` is negative in the iteration where %s = 1 and every other loop index is 0 (reached whenever that loop runs twice): with boundscheck off a slot "
                                  "counted from the END of the array is read / written" % (_short(node), idx_str(i), arr.desc, at))
        for pattern, bound, val in reversed(arr.stores):
            if len(pattern) != len(idx):
                self.err(node, "rank mismatch reading %s" % arr.desc)
            u = unify(pattern, bound, idx)
            if u is None:
                continue  # definitely different slot
            if u == "maybe":
                self.err(node, "cannot decide aliasing of %s%s with earlier store %s" % (arr.desc, [idx_str(i) for i in idx], [idx_str(p) for p in pattern]))
            return simplify_value(subst_index(val, u))
        if arr.kind == "zeros":
            return V.const(0)
        if arr.kind == "ones":
            return V.const(1)
        if arr.kind == "input":
            return opaque_atom(arr.desc, idx)
        if arr.kind == "overlay":
            return self.subscript(arr.ref, [("fix", i) for i in idx], node, _skip_overlay=True)
        # no store can have reached this slot of an np.empty array: a defect of the code, not a limit of the analysis
        from .core import DefectFound

        raise DefectFound(self.module.rel if self.module else "?", self.fn.name, getattr(node, "lineno", self.fn.lineno), "uninitialised read: " + _short(node),
                          "`%s` reads a slot of the array `%s` (allocated without initial values) that no earlier store writes: the value is whatever the memory held" % (_short(node), arr.desc))

    def compose(self, view, spec, node):
        out = []
        it = iter(spec)
        for s in view.spec:
            if s[0] == "fix":
                out.append(s)
            else:
                try:
                    t = next(it)
                except StopIteration:
                    t = ("all",)
                if s[0] == "all":
                    out.append(t)
                else:  # offset slice
                    if t[0] == "fix":
                        out.append(("fix", s[1] + tov(t[1])))
                    elif t[0] == "all":
                        out.append(s)
                    else:
                        out.append(("off", s[1] + t[1], t[2]))
        return out

    def slice_spec(self, sl, base, node):
        els = sl.elts if isinstance(sl, ast.Tuple) else [sl]
        spec = []
        for e in els:
            if isinstance(e, ast.Slice):
                if e.step is not None:
                    self.err(node, "slice step")
                if e.lower is None and e.upper is None:
                    spec.append(("all",))
                else:
                    lo = tov(self.ev(e.lower)) if e.lower is not None else V.const(0)
                    ln = None
                    if e.upper is not None:
                        ln = tov(self.ev(e.upper)) - lo
                    spec.append(("off", lo, ln))
            else:
                v = self.ev(e)
                if isinstance(v, bool) or v is None:
                    self.err(node, "bad index")
                spec.append(("fix", v))
        return spec

    def index(self, base, idx, node):
        """base[idx...] with all-fixed indices (ints or V)."""
        return self.subscript(base, [("fix", i) for i in idx], node)

    def subscript(self, base, spec, node, _skip_overlay=False):
        if isinstance(base, Tensor):
            if all(s[0] == "fix" for s in spec):
                lits = [_try_int(s[1]) for s in spec]
                if all(l is not None for l in lits):
                    return base.get(lits)
                return self.tensor_select(base, [s[1] for s in spec], lits, node)
            # T[:, i] column / T[i, :] row
            if len(base.shape) == 2 and len(spec) == 2:
                if spec[0][0] == "all" and spec[1][0] == "fix":
                    j = _as_int(spec[1][1], self, node)
                    return Tensor((base.shape[0],), [base.get([i, j]) for i in range(base.shape[0])])
                if spec[0][0] == "fix" and spec[1][0] == "all":
                    return base.get([_as_int(spec[0][1], self, node)])
            if all(s[0] == "all" for s in spec):
                return base
            self.err(node, "unsupported tensor slicing")
        if isinstance(base, (list, tuple)):
            if len(spec) == 1 and spec[0][0] == "fix":
                return base[_as_int(spec[0][1], self, node)]
            self.err(node, "unsupported list indexing")
        if isinstance(base, View):
            spec = self.compose(base, spec, node)
            base = base.base
        if isinstance(base, OpqArr) and getattr(base, "overlay", None) is not None and not _skip_overlay:
            return self.subscript(base.overlay, spec, node)
        if isinstance(base, OpqArr) and hasattr(base, "sub"):
            return base.sub(self, spec, node)
        if _is_opqarr(base):
            full = list(spec)
            if base.ndim is not None:
                while len(full) < base.ndim:
                    full.append(("all",))
            if all(s[0] == "fix" for s in full) and (base.ndim is None or len(full) == base.ndim):
                h = self.hooks.get("opaque_read")
                idx = [simplify_index(tov(s[1])) for s in full]
                if h is not None:
                    r = h(self, base, idx)
                    if r is not None:
                        return r
                return opaque_atom(base.desc, idx)
            return View(base, full)
        if isinstance(base, (Arr, OpqArr)) and len(spec) == 1 and spec[0][0] == "fix" and isinstance(spec[0][1], (Arr, View, OpqArr)):
            return Gather(base, spec[0][1])
        if isinstance(base, Arr):
            full = list(spec)
            if base.ndim is not None:
                if len(full) > base.ndim:
                    self.err(node, "too many indices for %s" % base.desc)
                while len(full) < base.ndim:
                    full.append(("all",))
            if all(s[0] == "fix" for s in full):
                return self.read(base, [s[1] for s in full], node)
            return View(base, full)
        self.err(node, "subscript of unsupported value %r" % (base,))

    def tensor_select(self, base, idx, lits, node):
        """T[i, j] with symbolic i and/or j over literal extents: sum_k delta(i,k) * T[k, ...]."""
        k = next(n for n, l in enumerate(lits) if l is None)
        if len(idx) > len(base.shape):
            raise AnalysisError("KEX: too many indices for an array of literal shape")
        total = None
        for c in range(base.shape[k]):
            l2 = list(lits)
            l2[k] = c
            idx2 = list(idx)
            idx2[k] = c
            sub = base.get(l2) if all(x is not None for x in l2) else self.tensor_select(base, idx2, l2, node)
            d = opaque_atom("δ", [tov(idx[k]), c])
            term = sub.map(lambda x: tov(x) * d) if isinstance(sub, Tensor) else tov(sub) * d
            if total is None:
                total = term
            elif isinstance(total, Tensor):
                total = total.zipmap(term, lambda a, b: a + b)
            else:
                total = total + term
        return total

    def length(self, seq, node):
        if isinstance(seq, Tensor):
            return seq.shape[0]
        if isinstance(seq, (list, tuple)):
            return len(seq)
        if isinstance(seq, View):
            fa = seq.free_axes()
            s = seq.spec[fa[0]]
            if s[0] == "off" and s[2] is not None:
                return s[2]
            return self.shape_of(seq.base, fa[0])
        if isinstance(seq, OpqArr) and getattr(seq, "length", None) is not None:
            return seq.length
        if isinstance(seq, Lazy):
            for o in seq.operands:
                if isinstance(o, (Arr, View, OpqArr, Tensor)):
                    return self.length(o, node)
        if isinstance(seq, (Arr, OpqArr)):
            return self.shape_of(seq, 0)
        self.err(node, "len() of unsupported value")

    def shape_of(self, arr, axis):
        if isinstance(arr, (Arr, Tensor)) and arr.shape is not None and isinstance(axis, int) and not -len(arr.shape) <= axis < len(arr.shape):
            raise AnalysisError("KEX: shape axis out of range: .shape[%d] of a %d-dimensional array" % (axis, len(arr.shape)))
        if isinstance(arr, Arr) and arr.shape is not None:
            return arr.shape[axis]
        if isinstance(arr, Tensor):
            return arr.shape[axis]
        if isinstance(arr, View):
            fa = arr.free_axes()
            s = arr.spec[fa[axis]]
            if s[0] == "off" and s[2] is not None:
                return s[2]
            return self.shape_of(arr.base, fa[axis])
        h = self.hooks.get("shape")
        if h is not None:
            r = h(self, arr, axis)
            if r is not None:
                return r
        return opaque_atom("shape(%s,%d)" % (arr.desc, axis))

    # ------------------------------------------------------------ expressions
    def ev(self, e):
        m = getattr(self, "ev_" + type(e).__name__, None)
        if m is None:
            self.err(e, "unsupported expression " + type(e).__name__)
        return m(e)

    def ev_Constant(self, e):
        return e.value

    def ev_Name(self, e):
        if e.id in self.env:
            return self.env[e.id]
        g = self.hooks.get("globals", {})
        if e.id in g:
            return g[e.id]
        if e.id in ("None",):
            return None
        import builtins

        bound = {a.arg for a in ast.walk(self.fn) if isinstance(a, ast.arg)} | {n.id for n in ast.walk(self.fn) if isinstance(n, ast.Name) and isinstance(n.ctx, ast.Store)}
        bound |= {a.asname or a.name.split(".")[0] for n in ast.walk(self.fn) if isinstance(n, (ast.Import, ast.ImportFrom)) for a in n.names}
        mod_names = set()
        if self.module is not None:
            mod_names = set(self.module.aliases) | set(self.module.assigns) | {q for q in self.module.functions if "." not in q} | set(self.module.classes)
        if e.id not in bound and e.id not in mod_names and not hasattr(builtins, e.id):
            from .core import DefectFound

            raise DefectFound(self.module.rel if self.module else "?", self.fn.name, getattr(e, "lineno", self.fn.lineno), "unbound name: " + e.id,
                              "`%s` is read but is bound nowhere: not a parameter, not assigned in the function, not a module-level name (a NameError, or a typing error when the kernel is compiled)" % e.id)
        self.err(e, "unknown name")

    def ev_Tuple(self, e):
        return tuple(self.ev(x) for x in e.elts)

    def ev_List(self, e):
        return [self.ev(x) for x in e.elts]

    def ev_UnaryOp(self, e):
        v = self.ev(e.operand)
        if isinstance(e.op, ast.USub):
            if isinstance(v, (int, F)) and not isinstance(v, bool):
                return -v
            if isinstance(v, Tensor):
                return v.map(lambda x: -tov(x))
            if isinstance(v, (Arr, View, OpqArr)):
                return self.elementwise1(v, lambda x: -x, e)
            return -tov(v)
        if isinstance(e.op, ast.UAdd):
            return v
        if isinstance(e.op, ast.Not) and isinstance(v, bool):
            return not v
        self.err(e, "unsupported unary op")

    def ev_BoolOp(self, e):
        vals = [self.ev(x) for x in e.values]
        if all(isinstance(v, bool) for v in vals):
            return all(vals) if isinstance(e.op, ast.And) else any(vals)
        self.err(e, "symbolic boolean")

    def ev_Compare(self, e):
        if len(e.ops) != 1:
            self.err(e, "chained compare")
        a, b = self.ev(e.left), self.ev(e.comparators[0])
        if isinstance(a, (int, str, type(None), F)) and isinstance(b, (int, str, type(None), F)):
            op = e.ops[0]
            if isinstance(op, ast.Eq):
                return a == b
            if isinstance(op, ast.NotEq):
                return a != b
            if isinstance(op, ast.Is):
                return a is b
            if isinstance(op, ast.IsNot):
                return a is not b
            if isinstance(op, ast.Lt):
                return a < b
            if isinstance(op, ast.Gt):
                return a > b
            if isinstance(op, ast.LtE):
                return a <= b
            if isinstance(op, ast.GtE):
                return a >= b
        self.err(e, "symbolic comparison")

    def ev_BinOp(self, e):
        if isinstance(e.op, ast.Pow):
            b, n = self.ev(e.left), self.ev(e.right)
            if isinstance(b, int) and isinstance(n, int) and n >= 0:
                return b**n
            if not isinstance(n, int):
                self.err(e, "non-literal exponent")
            if isinstance(b, (Arr, View, OpqArr)):
                return self.elementwise1(b, lambda x: x**n, e)
            if isinstance(b, Tensor):
                return b.map(lambda x: tov(x) ** n)
            return tov(b) ** n
        if isinstance(e.op, ast.MatMult):
            return self.matmul(self.ev(e.left), self.ev(e.right), e)
        return self.binop(e.op, self.ev(e.left), self.ev(e.right), e)

    def binop(self, op, a, b, node):
        if not isinstance(op, type):
            op = type(op)
        if isinstance(a, (int, F)) and isinstance(b, (int, F)) and not isinstance(a, bool) and not isinstance(b, bool):
            if op is ast.Add:
                return a + b
            if op is ast.Sub:
                return a - b
            if op is ast.Mult:
                return a * b
            if op is ast.FloorDiv and isinstance(a, int) and isinstance(b, int):
                return a // b
            if op is ast.Mod and isinstance(a, int) and isinstance(b, int):
                return a % b
            if op is ast.Div:
                return F(a) / F(b)
        if isinstance(a, Tensor) or isinstance(b, Tensor):
            f = lambda x, y: self.binop(op, x, y, node)
            if isinstance(a, (Arr, View, OpqArr)) or isinstance(b, (Arr, View, OpqArr)):
                return self.elementwise2(op, a, b, node)
            if isinstance(a, Tensor):
                return a.zipmap(b, f)
            return b.map(lambda y: f(a, y))
        if isinstance(a, (Arr, View, OpqArr)) or isinstance(b, (Arr, View, OpqArr)):
            return self.elementwise2(op, a, b, node)
        if op in (ast.FloorDiv, ast.Mod):
            return simplify_index(opaque_atom("DIV" if op is ast.FloorDiv else "MOD", [tov(a), tov(b)]))
        a, b = tov(a), tov(b)
        if op is ast.Add:
            return a + b
        if op is ast.Sub:
            return a - b
        if op is ast.Mult:
            return a * b
        if op is ast.Div:
            return a / b
        self.err(node, "unsupported binary op " + op.__name__)

    def mul(self, a, b):
        if isinstance(a, Tensor):
            return a.map(lambda x: tov(x) * b)
        return tov(a) * b

    def elementwise1(self, a, f, node):
        return Lazy(self, [a], lambda xs: f(tov(xs[0])), node)

    def elementwise2(self, op, a, b, node):
        return Lazy(self, [a, b], lambda xs: self.binop(op, xs[0], xs[1], node), node)

    def matmul(self, a, b, node):
        a, b = self.concretise(a, node), self.concretise(b, node)
        if isinstance(a, Tensor) and isinstance(b, Tensor):
            if len(a.shape) == 2 and len(b.shape) == 2 and a.shape[1] == b.shape[0]:
                n, m, k = a.shape[0], b.shape[1], a.shape[1]
                return Tensor(
                    (n, m),
                    [vsum(tov(a.get([i, l])) * tov(b.get([l, j])) for l in range(k)) for i in range(n) for j in range(m)],
                )
            if len(a.shape) == 2 and len(b.shape) == 1 and a.shape[1] == b.shape[0]:
                return Tensor((a.shape[0],), [vsum(tov(a.get([i, l])) * tov(b.items[l]) for l in range(b.shape[0])) for i in range(a.shape[0])])
            if len(a.shape) == 1 and len(b.shape) == 1 and a.shape == b.shape:
                return vsum(tov(x) * tov(y) for x, y in zip(a.items, b.items))
        if isinstance(a, Tensor) and len(a.shape) == 2 and isinstance(b, (Arr, View, OpqArr)) and _ndim(b) == 2:
            return MatMul(a, b)
        self.err(node, "unsupported matmul operands")

    def concretise(self, v, node, shape=None):
        """Turn an array-like with known literal shape into a Tensor."""
        if isinstance(v, Tensor):
            return v
        shp = shape or self.literal_shape(v)
        if shp is None:
            return v
        items = []

        def rec(prefix, k):
            if k == len(shp):
                items.append(self.index(v, list(prefix), node))
                return
            for i in range(shp[k]):
                rec(prefix + [i], k + 1)

        rec([], 0)
        return Tensor(shp, items)

    def literal_shape(self, v):
        h = self.hooks.get("literal_shape")
        if h is not None:
            r = h(self, v)
            if r is not None:
                return r
        if isinstance(v, Arr) and v.shape is not None and all(isinstance(s, int) for s in v.shape):
            return tuple(v.shape)
        if isinstance(v, Lazy):
            best = None
            for o in v.operands:
                ls = o.shape if isinstance(o, Tensor) else (self.literal_shape(o) if isinstance(o, (Arr, View, OpqArr)) else None)
                if ls is not None and (best is None or len(ls) > len(best)):
                    best = tuple(ls)
            return best
        if isinstance(v, View):
            bs = self.literal_shape_axes(v.base)
            if bs is not None:
                out = []
                for ax in v.free_axes():
                    s = v.spec[ax]
                    if s[0] == "all":
                        if bs[ax] is None:
                            return None
                        out.append(bs[ax])
                    else:
                        ln = s[2]
                        p = ln.aspoly() if ln is not None else None
                        if p is None or not p.isconst():
                            return None
                        out.append(int(p.constval().re))
                return tuple(out)
        return None

    def literal_shape_axes(self, base):
        h = self.hooks.get("literal_axes")
        if h is not None:
            r = h(self, base)
            if r is not None:
                return r
        if isinstance(base, Arr) and base.shape is not None:
            return [s if isinstance(s, int) else None for s in base.shape]
        if isinstance(base, Tensor):
            return list(base.shape)
        if isinstance(base, View):
            bs = self.literal_shape_axes(base.base)
            if bs is None:
                return None
            out = []
            for ax in base.free_axes():
                sp = base.spec[ax]
                if sp[0] == "all":
                    out.append(bs[ax])
                else:
                    li = _try_int(sp[2]) if sp[2] is not None else None
                    out.append(li)
            return out
        if isinstance(base, Lazy):
            axes = None
            for o in base.operands:
                if not isinstance(o, (Arr, View, OpqArr, Tensor)):
                    continue
                ax = self.literal_shape_axes(o)
                if ax is None:
                    nd = _ndim(o)
                    if nd is None:
                        return None
                    ax = [None] * nd
                if axes is None:
                    axes = list(ax)
                else:
                    if len(ax) > len(axes):
                        axes, ax = list(ax), axes
                    off = len(axes) - len(ax)
                    for i, a in enumerate(ax):
                        cur = axes[off + i]
                        if isinstance(a, int) and a != 1:
                            axes[off + i] = a
                        elif cur == 1 and a is None:
                            axes[off + i] = None
            return axes
        return None

    def ev_Subscript(self, e):
        base = self.ev(e.value)
        if isinstance(base, Opq) and base.kind == "shape":
            i = self.ev(e.slice)
            return self.shape_of(base.ref, i)
        spec = self.slice_spec(e.slice, base, e)
        return self.subscript(base, spec, e)

    def ev_Attribute(self, e):
        base = self.ev(e.value)
        h = self.hooks.get("attr")
        if h is not None:
            r = h(self, base, e.attr, e)
            if r is not None:
                return r
        if e.attr == "shape" and isinstance(base, (Arr, View, OpqArr, Tensor)):
            o = Opq("shape", "shape")
            o.ref = base
            return o
        if e.attr == "dtype":
            return Opq("dtype", "dtype")
        if e.attr == "type" and isinstance(base, Opq) and base.kind == "dtype":
            return Opq("cast", "cast")
        if e.attr == "T" and isinstance(base, Tensor) and len(base.shape) == 2:
            n, m = base.shape
            return Tensor((m, n), [base.get([i, j]) for j in range(m) for i in range(n)])
        if e.attr == "T" and isinstance(base, (Arr, View, OpqArr)) and _ndim(base) == 2:
            return Transposed(base)
        if isinstance(base, Opq):
            if base.kind == "module":
                return Opq(base.desc + "." + e.attr, "module")
            return self.opq_attr(base, e.attr, e)
        if e.attr in ("real", "imag") and isinstance(base, V):
            self.err(e, "real/imag of symbolic value")
        self.err(e, "unsupported attribute ." + e.attr)

    def opq_attr(self, base, attr, node):
        return OpqArr(base.desc + "." + attr)

    def ev_Call(self, e):
        # method calls on values
        if isinstance(e.func, ast.Attribute):
            recv_node = e.func.value
            fname = ast.unparse(e.func)
            if fname in _NP_FUNCS:
                return self.np_call(_NP_FUNCS[fname], e)
            recv = self.ev(recv_node)
            meth = e.func.attr
            if isinstance(recv, Opq) and recv.kind == "cast":
                return self.ev(e.args[0])
            if isinstance(recv, Opq) and recv.kind == "dtype" and meth == "type":
                return self.ev(e.args[0])
            if meth == "copy" and not e.args:
                return recv
            if meth in ("ravel", "flatten") and not e.args and isinstance(recv, (Arr, View, OpqArr)) and _ndim(recv) == 2:
                return Ravel(self, recv, e)
            if meth in ("ravel", "flatten") and not e.args and isinstance(recv, (Arr, View, OpqArr)) and _ndim(recv) == 1:
                return recv
            if meth == "dot" and len(e.args) == 1:
                return self.matmul(recv, self.ev(e.args[0]), e)
            if meth == "reshape":
                shp = [self.ev(a) for a in e.args]
                if len(shp) == 1 and isinstance(shp[0], (tuple, list)):
                    shp = list(shp[0])
                return self.reshape(recv, shp, e)
            if isinstance(recv, Opq) and recv.kind == "module":
                fname = recv.desc + "." + meth
                if fname in _NP_FUNCS:
                    return self.np_call(_NP_FUNCS[fname], e)
                self.err(e, "unsupported library call " + fname)
            h = self.hooks.get("method")
            if h is not None:
                r = h(self, recv, meth, [self.ev(a) for a in e.args], e)
                if r is not None:
                    return r
            if isinstance(recv, Opq):
                args = [self.ev(a) for a in e.args]
                return OpqArr("%s.%s(%s)" % (recv.desc, meth, ";".join(describe(a) for a in args)))
            self.err(e, "unsupported method call ." + meth)
        if isinstance(e.func, ast.Name):
            name = e.func.id
            if name == "len" and len(e.args) == 1:
                return self.length(self.ev(e.args[0]), e)
            if name == "range":
                self.err(e, "range outside for")
            if name in ("float", "int", "complex") and len(e.args) == 1:
                return self.ev(e.args[0])
            if name in self.env:
                f = self.env[name]
                args = [self.ev(a) for a in e.args]
                if isinstance(f, Opq):
                    return self.call_opaque(f, args, e)
                if callable(f):
                    return f(self, args, e)
            g = self.hooks.get("functions", {})
            if name in g:
                args = [self.ev(a) for a in e.args]
                return g[name](self, args, e)
            if self.module is not None and name in self.module.functions:
                args = [self.ev(a) for a in e.args]
                if e.keywords:
                    self.err(e, "keyword call of repo function")
                return self.call_inline(name, args, e)
        self.err(e, "unsupported call")

    def call_opaque(self, f, args, node):
        h = self.hooks.get("opaque_call")
        if h is not None:
            r = h(self, f, args, node)
            if r is not None:
                return r
        return OpqArr("%s(%s)" % (f.desc, ";".join(describe(a) for a in args)))

    def call_inline(self, name, args, node):
        if name in self.opaque_calls:
            return self.opaque_calls[name](self, args, node)
        fn = self.module.functions[name]
        params = [a.arg for a in fn.args.args]
        if len(params) != len(args):
            self.err(node, "arity mismatch inlining " + name)
        sub = Interp(self.module, fn, dict(zip(params, args)), self.hooks, loops=self.loops)
        sub.depth = len(self.loops)
        sub.guards = list(self.guards)
        r = sub.run()
        self.writes.extend(sub.writes)
        self.scalar_aug.extend(sub.scalar_aug)
        return r

    def reshape(self, v, shp, node):
        if isinstance(v, Tensor) and all(isinstance(s, int) for s in shp):
            return Tensor(tuple(shp), v.items)
        if isinstance(v, (View, Arr, OpqArr)):
            ls = self.literal_shape(v)
            if ls is not None:
                t = self.concretise(v, node, ls)
                n = 1
                for s in ls:
                    n *= s
                shp2 = [s if s != -1 else None for s in shp]
                if all(isinstance(s, int) for s in shp):
                    return Tensor(tuple(shp), t.items)
        if isinstance(v, (View, Arr, OpqArr)) and _ndim(v) == 1 and len(shp) == 2 and _try_int(shp[1]) == 1:
            return Expand(v, 1)
        self.err(node, "unsupported reshape")

    def np_call(self, f, e):
        args = [self.ev(a) for a in e.args]
        kw = {k.arg: k.value for k in e.keywords}
        return f(self, args, kw, e)


class OpqArr(Opq):
    """Opaque array-valued object: reads give opaque atoms desc⟨idx⟩."""

    def __init__(self, desc, ndim=None):
        Opq.__init__(self, desc, "array")
        self.ndim = ndim


class Lazy(OpqArr):
    """Element-wise expression over array-likes; indexed lazily."""

    def __init__(self, interp, operands, f, node):
        OpqArr.__init__(self, "lazy", None)
        self.interp = interp
        self.operands = operands
        self.f = f
        self.node = node
        self.ndim = None
        for o in operands:
            nd = _ndim(o)
            if nd is not None:
                self.ndim = max(self.ndim or 0, nd)

    def sub(self, it, spec, node):
        if all(s[0] == "fix" for s in spec) and (self.ndim is None or len(spec) == self.ndim):
            return self.at([s[1] for s in spec])
        full = list(spec)
        if self.ndim is not None:
            while len(full) < self.ndim:
                full.append(("all",))
        return View(self, full)

    def at(self, idx):
        xs = []
        for o in self.operands:
            if isinstance(o, (Arr, View, OpqArr, Tensor)):
                nd = _ndim(o)
                use = idx if nd is None or nd >= len(idx) else idx[len(idx) - nd :]
                # broadcasting of size-1 axes (e.g. (3,1) - (3,N))
                if isinstance(o, Tensor):
                    use2 = []
                    for n, i in zip(o.shape, use):
                        use2.append(0 if n == 1 else i)
                    xs.append(self.interp.index(o, use2, self.node))
                else:
                    xs.append(self.interp.index(o, use, self.node))
            else:
                xs.append(o)
        return self.f(xs)


def _ndim(o):
    if isinstance(o, Tensor):
        return len(o.shape)
    if isinstance(o, View):
        return len(o.free_axes())
    if isinstance(o, Arr):
        return o.ndim
    if isinstance(o, OpqArr):
        return o.ndim
    return 0


def _is_opqarr(v):
    return isinstance(v, OpqArr)


def describe(a):
    if isinstance(a, Opq):
        return a.desc
    if isinstance(a, Arr):
        return a.desc
    if isinstance(a, View):
        return "%s[%s]" % (
            describe(a.base),
            ",".join(idx_str(s[1]) if s[0] == "fix" else (":" if s[0] == "all" else "%s:+%s" % (idx_str(s[1]), idx_str(s[2]) if s[2] is not None else "")) for s in a.spec),
        )
    if isinstance(a, V):
        return idx_str(a) if a.aspoly() is not None else repr(a)
    if isinstance(a, Tensor):
        return "T[%s]" % ",".join(describe(x) for x in a.items)
    if isinstance(a, (list, tuple)):
        return "[%s]" % ",".join(describe(x) for x in a)
    return repr(a)


def unparse_test(t):
    return ast.unparse(t)


def _short(node):
    try:
        s = ast.unparse(node)
    except Exception:
        s = type(node).__name__
    return s if len(s) < 100 else s[:97] + "..."


def _mentions(pattern, var):
    return any(var in _deep_atoms(p) for p in pattern)


def _deep_atoms(v):
    out = set()
    todo = list(v.atoms())
    while todo:
        a = todo.pop()
        if a in out:
            continue
        out.add(a)
        if a in ATOMS:
            for i in ATOMS[a][1]:
                todo.extend(i.atoms())
    return out


def _try_int(v):
    if isinstance(v, bool):
        return None
    if isinstance(v, int):
        return v
    if isinstance(v, V):
        p = v.aspoly()
        if p is not None and p.isconst():
            c = p.constval()
            if not c.im and c.re.denominator == 1:
                return int(c.re)
    return None


def _as_int(v, interp, node):
    if isinstance(v, int):
        return v
    if isinstance(v, V):
        p = v.aspoly()
        if p is not None and p.isconst():
            c = p.constval()
            if not c.im and c.re.denominator == 1:
                return int(c.re)
    interp.err(node, "symbolic index where a literal is required")


_OPS = {"+=": ast.Add, "-=": ast.Sub, "*=": ast.Mult, "/=": ast.Div}


def simplify_value(v):
    return simplify_index(v)


def unify(pattern, bound, idx):
    """Match store pattern (polys over bound vars) against read index.

    Returns substitution dict, None (definitely disjoint) or "maybe"."""
    sub = {}
    for p, r in zip(pattern, idx):
        p2 = subst_index(p, sub) if sub else p
        pp, rp = p2.aspoly(), r.aspoly()
        if pp is None or rp is None:
            return "maybe"
        if pp.key() == rp.key():
            continue
        pb = [a for a in pp.atoms() if a in bound and a not in sub]
        if not pb:
            # both fixed: differ -> disjoint if both constants, else maybe
            if pp.isconst() and rp.isconst():
                return None
            d = pp - rp
            if d.isconst() and not d.iszero():
                return None
            return "maybe"
        if len(pb) == 1 and len(pp.t) == 1:
            (k, c), = pp.t.items()
            if len(k) == 1 and k[0][1] == 1 and c.re == 1 and not c.im:
                sub[pb[0]] = r
                continue
        # offset pattern: base + var
        if len(pb) == 1:
            var = pb[0]
            rest = pp - Poly.atom(var)
            if var not in rest.atoms():
                # pattern = rest + var
                cand = rp - rest
                if RANGES.get(var) is not None:
                    if _in_range(cand, RANGES[var]):
                        sub[var] = V.of_poly(cand)
                        continue
                    # try mixed radix decomposition of both
                else:
                    sub[var] = V.of_poly(cand)
                    continue
        # mixed radix: pattern linear in bound vars with monomial radices
        m = _match_radix(pp, pb, rp)
        if m is None:
            return "maybe"
        if m == "disjoint":
            return None
        sub.update(m)
    return sub


def _match_radix(pp, pb, rp):
    """Unify the mixed-radix pattern pp (bound variables pb) with the read index rp.

    Returns substitution dict, "disjoint", or None (undecided)."""
    weights = {}
    p0 = {}
    for k, c in pp.t.items():
        vs = [a for a, e in k if a in pb]
        if not vs:
            p0[k] = c
            continue
        if len(vs) != 1 or dict(k)[vs[0]] != 1 or c.im or c.re.denominator != 1 or c.re <= 0:
            return None
        if vs[0] in weights:
            return None
        weights[vs[0]] = (int(c.re), {a: e for a, e in k if a != vs[0]})
    rem_p = Poly(p0)
    order = sorted(weights.items(), key=lambda kv: (-sum(kv[1][1].values()), -kv[1][0]))
    # FLAT read: a single induction variable against a 2-digit pattern  w*hi + lo  -> DIV/MOD
    rem_r = rp - rem_p
    if len(order) == 2 and order[1][1] == (1, {}) and rem_p.iszero():
        flat = _single_atom_name(V.of_poly(rp))
        if flat is not None:
            rad = _mono_V(order[0][1])
            rng, hi_rng, lo_rng = RANGES.get(flat), RANGES.get(order[0][0]), RANGES.get(order[1][0])
            if rng is not None and hi_rng is not None and lo_rng is not None and lo_rng.eq(rad) and rng.eq(hi_rng * rad):
                fv = V.atom(flat)
                return {order[0][0]: opaque_atom("DIV", [fv, rad]), order[1][0]: opaque_atom("MOD", [fv, rad])}
    sub = {}
    cur = rp
    smallest = None
    for var, w in order:
        hi, lo = _divide_terms(cur, w)
        rng = RANGES.get(var)
        if rng is None or not _in_range(hi, rng):
            return None
        sub[var] = V.of_poly(hi)
        cur = lo
        smallest = w
    # remainders below the smallest weight
    if cur.key() == rem_p.key():
        return sub
    if smallest is not None and smallest != (1, {}):
        wv = _mono_V(smallest)
        if _in_range(cur, wv) and _in_range(rem_p, wv):
            d = cur - rem_p
            if d.isconst() and not d.iszero():
                return "disjoint"
    return None


# ------------------------------------------------------------------ numpy


def _np_zeros(kind):
    def f(it, args, kw, e):
        shp = args[0]
        if isinstance(shp, (int, V)):
            shp = [shp]
        shp = list(shp)
        if all(isinstance(s, int) for s in shp) and kind in ("zeros", "ones"):
            n = 1
            for s in shp:
                n *= s
            return Tensor(tuple(shp), [V.const(0 if kind == "zeros" else 1)] * n)
        if all(isinstance(s, int) for s in shp):
            n = 1
            for s in shp:
                n *= s
            return Tensor(tuple(shp), [None] * n)
        a = Arr("?", kind, ndim=len(shp), shape=shp, depth=len(it.loops))
        return a

    return f


def _np_array(it, args, kw, e):
    v = args[0]

    def shape_of(x):
        if isinstance(x, (list, tuple)):
            inner = shape_of(x[0]) if x else ()
            return (len(x),) + inner
        return ()

    def flat(x):
        if isinstance(x, (list, tuple)):
            for y in x:
                yield from flat(y)
        else:
            yield tov(x) if not isinstance(x, V) else x

    if isinstance(v, Tensor):
        return v
    return Tensor(shape_of(v), list(flat(v)))


def _np_sqrt(it, args, kw, e):
    a = args[0]
    if isinstance(a, (Arr, View, OpqArr)):
        return it.elementwise1(a, lambda x: x.sqrt(), e)
    if isinstance(a, Tensor):
        return a.map(lambda x: tov(x).sqrt())
    return tov(a).sqrt()


def _np_un(name):
    def f(it, args, kw, e):
        a = args[0]
        g = lambda x: getattr(tov(x), name)()
        if isinstance(a, (Arr, View, OpqArr)):
            return it.elementwise1(a, g, e)
        if isinstance(a, Tensor):
            return a.map(g)
        return g(a)

    return f


def _np_dot(it, args, kw, e):
    return it.matmul(args[0], args[1], e)


def _np_cross(it, args, kw, e):
    a = it.concretise(args[0], e, (3,))
    b = it.concretise(args[1], e, (3,))
    if not (isinstance(a, Tensor) and isinstance(b, Tensor) and a.shape == (3,) and b.shape == (3,)):
        it.err(e, "cross of non-3-vectors")
    x, y = [tov(t) for t in a.items], [tov(t) for t in b.items]
    return Tensor((3,), [x[1] * y[2] - x[2] * y[1], x[2] * y[0] - x[0] * y[2], x[0] * y[1] - x[1] * y[0]])


def _np_norm(it, args, kw, e):
    a = it.concretise(args[0], e)
    if isinstance(a, Tensor) and len(a.shape) == 1:
        return vsum(tov(x) * tov(x) for x in a.items).sqrt()
    it.err(e, "norm of non-literal-shape vector")


def _np_atleast_2d(it, args, kw, e):
    a = args[0]
    nd = _ndim(a)
    if nd == 2:
        return a
    if nd == 1 or nd is None:
        o = Opq("atleast2d", "atleast2d")
        o.ref = a
        return AtLeast2D(a)
    it.err(e, "atleast_2d of rank %r" % nd)


class AtLeast2D(OpqArr):
    def __init__(self, ref):
        OpqArr.__init__(self, "atleast2d", 2)
        self.ref = ref

    def sub(self, it, spec, node):
        nd = _ndim(self.ref)
        if nd == 2:
            return it.subscript(self.ref, spec, node)
        if spec and spec[0][0] == "fix":
            i0 = spec[0][1]
            if _try_int(i0) == 0:
                return it.subscript(self.ref, spec[1:], node)
            p = tov(i0).aspoly()
            if p is not None and len(p.t) == 1:
                (k, c), = p.t.items()
                if len(k) == 1 and RANGES.get(k[0][0]) is not None and RANGES[k[0][0]].eq(V.const(1)):
                    return it.subscript(self.ref, spec[1:], node)
        raise AnalysisError("KEX: cannot resolve leading index of atleast_2d view")


class MatMul(OpqArr):
    """Tensor (n x k, literal) @ array-like (k x N): [i, j] -> sum_l A[i, l] * B[l, j]."""

    def __init__(self, a, b):
        OpqArr.__init__(self, "matmul", 2)
        self.a, self.b = a, b

    def sub(self, it, spec, node):
        if len(spec) == 2 and spec[0][0] == "fix" and spec[1][0] == "fix":
            i = _try_int(spec[0][1])
            if i is None:
                it.err(node, "symbolic row index into matrix product")
            return vsum(tov(self.a.get([i, l])) * tov(it.index(self.b, [l, spec[1][1]], node)) for l in range(self.a.shape[1]))
        full = list(spec) + [("all",)] * (2 - len(spec))
        return View(self, full)


def _np_zeros_like(it, args, kw, e):
    a = args[0]
    if isinstance(a, Tensor):
        return Tensor(a.shape, [V.const(0)] * len(a.items))
    nd = _ndim(a)
    shape = None
    if isinstance(a, Arr) and a.shape is not None:
        shape = list(a.shape)
    elif nd is not None:
        shape = [it.shape_of(a, k) for k in range(nd)]
    return Arr("?", "zeros", ndim=nd, shape=shape, depth=len(it.loops))


def _np_identity(it, args, kw, e):
    return args[0]


class Arange(OpqArr):
    """np.arange(n) with symbolic n: [k] -> k."""

    def __init__(self, n):
        OpqArr.__init__(self, "arange", 1)
        self.n = n
        self.length = tov(n)
        self.start = V.const(0)

    def sub(self, it, spec, node):
        if len(spec) == 1 and spec[0][0] == "fix":
            return self.start + tov(spec[0][1])
        return View(self, list(spec))


class Repeat(OpqArr):
    """np.repeat(a, m): [s] -> a[s div m]."""

    def __init__(self, it, a, m, node):
        OpqArr.__init__(self, "repeat", 1)
        self.a, self.m = a, tov(m)
        self.length = tov(it.length(a, node)) * self.m

    def sub(self, it, spec, node):
        if len(spec) == 1 and spec[0][0] == "fix":
            q = simplify_index(opaque_atom("DIV", [tov(spec[0][1]), self.m]))
            return it.index(self.a, [q], node)
        return View(self, list(spec))


class Tile(OpqArr):
    """np.tile(a, m): [s] -> a[s mod len(a)]."""

    def __init__(self, it, a, m, node):
        OpqArr.__init__(self, "tile", 1)
        self.a = a
        self.alen = tov(it.length(a, node))
        self.length = self.alen * tov(m)

    def sub(self, it, spec, node):
        if len(spec) == 1 and spec[0][0] == "fix":
            q = simplify_index(opaque_atom("MOD", [tov(spec[0][1]), self.alen]))
            return it.index(self.a, [q], node)
        return View(self, list(spec))


def _np_arange(it, args, kw, e):
    if len(args) == 1 and isinstance(args[0], int):
        return Tensor((args[0],), [V.const(i) for i in range(args[0])])
    if len(args) == 1:
        return Arange(args[0])
    if len(args) == 2:
        a = Arange(tov(args[1]) - tov(args[0]))
        a.start = tov(args[0])
        return a
    it.err(e, "arange with step")


def _np_repeat(it, args, kw, e):
    if len(args) != 2 or kw:
        it.err(e, "repeat with axis")
    return Repeat(it, args[0], args[1], e)


def _np_tile(it, args, kw, e):
    if len(args) != 2:
        it.err(e, "tile arity")
    return Tile(it, args[0], args[1], e)


class Ravel(OpqArr):
    """a.ravel() of a rank-2 array-like (row-major): [s] -> a[s div n2, s mod n2]."""

    def __init__(self, it, a, node):
        OpqArr.__init__(self, "ravel", 1)
        self.a = a
        self.n1, self.n2 = tov(it.shape_of(a, 0)), tov(it.shape_of(a, 1))
        self.length = self.n1 * self.n2

    def sub(self, it, spec, node):
        if len(spec) == 1 and spec[0][0] == "fix":
            s = tov(spec[0][1])
            i = simplify_index(opaque_atom("DIV", [s, self.n2]))
            j = simplify_index(opaque_atom("MOD", [s, self.n2]))
            return it.index(self.a, [i, j], node)
        return View(self, list(spec))


class Gather(OpqArr):
    """base[index_array] for a rank-1 index array: [k, ...] -> base[index_array[k], ...]."""

    def __init__(self, base, idx):
        nd = _ndim(base)
        OpqArr.__init__(self, "gather", nd)
        self.base, self.idx = base, idx

    def sub(self, it, spec, node):
        if spec and spec[0][0] == "fix":
            k = it.index(self.idx, [spec[0][1]], node)
            return it.subscript(self.base, [("fix", k)] + list(spec[1:]), node)
        nd = self.ndim or 1
        return View(self, list(spec) + [("all",)] * (nd - len(spec)))


class SumAxis(OpqArr):
    """np.sum(a, axis=k): the summed axis gets a fresh bound variable and a Σ marker on every read."""

    def __init__(self, it, a, axis, node):
        nd = _ndim(a)
        if nd is None:
            it.err(node, "sum over an array of unknown rank")
        if axis < 0:
            axis += nd
        OpqArr.__init__(self, "sum", nd - 1)
        self.a, self.axis = a, axis
        self.bound = tov(it.shape_of(a, axis))

    def sub(self, it, spec, node):
        if len(spec) == self.ndim and all(s[0] == "fix" for s in spec):
            var = fresh("ιsum")
            RANGES[var] = self.bound
            idx = [s[1] for s in spec]
            idx.insert(self.axis, V.atom(var))
            return tov(it.index(self.a, idx, node)) * sigma(var)
        return View(self, list(spec) + [("all",)] * (self.ndim - len(spec)))


def _np_sum(it, args, kw, e):
    a = args[0]
    axis = None
    if "axis" in kw:
        axis = it.ev(kw["axis"])
    elif len(args) > 1:
        axis = args[1]
    if isinstance(a, Tensor):
        if axis is None:
            return vsum(tov(x) for x in a.items)
        it.err(e, "axis sum of a literal tensor")
    nd = _ndim(a)
    if nd is None:
        it.err(e, "sum over an array of unknown rank")
    if axis is None:
        cur = a
        for _ in range(nd):
            cur = SumAxis(it, cur, 0, e)
        return it.subscript(cur, [], e) if False else cur.sub(it, [], e)
    if not isinstance(axis, int):
        it.err(e, "symbolic sum axis")
    r = SumAxis(it, a, axis, e)
    if r.ndim == 0:
        return r.sub(it, [], e)
    return r


class Stack(OpqArr):
    """np.vstack of rank-1 array-likes: [k, j] -> operand_k[j]."""

    def __init__(self, ops):
        OpqArr.__init__(self, "vstack", 2)
        self.ops = ops

    def sub(self, it, spec, node):
        if len(spec) == 2 and spec[0][0] == "fix" and spec[1][0] == "fix":
            k = _try_int(spec[0][1])
            if k is not None:
                if not 0 <= k < len(self.ops):
                    it.err(node, "vstack row out of range")
                op = self.ops[k]
                return it.index(op, [spec[1][1]], node) if isinstance(op, (Arr, View, OpqArr, Tensor)) else op
            total = V.const(0)
            for c, op in enumerate(self.ops):
                val = it.index(op, [spec[1][1]], node) if isinstance(op, (Arr, View, OpqArr, Tensor)) else op
                total = total + tov(val) * opaque_atom("δ", [tov(spec[0][1]), c])
            return total
        full = list(spec) + [("all",)] * (2 - len(spec))
        return View(self, full)


class Expand(OpqArr):
    """np.expand_dims(a, axis) for axis in (0, 1) (axis 1 only for rank-1 operands: column vector, broadcast on read)."""

    def __init__(self, ref, axis=0):
        nd = _ndim(ref)
        OpqArr.__init__(self, "expand_dims", None if nd is None else nd + 1)
        self.ref = ref
        self.axis = axis

    def sub(self, it, spec, node):
        if self.axis == 1:
            if len(spec) == 2 and spec[0][0] == "fix":
                return it.subscript(self.ref, [spec[0]], node)  # size-1 axis: broadcasting ignores the second index
            full = list(spec) + [("all",)] * (2 - len(spec))
            return View(self, full)
        if spec and spec[0][0] == "fix":
            if _try_int(spec[0][1]) == 0:
                return it.subscript(self.ref, spec[1:], node) if spec[1:] else self.ref
            it.err(node, "index into expand_dims axis is not 0")
        nd = self.ndim
        full = list(spec) + ([("all",)] * (nd - len(spec)) if nd else [])
        return View(self, full)


class Transposed(OpqArr):
    """a.T for rank-2 array-likes."""

    def __init__(self, ref):
        OpqArr.__init__(self, "T", 2)
        self.ref = ref

    def sub(self, it, spec, node):
        if len(spec) == 2:
            return it.subscript(self.ref, [spec[1], spec[0]], node)
        full = list(spec) + [("all",)] * (2 - len(spec))
        return View(self, full)


def _np_vstack(it, args, kw, e):
    ops = args[0]
    if not isinstance(ops, (tuple, list)) or not ops:
        it.err(e, "vstack of non-tuple")
    return Stack(list(ops))


def _np_expand_dims(it, args, kw, e):
    if len(args) != 2 or args[1] not in (0, 1):
        it.err(e, "expand_dims on an axis other than 0 or 1")
    if args[1] == 1 and _ndim(args[0]) not in (1,):
        it.err(e, "expand_dims(axis=1) of a non-vector")
    return Expand(args[0], args[1])


def _np_eye(it, args, kw, e):
    n = args[0]
    if not isinstance(n, int):
        it.err(e, "eye of symbolic size")
    return Tensor((n, n), [V.const(1 if i == j else 0) for i in range(n) for j in range(n)])


_NP_FUNCS = {}
for _p in ("_np", "np", "numpy"):
    _NP_FUNCS[_p + ".ones"] = _np_zeros("ones")
    _NP_FUNCS[_p + ".vstack"] = _np_vstack
    _NP_FUNCS[_p + ".expand_dims"] = _np_expand_dims
    _NP_FUNCS[_p + ".eye"] = _np_eye
    _NP_FUNCS[_p + ".zeros_like"] = _np_zeros_like
    _NP_FUNCS[_p + ".require"] = _np_identity
    _NP_FUNCS[_p + ".asfortranarray"] = _np_identity
    _NP_FUNCS[_p + ".ascontiguousarray"] = _np_identity
    _NP_FUNCS[_p + ".arange"] = _np_arange
    _NP_FUNCS[_p + ".repeat"] = _np_repeat
    _NP_FUNCS[_p + ".sum"] = _np_sum
    _NP_FUNCS[_p + ".tile"] = _np_tile
    _NP_FUNCS[_p + ".zeros"] = _np_zeros("zeros")
    _NP_FUNCS[_p + ".empty"] = _np_zeros("empty")
    _NP_FUNCS[_p + ".array"] = _np_array
    _NP_FUNCS[_p + ".sqrt"] = _np_sqrt
    _NP_FUNCS[_p + ".exp"] = _np_un("exp")
    _NP_FUNCS[_p + ".cos"] = _np_un("cos")
    _NP_FUNCS[_p + ".sin"] = _np_un("sin")
    _NP_FUNCS[_p + ".dot"] = _np_dot
    _NP_FUNCS[_p + ".cross"] = _np_cross
    _NP_FUNCS[_p + ".linalg.norm"] = _np_norm
    _NP_FUNCS[_p + ".atleast_2d"] = _np_atleast_2d


def _single_atom_name(v):
    """Name of the atom if v is exactly one atom with coefficient 1, else None."""
    if not isinstance(v, V):
        return None
    p = v.aspoly()
    if p is None or len(p.t) != 1:
        return None
    (k, c), = p.t.items()
    if len(k) == 1 and k[0][1] == 1 and c.re == 1 and not c.im:
        return k[0][0]
    return None
