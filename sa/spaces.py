"""Rules about function spaces (api/space/*.py) shared by C02, C03, C04, C09, C13."""

import ast

from . import roles, symex
from .alg import V
from .core import AnalysisError
from .src import arg_names, calls_in, unparse
from .symex import Arr, Interp, Opq, opaque_atom, tov

SP = "bempp_cl/api/space/space.py"
SS = "bempp_cl/api/space/scalar_spaces.py"
MS = "bempp_cl/api/space/maxwell_spaces.py"


def _init_fn(ctx):
    return ctx.repo.mod(SP).fn("FunctionSpace.__init__")


def coefficient_maps(ctx):
    """map_to_full_grid / map_to_localised_space: COO triplets (multiplier, row = local slot, col = global dof)."""
    m = ctx.repo.mod(SP)
    fn = _init_fn(ctx)
    r = ctx.rule("SPACE-MAPS", "map_to_full_grid[nshape*element + i, local2global[element, i]] = local_multipliers[element, i] over the support (and the localised analogue)", 6)
    defs = roles.Defs(fn)
    found = {}
    for st in ast.walk(fn):
        if isinstance(st, ast.Assign) and isinstance(st.targets[0], ast.Attribute) and st.targets[0].attr in ("_map_to_full_grid", "_map_to_localised_space"):
            found[st.targets[0].attr] = st
    for attr in ("_map_to_full_grid", "_map_to_localised_space"):
        if attr not in found:
            raise AnalysisError("FunctionSpace.__init__ no longer builds %s" % attr)
        st = found[attr]
        call = st.value
        while isinstance(call, ast.Call) and isinstance(call.func, ast.Attribute) and call.func.attr in ("tocsr", "tocsc"):
            call = call.func.value
        if not (isinstance(call, ast.Call) and unparse(call.func).endswith("coo_matrix") and isinstance(call.args[0], ast.Tuple)):
            raise AnalysisError("%s is not built from a coo_matrix triplet" % attr)
        data, (rows, cols) = call.args[0].elts[0], call.args[0].elts[1].elts
        d, c = roles.canon(data, defs).replace(" ", ""), roles.canon(cols, defs).replace(" ", "")
        r.check(d == "self._local_multipliers[self._support].ravel()", "%s data" % attr, SP, fn.name, st.lineno, "%s data = %s" % (attr, d),
                "entries are `%s`, expected the local multipliers of the support elements" % d)
        r.check(c == "self._local2global_map[self._support].ravel()", "%s cols" % attr, SP, fn.name, st.lineno, "%s cols = %s" % (attr, c),
                "column indices are `%s`, expected local2global of the support elements" % c)
        # rows: evaluate symbolically at slot s = nshape*k + l
        symex.reset()
        NS, NK = opaque_atom("#nshape"), opaque_atom("#support")
        se = Arr("support_elements", "input", ndim=1, shape=[NK])
        selfo = Opq("self", "self")

        def attr_h(it, base, at, node):
            if base is selfo and at == "_support_elements":
                return se
            if base is selfo and at == "_number_of_support_elements":
                return NK
            return None

        it = Interp(m, fn, {"self": selfo, "nshape_fun": NS}, {"globals": {"_np": Opq("_np", "module")}, "attr": attr_h})
        k, l = symex.fresh("k"), symex.fresh("l")
        symex.RANGES[k], symex.RANGES[l] = NK, NS
        slot = NS * V.atom(k) + V.atom(l)
        rv = it.ev(rows)
        got = tov(it.index(rv, [slot], fn))
        want = (NS * opaque_atom("support_elements", [V.atom(k)]) + V.atom(l)) if attr == "_map_to_full_grid" else slot
        r.check(got.eq(want), "%s rows" % attr, SP, fn.name, st.lineno, "%s rows[slot] = %r" % (attr, got),
                "row of local slot (k-th support element, local dof l) is %r, expected %r" % (got, want))


def dense_potential_evaluator(ctx):
    rel = "bempp_cl/core/dense_potential_assembler.py"
    m = ctx.repo.mod(rel)
    fn = m.fn("DensePotentialAssembler.__init__")
    r = ctx.rule("POT-COEFFS", "dense potential evaluator feeds map_to_full_grid @ (dof_transformation @ x) to the kernel launched on the localised space", 3)
    inner = [n for n in ast.walk(fn) if isinstance(n, ast.FunctionDef) and n is not fn]
    if len(inner) != 1:
        raise AnalysisError("DensePotentialAssembler.__init__: evaluator closure not found")
    defs = roles.Defs(fn, extra_scopes=inner)
    x = arg_names(inner[0])[0]
    calls = [c for c in calls_in(inner[0]) if isinstance(c.func, ast.Name) and c.func.id == "implementation"]
    if len(calls) != 1:
        raise AnalysisError("potential evaluator does not call the implementation exactly once")
    got = roles.canon(calls[0].args[0], defs).replace(" ", "")
    want = "(self.space.map_to_full_grid@(self.space.dof_transformation@%s))" % x
    r.check(got == want, "evaluator argument", rel, fn.name, calls[0].lineno, "potential evaluator argument " + got, "kernel receives `%s`, expected `%s`" % (got, want))
    pa = arg_names(fn)
    disp = [c for c in calls_in(fn) if unparse(c.func).endswith("potential_dispatcher")]
    okd = len(disp) == 1 and [roles.canon(a, defs) for a in disp[0].args] == [pa[4], "%s.localised_space" % pa[1], pa[2], pa[3], pa[5]]
    r.check(okd, "dispatcher arguments", rel, fn.name, disp[0].lineno if disp else fn.lineno, "potential dispatcher args %s" % ([unparse(a) for a in disp[0].args] if disp else None),
            "potential_dispatcher must receive (device_interface, space.localised_space, operator_descriptor, points, parameters)")
    ass = [s for s in ast.walk(fn) if isinstance(s, ast.Assign) and unparse(s.targets[0]) == "self.space"]
    r.check(len(ass) == 1 and unparse(ass[0].value) == pa[1], "self.space", rel, fn.name, fn.lineno, "self.space binding", "self.space is not the space passed to the constructor")


def normal_multipliers(ctx):
    """_process_segments: multiplier -1 exactly for elements whose domain index is in swapped_normals, +1 otherwise."""
    m = ctx.repo.mod(SP)
    fn = m.fn("_process_segments")
    r = ctx.rule("NORMAL-MULT", "_process_segments: normal multiplier is -1 exactly on elements whose domain index is in swapped_normals, +1 elsewhere", 1)
    s = unparse(fn).replace(" ", "")
    ok = ("normal_multipliers=_np.zeros(number_of_elements,dtype=_np.int32)" in s and "normal_multipliers[element_index]=-1" in s and "normal_multipliers[element_index]=1" in s
          and "ifgrid.domain_indices[element_index]inswapped_normals:" in s)
    r.check(ok, "_process_segments", SP, fn.name, fn.lineno, "normal multiplier assignment", "the two-branch assignment (-1 if domain index in swapped_normals else +1) changed")


def rwg_sign_rule(ctx):
    fn = ctx.repo.mod(MS).fn("_compute_rwg0_space_data")
    r = ctx.rule("RWG-SIGN", "edge function sign: +1 on a single-neighbour edge, +1/-1 on the two neighbours by `element == min(neighbours)` (antisymmetric)", 1)
    found = None
    for st in ast.walk(fn):
        if isinstance(st, ast.If) and isinstance(st.test, ast.Compare):
            t = unparse(st.test).replace(" ", "")
            if t == "len(supported_neighbors)==1" and st.orelse:
                found = st
    ok = False
    if found is not None:
        b = unparse(found.body[0]).replace(" ", "")
        e = unparse(found.orelse[0]).replace(" ", "")
        ok = b == "local_multipliers[element_index,local_index]=1" and e == "local_multipliers[element_index,local_index]=1ifelement_index==min(supported_neighbors)else-1"
    r.check(ok, "_compute_rwg0_space_data", MS, fn.name, found.lineno if found else fn.lineno, "rwg sign rule", "sign rule is no longer `1 if single neighbour else (1 if element == min(neighbours) else -1)`")
