"""Rules about function spaces (api/space/*.py) shared by C02, C03, C04, C09, C13."""

import ast

from . import roles, symex
from .alg import V
from .core import AnalysisError
from .src import arg_names, calls_in, unparse
from .symex import Arr, Interp, Opq, opaque_atom, tov

SP = "bempp_cl/api/space/space.py"
SS = "bempp_cl/api/space/scalar_spaces.py"
MS = "bempp_cl/api/space/maxwell_spaces.py"


def _init_fn(ctx):
    return ctx.repo.mod(SP).fn("FunctionSpace.__init__")


def coefficient_maps(ctx):
    """map_to_full_grid / map_to_localised_space: COO triplets (multiplier, row = local slot, col = global dof)."""
    m = ctx.repo.mod(SP)
    fn = _init_fn(ctx)
    r = ctx.rule("SPACE-MAPS", "map_to_full_grid[nshape*element + i, local2global[element, i]] = local_multipliers[element, i] over the support (and the localised analogue)", 6)
    defs = roles.Defs(fn)
    found = {}
    for st in ast.walk(fn):
        if isinstance(st, ast.Assign) and isinstance(st.targets[0], ast.Attribute) and st.targets[0].attr in ("_map_to_full_grid", "_map_to_localised_space"):
            found[st.targets[0].attr] = st
    for attr in ("_map_to_full_grid", "_map_to_localised_space"):
        if attr not in found:
            raise AnalysisError("FunctionSpace.__init__ no longer builds %s" % attr)
        st = found[attr]
        call = st.value
        while isinstance(call, ast.Call) and isinstance(call.func, ast.Attribute) and call.func.attr in ("tocsr", "tocsc"):
            call = call.func.value
        if not (isinstance(call, ast.Call) and unparse(call.func).endswith("coo_matrix") and isinstance(call.args[0], ast.Tuple)):
            raise AnalysisError("%s is not built from a coo_matrix triplet" % attr)
        data, (rows, cols) = call.args[0].elts[0], call.args[0].elts[1].elts
        d, c = roles.canon(data, defs).replace(" ", ""), roles.canon(cols, defs).replace(" ", "")
        r.check(d == "self._local_multipliers[self._support].ravel()", "%s data" % attr, SP, fn.name, st.lineno, "%s data = %s" % (attr, d),
                "entries are `%s`, expected the local multipliers of the support elements" % d)
        r.check(c == "self._local2global_map[self._support].ravel()", "%s cols" % attr, SP, fn.name, st.lineno, "%s cols = %s" % (attr, c),
                "column indices are `%s`, expected local2global of the support elements" % c)
        # rows: evaluate symbolically at slot s = nshape*k + l
        symex.reset()
        NS, NK = opaque_atom("#nshape"), opaque_atom("#support")
        se = Arr("support_elements", "input", ndim=1, shape=[NK])
        selfo = Opq("self", "self")

        def attr_h(it, base, at, node):
            if base is selfo and at == "_support_elements":
                return se
            if base is selfo and at == "_number_of_support_elements":
                return NK
            return None

        it = Interp(m, fn, {"self": selfo, "nshape_fun": NS}, {"globals": {"_np": Opq("_np", "module")}, "attr": attr_h})
        k, l = symex.fresh("k"), symex.fresh("l")
        symex.RANGES[k], symex.RANGES[l] = NK, NS
        slot = NS * V.atom(k) + V.atom(l)
        rv = it.ev(rows)
        got = tov(it.index(rv, [slot], fn))
        want = (NS * opaque_atom("support_elements", [V.atom(k)]) + V.atom(l)) if attr == "_map_to_full_grid" else slot
        r.check(got.eq(want), "%s rows" % attr, SP, fn.name, st.lineno, "%s rows[slot] = %r" % (attr, got),
                "row of local slot (k-th support element, local dof l) is %r, expected %r" % (got, want))


def dense_potential_evaluator(ctx):
    rel = "bempp_cl/core/dense_potential_assembler.py"
    m = ctx.repo.mod(rel)
    fn = m.fn("DensePotentialAssembler.__init__")
    r = ctx.rule("POT-COEFFS", "dense potential evaluator feeds map_to_full_grid @ (dof_transformation @ x) to the kernel launched on the localised space", 3)
    inner = [n for n in ast.walk(fn) if isinstance(n, ast.FunctionDef) and n is not fn]
    if len(inner) != 1:
        raise AnalysisError("DensePotentialAssembler.__init__: evaluator closure not found")
    defs = roles.Defs(fn, extra_scopes=inner)
    x = arg_names(inner[0])[0]
    calls = [c for c in calls_in(inner[0]) if isinstance(c.func, ast.Name) and c.func.id == "implementation"]
    if len(calls) != 1:
        raise AnalysisError("potential evaluator does not call the implementation exactly once")
    got = roles.canon(calls[0].args[0], defs).replace(" ", "")
    want = "(self.space.map_to_full_grid@(self.space.dof_transformation@%s))" % x
    r.check(got == want, "evaluator argument", rel, fn.name, calls[0].lineno, "potential evaluator argument " + got, "kernel receives `%s`, expected `%s`" % (got, want))
    pa = arg_names(fn)
    disp = [c for c in calls_in(fn) if unparse(c.func).endswith("potential_dispatcher")]
    okd = len(disp) == 1 and [roles.canon(a, defs) for a in disp[0].args] == [pa[4], "%s.localised_space" % pa[1], pa[2], pa[3], pa[5]]
    r.check(okd, "dispatcher arguments", rel, fn.name, disp[0].lineno if disp else fn.lineno, "potential dispatcher args %s" % ([unparse(a) for a in disp[0].args] if disp else None),
            "potential_dispatcher must receive (device_interface, space.localised_space, operator_descriptor, points, parameters)")
    ass = [s for s in ast.walk(fn) if isinstance(s, ast.Assign) and unparse(s.targets[0]) == "self.space"]
    r.check(len(ass) == 1 and unparse(ass[0].value) == pa[1], "self.space", rel, fn.name, fn.lineno, "self.space binding", "self.space is not the space passed to the constructor")


def normal_multipliers(ctx):
    """_process_segments: multiplier -1 exactly for elements whose domain index is in swapped_normals, +1 otherwise."""
    m = ctx.repo.mod(SP)
    fn = m.fn("_process_segments")
    r = ctx.rule("NORMAL-MULT", "_process_segments: normal multiplier is -1 exactly on elements whose domain index is in swapped_normals, +1 elsewhere", 1)
    defs = roles.Defs(fn)
    pa = arg_names(fn)
    rets = [s for s in fn.body if isinstance(s, ast.Return)]
    ok, why = False, "does not return (support, normal_multipliers) from locals"
    if len(rets) == 1 and isinstance(rets[0].value, ast.Tuple) and len(rets[0].value.elts) == 2 and isinstance(rets[0].value.elts[1], ast.Name):
        N = rets[0].value.elts[1].id
        S = [s for s in roles.stores(fn.body, defs, lv=False) if isinstance(s.tnode, ast.Subscript) and unparse(s.tnode.value) == N]
        vals = {}
        why = "multiplier stores %s" % [repr(s)[-40:] for s in S]
        if len(S) == 2 and all(len(s.loops) == 1 and isinstance(s.loops[0].target, ast.Name) and len(s.guards) == 1 for s in S) and S[0].loops == S[1].loops:
            lp = S[0].loops[0]
            e = lp.target.id
            full = roles.canon(lp.iter, defs).replace(" ", "") in (roles.expect("range(G.number_of_elements)", defs, lp.lineno, lv=False, G=pa[0]),
                                                                   roles.expect("range(G.elements.shape[1])", defs, lp.lineno, lv=False, G=pa[0]))
            test = roles.expect("G.domain_indices[E] in SW", defs, lp.lineno, lv=False, G=pa[0], E=e, SW=pa[3])
            for s in S:
                if s.guards[0][0] == test and unparse(s.tnode.slice) == e and isinstance(s.vnode, (ast.Constant, ast.UnaryOp)):
                    vals[s.guards[0][1]] = ast.literal_eval(s.vnode)
            ok = full and vals == {True: -1, False: 1}
            why = "loop over all elements: %s; multiplier where `domain index in swapped_normals`: %s, elsewhere: %s (must be -1 / +1)" % (full, vals.get(True), vals.get(False))
    r.check(ok, "_process_segments", SP, fn.name, fn.lineno, "normal multiplier assignment", why)


def rwg_sign_rule(ctx):
    fn = ctx.repo.mod(MS).fn("_compute_rwg0_space_data")
    r = ctx.rule("RWG-SIGN", "edge function sign: +1 on a single-neighbour edge, +1/-1 on the two neighbours by `element == min(neighbours)` (antisymmetric)", 1)
    defs = roles.Defs(fn)
    rets = [s for s in fn.body if isinstance(s, ast.Return)]
    ok, why, line = False, "multiplier array not found among the returned values", fn.lineno
    if len(rets) == 1 and isinstance(rets[0].value, ast.Tuple) and isinstance(rets[0].value.elts[-1], ast.Name):
        W = rets[0].value.elts[-1].id
        S = [s for s in roles.stores(fn.body, defs, lv=False) if isinstance(s.tnode, ast.Subscript) and unparse(s.tnode.value) == W]
        why = "expected exactly two stores to the multipliers, in the two branches of one test on the number of supported neighbours (found %d)" % len(S)
        if len(S) == 2 and S[0].guards and S[1].guards and S[0].guards[:-1] == S[1].guards[:-1] and S[0].guards[-1][0] == S[1].guards[-1][0] and S[0].loops == S[1].loops and len(S[0].loops) == 2:
            e, l = S[0].loops[0].target.id, S[0].loops[1].target.id
            line = S[0].node.lineno
            by = {s.guards[-1][1]: s for s in S}
            tgt = roles.expect("W[E, L]", defs, line, lv=False, W=W, E=e, L=l)
            # the neighbour list the test counts: supported elements adjacent to the edge
            nb = None
            t = S[0].node
            for st in ast.walk(fn):
                if isinstance(st, ast.If) and S[0].node in ast.walk(st) and S[1].node in ast.walk(st) and isinstance(st.test, ast.Compare) and isinstance(st.test.left, ast.Call) \
                        and unparse(st.test.left.func) == "len" and isinstance(st.test.comparators[0], ast.Constant) and st.test.comparators[0].value == 1 and isinstance(st.test.ops[0], ast.Eq):
                    nb = st.test.left.args[0]
            if nb is not None and True in by and False in by:
                one = isinstance(by[True].vnode, ast.Constant) and by[True].vnode.value == 1
                v = by[False].vnode
                two = (isinstance(v, ast.IfExp) and isinstance(v.body, ast.Constant) and v.body.value == 1 and isinstance(v.orelse, ast.UnaryOp) and isinstance(v.orelse.op, ast.USub)
                       and isinstance(v.orelse.operand, ast.Constant) and v.orelse.operand.value == 1
                       and roles.canon(v.test, defs).replace(" ", "") == roles.expect("E == min(N)", defs, v.lineno, lv=False, E=e, N=nb))
                ok = one and two and by[True].target == tgt and by[False].target == tgt
                why = "single supported neighbour -> %s (must be 1); two neighbours -> `%s` (must be 1 if element == min(neighbours) else -1)" % (unparse(by[True].vnode), unparse(v)[:70])
    r.check(ok, "_compute_rwg0_space_data", MS, fn.name, line, "rwg sign rule", why)
