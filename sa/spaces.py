"""Rules about function spaces (api/space/*.py) shared by C02, C03, C04, C09, C13."""

import ast
import re

from . import roles, symex
from .alg import V
from .core import AnalysisError
from .src import arg_names, calls_in, unparse
from .symex import Arr, Interp, Opq, opaque_atom, tov

SP = "bempp_cl/api/space/space.py"
SS = "bempp_cl/api/space/scalar_spaces.py"
MS = "bempp_cl/api/space/maxwell_spaces.py"


def _init_fn(ctx):
    return ctx.repo.mod(SP).fn("FunctionSpace.__init__")


def coefficient_maps(ctx):
    """map_to_full_grid / map_to_localised_space: COO triplets (multiplier, row = local slot, col = global dof)."""
    m = ctx.repo.mod(SP)
    fn = _init_fn(ctx)
    r = ctx.rule("SPACE-MAPS", "map_to_full_grid[nshape*element + i, local2global[element, i]] = local_multipliers[element, i] over the support (and the localised analogue)", 6)
    defs = roles.Defs(fn)
    found = {}
    for st in ast.walk(fn):
        if isinstance(st, ast.Assign) and isinstance(st.targets[0], ast.Attribute) and st.targets[0].attr in ("_map_to_full_grid", "_map_to_localised_space"):
            found[st.targets[0].attr] = st
    for attr in ("_map_to_full_grid", "_map_to_localised_space"):
        if attr not in found:
            raise AnalysisError("FunctionSpace.__init__ no longer builds %s" % attr)
        st = found[attr]
        call = roles.inline(st.value, defs)  # a local naming the coo_matrix (or a part of the triplet) is read through
        while isinstance(call, ast.Call) and isinstance(call.func, ast.Attribute) and call.func.attr in ("tocsr", "tocsc"):
            call = call.func.value
        if not (isinstance(call, ast.Call) and unparse(call.func).endswith("coo_matrix") and isinstance(call.args[0], ast.Tuple)):
            raise AnalysisError("%s is not built from a coo_matrix triplet" % attr)
        data, (rows, cols) = call.args[0].elts[0], call.args[0].elts[1].elts
        d, c = roles.canon(data, defs).replace(" ", ""), roles.canon(cols, defs).replace(" ", "")
        r.check(d == "self._local_multipliers[self._support].ravel()", "%s data" % attr, SP, fn.name, st.lineno, "%s data = %s" % (attr, d),
                "entries are `%s`, expected the local multipliers of the support elements" % d)
        r.check(c == "self._local2global_map[self._support].ravel()", "%s cols" % attr, SP, fn.name, st.lineno, "%s cols = %s" % (attr, c),
                "column indices are `%s`, expected local2global of the support elements" % c)
        # rows: evaluate symbolically at slot s = nshape*k + l
        symex.reset()
        NS, NK = opaque_atom("#nshape"), opaque_atom("#support")
        se = Arr("support_elements", "input", ndim=1, shape=[NK])
        selfo = Opq("self", "self")

        def attr_h(it, base, at, node):
            if base is selfo and at == "_support_elements":
                return se
            if base is selfo and at == "_number_of_support_elements":
                return NK
            if base is selfo and at in ("number_of_shape_functions", "_number_of_shape_functions"):
                return NS
            return None

        ns_locals = {s.targets[0].id: NS for s in fn.body if isinstance(s, ast.Assign) and isinstance(s.targets[0], ast.Name) and unparse(s.value).replace(" ", "") in ("self.number_of_shape_functions", "self._number_of_shape_functions")}
        it = Interp(m, fn, {"self": selfo, **ns_locals}, {"globals": {"_np": Opq("_np", "module")}, "attr": attr_h})
        k, l = symex.fresh("k"), symex.fresh("l")
        symex.RANGES[k], symex.RANGES[l] = NK, NS
        slot = NS * V.atom(k) + V.atom(l)
        rv = it.ev(rows)
        got = tov(it.index(rv, [slot], fn))
        want = (NS * opaque_atom("support_elements", [V.atom(k)]) + V.atom(l)) if attr == "_map_to_full_grid" else slot
        r.check(got.eq(want), "%s rows" % attr, SP, fn.name, st.lineno, "%s rows[slot] = %r" % (attr, got),
                "row of local slot (k-th support element, local dof l) is %r, expected %r" % (got, want))


def dense_potential_evaluator(ctx):
    rel = "bempp_cl/core/dense_potential_assembler.py"
    m = ctx.repo.mod(rel)
    fn = m.fn("DensePotentialAssembler.__init__")
    r = ctx.rule("POT-COEFFS", "dense potential evaluator feeds map_to_full_grid @ (dof_transformation @ x) to the kernel launched on the localised space", 3)
    inner = [n for n in ast.walk(fn) if isinstance(n, ast.FunctionDef) and n is not fn]
    if len(inner) != 1:
        raise AnalysisError("DensePotentialAssembler.__init__: evaluator closure not found")
    defs = roles.Defs(fn, extra_scopes=inner)
    x = arg_names(inner[0])[0]
    # the kernel launch: the local bound to the result of potential_dispatcher(...)
    impl = {s.targets[0].id for s in fn.body if isinstance(s, ast.Assign) and isinstance(s.targets[0], ast.Name) and isinstance(s.value, ast.Call) and unparse(s.value.func).endswith("potential_dispatcher")}
    calls = [c for c in calls_in(inner[0]) if isinstance(c.func, ast.Name) and c.func.id in impl]
    if len(calls) != 1:
        raise AnalysisError("potential evaluator does not call the implementation exactly once")
    got = roles.canon(calls[0].args[0], defs).replace(" ", "")
    want = "(self.space.map_to_full_grid@(self.space.dof_transformation@%s))" % x
    r.check(got == want, "evaluator argument", rel, fn.name, calls[0].lineno, "potential evaluator argument " + got, "kernel receives `%s`, expected `%s`" % (got, want))
    pa = arg_names(fn)
    disp = [c for c in calls_in(fn) if unparse(c.func).endswith("potential_dispatcher")]
    okd = len(disp) == 1 and [roles.canon(a, defs) for a in disp[0].args] == [pa[4], "%s.localised_space" % pa[1], pa[2], pa[3], pa[5]]
    r.check(okd, "dispatcher arguments", rel, fn.name, disp[0].lineno if disp else fn.lineno, "potential dispatcher args %s" % ([unparse(a) for a in disp[0].args] if disp else None),
            "potential_dispatcher must receive (device_interface, space.localised_space, operator_descriptor, points, parameters)")
    ass = [s for s in ast.walk(fn) if isinstance(s, ast.Assign) and unparse(s.targets[0]) == "self.space"]
    r.check(len(ass) == 1 and unparse(ass[0].value) == pa[1], "self.space", rel, fn.name, fn.lineno, "self.space binding", "self.space is not the space passed to the constructor")


def normal_multipliers(ctx):
    """_process_segments: multiplier -1 exactly for elements whose domain index is in swapped_normals, +1 otherwise."""
    m = ctx.repo.mod(SP)
    fn = m.fn("_process_segments")
    r = ctx.rule("NORMAL-MULT", "_process_segments: normal multiplier is -1 exactly on elements whose domain index is in swapped_normals, +1 elsewhere", 1)
    defs = roles.Defs(fn)
    pa = arg_names(fn)
    rets = [s for s in fn.body if isinstance(s, ast.Return)]
    ok, why = False, "does not return (support, normal_multipliers) from locals"
    if len(rets) == 1 and isinstance(rets[0].value, ast.Tuple) and len(rets[0].value.elts) == 2 and isinstance(rets[0].value.elts[1], ast.Name):
        N = rets[0].value.elts[1].id
        S = [s for s in roles.stores(fn.body, defs, lv=False) if isinstance(s.tnode, ast.Subscript) and unparse(s.tnode.value) == N]
        vals = {}
        why = "multiplier stores %s" % [repr(s)[-40:] for s in S]
        if len(S) == 2 and all(len(s.loops) == 1 and isinstance(s.loops[0].target, ast.Name) and len(s.guards) == 1 for s in S) and S[0].loops == S[1].loops:
            lp = S[0].loops[0]
            e = lp.target.id
            full = roles.canon(lp.iter, defs).replace(" ", "") in (roles.expect("range(G.number_of_elements)", defs, lp.lineno, lv=False, G=pa[0]),
                                                                   roles.expect("range(G.elements.shape[1])", defs, lp.lineno, lv=False, G=pa[0]))
            test = roles.expect("G.domain_indices[E] in SW", defs, lp.lineno, lv=False, G=pa[0], E=e, SW=pa[3])
            for s in S:
                if s.guards[0][0] == test and unparse(s.tnode.slice) == e and isinstance(s.vnode, (ast.Constant, ast.UnaryOp)):
                    vals[s.guards[0][1]] = ast.literal_eval(s.vnode)
            ok = full and vals == {True: -1, False: 1}
            why = "loop over all elements: %s; multiplier where `domain index in swapped_normals`: %s, elsewhere: %s (must be -1 / +1)" % (full, vals.get(True), vals.get(False))
        elif len(S) == 1 and not S[0].loops and not S[0].guards:
            # vectorised form: N = ones(#elements); N[isin(domain_indices, <swapped normals as a sequence>)] = -1
            from .rwgdofs import _sentinel

            alloc = [s for s in fn.body if isinstance(s, ast.Assign) and unparse(s.targets[0]) == N]
            sl = S[0].tnode.slice
            is_in = isinstance(sl, ast.Call) and unparse(sl.func).split(".")[-1] in ("isin", "in1d") and len(sl.args) >= 2 and not any(k.arg == "invert" for k in sl.keywords)
            if not (len(alloc) == 1 and _sentinel(alloc[0].value, fn) == 1 and is_in and roles.canon(sl.args[0], defs).replace(" ", "") == "%s.domain_indices" % pa[0]):
                raise AnalysisError("_process_segments: vectorised multiplier assignment of a shape the rule does not know")
            members = sl.args[1]
            raw = isinstance(members, ast.Name) and members.id == pa[3]
            conv = isinstance(members, ast.Call) and unparse(members.func).split(".")[-1] in ("list", "tuple", "sorted", "array", "asarray", "fromiter") and members.args and (
                unparse(members.args[0]) == pa[3] or (isinstance(members.args[0], ast.Call) and unparse(members.args[0].func) in ("list", "tuple", "sorted") and unparse(members.args[0].args[0]) == pa[3]))
            if not (raw or conv):
                raise AnalysisError("_process_segments: membership is tested against `%s`" % unparse(members)[:60])
            val = ast.literal_eval(S[0].vnode) if isinstance(S[0].vnode, (ast.Constant, ast.UnaryOp)) else None
            ok = conv and val == -1
            why = ("multipliers start at 1 and are set to %s where %s(domain_indices, %s); " % (val, unparse(sl.func), unparse(members))) + (
                "" if conv else "the membership test receives the caller's collection as it is: for a set, frozenset or dict (the function's own default is `{}`) NumPy compares every domain index with the collection as ONE object, so no element is swapped")
        elif not S:
            # whole-array form: N = where(isin(domain_indices, <members>), -1, 1)[.astype(..)]
            alloc = [s for s in fn.body if isinstance(s, ast.Assign) and unparse(s.targets[0]) == N]
            w = alloc[0].value if len(alloc) == 1 else None
            while isinstance(w, ast.Call) and isinstance(w.func, ast.Attribute) and w.func.attr in ("astype", "copy", "ravel"):
                w = w.func.value
            if not (isinstance(w, ast.Call) and unparse(w.func).split(".")[-1] == "where" and len(w.args) == 3 and isinstance(w.args[0], ast.Call)
                    and unparse(w.args[0].func).split(".")[-1] in ("isin", "in1d") and len(w.args[0].args) >= 2 and not w.args[0].keywords
                    and roles.canon(w.args[0].args[0], defs).replace(" ", "") == "%s.domain_indices" % pa[0]):
                raise AnalysisError("_process_segments: multiplier assignment of a shape the rule does not know (%s)" % why)
            members = w.args[0].args[1]
            raw = isinstance(members, ast.Name) and members.id == pa[3]
            conv = isinstance(members, ast.Call) and unparse(members.func).split(".")[-1] in ("list", "tuple", "sorted", "array", "asarray", "fromiter") and members.args and (
                unparse(members.args[0]) == pa[3] or (isinstance(members.args[0], ast.Call) and unparse(members.args[0].func) in ("list", "tuple", "sorted") and unparse(members.args[0].args[0]) == pa[3]))
            if not (raw or conv):
                raise AnalysisError("_process_segments: membership is tested against `%s`" % unparse(members)[:60])
            try:
                vals = (ast.literal_eval(w.args[1]), ast.literal_eval(w.args[2]))
            except ValueError:
                raise AnalysisError("_process_segments: where(...) branches are not literals")
            ok = conv and vals == (-1, 1)
            why = ("multipliers are where(isin(domain_indices, %s), %s, %s); " % (unparse(members), vals[0], vals[1])) + (
                "" if conv else "the membership test receives the caller's collection as it is: for a set, frozenset or dict (the function's own default is `{}`) NumPy compares every domain index with the collection as ONE object, so no element is swapped")
        else:
            raise AnalysisError("_process_segments: multiplier assignment of a shape the rule does not know (%s)" % why)
    r.check(ok, "_process_segments", SP, fn.name, fn.lineno, "normal multiplier assignment", why)


def rwg_sign_rule(ctx):
    fn = ctx.repo.mod(MS).fn("_compute_rwg0_space_data")
    r = ctx.rule("RWG-SIGN", "edge function sign: +1 on a single-neighbour edge, +1/-1 on the two neighbours by `element == min(neighbours)` (antisymmetric)", 1)
    defs = roles.Defs(fn)
    rets = [s for s in fn.body if isinstance(s, ast.Return)]
    ok, why, line = None, "multiplier array not found among the returned values", fn.lineno
    if len(rets) == 1 and isinstance(rets[0].value, ast.Tuple) and isinstance(rets[0].value.elts[-1], ast.Name):
        W = rets[0].value.elts[-1].id
        S = [s for s in roles.stores(fn.body, defs, lv=False) if isinstance(s.tnode, ast.Subscript) and unparse(s.tnode.value) == W]
        why = "expected exactly two stores to the multipliers, in the two branches of one test on the number of supported neighbours (found %d)" % len(S)
        if len(S) == 2 and S[0].guards and S[1].guards and S[0].guards[:-1] == S[1].guards[:-1] and S[0].guards[-1][0] == S[1].guards[-1][0] and S[0].loops == S[1].loops and len(S[0].loops) == 2:
            e, l = S[0].loops[0].target.id, S[0].loops[1].target.id
            line = S[0].node.lineno
            by = {s.guards[-1][1]: s for s in S}
            tgt = roles.expect("W[E, L]", defs, line, lv=False, W=W, E=e, L=l)
            # the neighbour list the test counts: supported elements adjacent to the edge
            nb = None
            t = S[0].node
            for st in ast.walk(fn):
                if isinstance(st, ast.If) and S[0].node in ast.walk(st) and S[1].node in ast.walk(st) and isinstance(st.test, ast.Compare) and isinstance(st.test.left, ast.Call) \
                        and unparse(st.test.left.func) == "len" and isinstance(st.test.comparators[0], ast.Constant) and st.test.comparators[0].value == 1 and isinstance(st.test.ops[0], ast.Eq):
                    nb = st.test.left.args[0]
            if nb is not None and True in by and False in by:
                one = isinstance(by[True].vnode, ast.Constant) and by[True].vnode.value == 1
                v = by[False].vnode
                two = (isinstance(v, ast.IfExp) and isinstance(v.body, ast.Constant) and v.body.value == 1 and isinstance(v.orelse, ast.UnaryOp) and isinstance(v.orelse.op, ast.USub)
                       and isinstance(v.orelse.operand, ast.Constant) and v.orelse.operand.value == 1
                       and roles.canon(v.test, defs).replace(" ", "") == roles.expect("E == min(N)", defs, v.lineno, lv=False, E=e, N=nb))
                ok = one and two and by[True].target == tgt and by[False].target == tgt
                why = "single supported neighbour -> %s (must be 1); two neighbours -> `%s` (must be 1 if element == min(neighbours) else -1)" % (unparse(by[True].vnode), unparse(v)[:70])
                # antisymmetry needs both neighbours of an edge to count the SAME list: the elements adjacent to the edge that
                # are in the support the function returns (the final one), not in a copy taken at another moment
                SUP = rets[0].value.elts[1].id if len(rets[0].value.elts) == 4 and isinstance(rets[0].value.elts[1], ast.Name) else None
                lst = nb
                seen = 0
                while isinstance(lst, ast.Name) and seen < 5:
                    dd = defs.lookup(lst.id, nb.lineno)
                    lst = dd[1] if dd and dd[0] == "expr" else None
                    seen += 1
                flt = None
                if isinstance(lst, ast.ListComp) and len(lst.generators) == 1 and len(lst.generators[0].ifs) == 1 and isinstance(lst.generators[0].target, ast.Name):
                    g0 = lst.generators[0]
                    cond = g0.ifs[0]
                    if isinstance(cond, ast.Subscript) and isinstance(cond.value, ast.Name) and isinstance(cond.slice, ast.Name) and cond.slice.id == g0.target.id and isinstance(lst.elt, ast.Name) and lst.elt.id == g0.target.id:
                        flt = cond.value.id
                        pa = arg_names(fn)
                        edge = roles.expect("EE[L, E]", defs, nb.lineno, lv=False, EE="element_edges" if "element_edges" in pa else pa[3], L=l, E=e)
                        it = g0.iter
                        seen = 0
                        while isinstance(it, ast.Name) and seen < 5:
                            dd = defs.lookup(it.id, nb.lineno)
                            it = dd[1] if dd and dd[0] == "expr" else None
                            seen += 1
                        it_ok = (isinstance(it, ast.Subscript) and isinstance(it.slice, ast.Slice) and isinstance(it.slice.lower, ast.Subscript)
                                 and roles.canon(it.slice.lower.slice, defs).replace(" ", "") == edge
                                 and roles.canon(it, defs).replace(" ", "") == roles.expect("NB[PTR[X]:PTR[1 + X]]", defs, nb.lineno, lv=False, NB=pa[1], PTR=pa[2], X=it.slice.lower.slice))
                        if not it_ok:
                            flt = None
                if flt is not None and flt != SUP:
                    dd = defs.alloc(flt, nb.lineno)  # a plain alias `x = support` is the same array
                    if dd and dd[0] == "expr" and isinstance(dd[1], ast.Name) and dd[1].id == SUP:
                        flt = SUP
                sup_ok = SUP is not None and flt == SUP
                ok = ok and sup_ok
                why += "; neighbour list = elements adjacent to this edge that are in the returned support `%s`: %s (filtered by `%s`)" % (SUP, sup_ok, flt)
    r.check(ok, "_compute_rwg0_space_data", MS, fn.name, line, "rwg sign rule", why)


def dof_by_entity(ctx):
    """Conformity by construction: a real (non-zero multiplier) global dof is a function of the geometric entity only
    (P1: the vertex, RWG/SNC: the edge), and distinct entities get distinct dofs."""
    SS = "bempp_cl/api/space/scalar_spaces.py"
    r = ctx.rule("DOF-BY-ENTITY", "continuous spaces: the global dof stored at (element, local index) is an injective function of the vertex (P1) / edge (RWG, SNC) found at that position", 6)
    # ---------------- P1
    fn = ctx.repo.mod(SS).fn("_compute_p1_dof_map")
    defs = roles.Defs(fn)
    pa = arg_names(fn)
    G = pa[0]
    S = roles.stores(fn.body, defs, lv=False)
    rets = [s for s in fn.body if isinstance(s, ast.Return)]
    if len(rets) != 1 or not isinstance(rets[0].value, ast.Tuple) or not isinstance(rets[0].value.elts[0], ast.Name):
        raise AnalysisError("_compute_p1_dof_map: return tuple not recognised")
    R = rets[0].value.elts[0].id
    W = rets[0].value.elts[1].id
    real = []
    for s in S:
        if s.op == "=" and isinstance(s.tnode, ast.Subscript) and unparse(s.tnode.value) == R and isinstance(s.tnode.slice, ast.Tuple):
            comp = [w for w in S if isinstance(w.tnode, ast.Subscript) and unparse(w.tnode.value) == W and unparse(w.tnode.slice) == unparse(s.tnode.slice) and w.loops == s.loops and w.guards == s.guards
                    and isinstance(w.vnode, ast.Constant) and w.vnode.value == 1]
            if comp:
                real.append(s)
    ok_final, why_final, VMAP, DOFS = False, "no store of a real dof (with multiplier 1) found", None, None
    if len(real) == 1:
        s = real[0]
        e, l = (x.id for x in s.tnode.slice.elts)
        v = s.vnode
        # value: DOFS[VMAP[e, l]] through single-definition locals
        seen = 0
        while isinstance(v, ast.Name) and seen < 5:
            d = defs.lookup(v.id, v.lineno)
            v = d[1] if d and d[0] == "expr" else v
            seen += 1
        if isinstance(v, ast.Subscript) and isinstance(v.value, ast.Name):
            inner = v.slice
            seen = 0
            while isinstance(inner, ast.Name) and seen < 5:
                d = defs.lookup(inner.id, inner.lineno)
                inner = d[1] if d and d[0] == "expr" else inner
                seen += 1
            if isinstance(inner, ast.Subscript) and isinstance(inner.value, ast.Name) and unparse(inner.slice).replace(" ", "").strip("()") == "%s,%s" % (e, l):
                DOFS, VMAP = v.value.id, inner.value.id
                ok_final = True
        why_final = "the real dof stored at (element, local) is `%s`: expected <dof table>[<vertex table>[element, local]]" % unparse(s.vnode)
    r.check(ok_final, "P1 final map = dofs[vertex at (element, local)]", SS, fn.name, real[0].node.lineno if real else fn.lineno, "p1 dof by vertex (final)", why_final)
    if ok_final:
        # the vertex table holds, at (element, local), the vertex found at that position of the element
        vst = [s for s in S if s.op == "=" and isinstance(s.tnode, ast.Subscript) and unparse(s.tnode.value) == VMAP and isinstance(s.tnode.slice, ast.Tuple)]
        good, bad = 0, []
        for s in vst:
            a, b = s.tnode.slice.elts
            val = roles.canon(s.vnode, defs).replace(" ", "")
            if isinstance(a, ast.Name) and isinstance(b, ast.Name) and val == roles.expect("G.elements[L, E]", defs, s.node.lineno, lv=False, G=G, L=b.id, E=a.id):
                good += 1  # own vertex
                continue
            bb = roles.canon(b, defs).replace(" ", "")
            if isinstance(a, ast.Name) and bb == roles.expect("find_index(G.elements[:, E], X)", defs, s.node.lineno, lv=False, G=G, E=a.id, X=s.vnode):
                good += 1  # the position of that very vertex in the neighbouring element
                continue
            bad.append(unparse(s.node)[:70])
        r.check(good >= 1 and not bad, "P1 vertex table holds the vertex at that position", SS, fn.name, vst[0].node.lineno if vst else fn.lineno, "p1 vertex table", "stores that put a vertex at a position where the element does not have it: %s" % bad)
        fi = [n for n in fn.body if isinstance(n, ast.FunctionDef) and n.name == "find_index"]
        okf = False
        if len(fi) == 1:
            fd = roles.Defs(fi[0])
            fr = [s for s in roles.stores(fi[0].body, fd, lv=False) if s.op == "return" and s.loops]
            fa = arg_names(fi[0])
            okf = len(fr) == 1 and isinstance(fr[0].loops[0].target, ast.Tuple) and roles.canon(fr[0].loops[0].iter, fd) == "enumerate(%s)" % fa[0] \
                and fr[0].value == fr[0].loops[0].target.elts[0].id and fr[0].guards == ((roles.expect("V == X", fd, fr[0].node.lineno, lv=False, V=fr[0].loops[0].target.elts[1].id, X=fa[1]), True),)
        r.check(okf, "find_index returns the position of the value", SS, "find_index", fi[0].lineno if fi else fn.lineno, "p1 find_index", "find_index does not return i with array[i] == value")
        dst = [s for s in S if s.op == "=" and isinstance(s.tnode, ast.Subscript) and unparse(s.tnode.value) == DOFS]
        okd = len(dst) == 1 and not dst[0].loops and not dst[0].guards and isinstance(dst[0].tnode.slice, ast.Name) \
            and dst[0].value == roles.expect("_np.arange(len(U))", defs, dst[0].node.lineno, lv=False, U=dst[0].tnode.slice.id)
        r.check(okd, "P1 dof table is arange over the used vertices (injective)", SS, fn.name, dst[0].node.lineno if dst else fn.lineno, "p1 dof numbering", "dof numbers are `%s`" % (dst[0].value[:80] if dst else None))
    # ---------------- RWG / SNC
    fn = ctx.repo.mod(MS).fn("_compute_rwg0_space_data")
    defs = roles.Defs(fn)
    pa = arg_names(fn)
    S = roles.stores(fn.body, defs, lv=False)
    rets = [s for s in fn.body if isinstance(s, ast.Return)]
    R = rets[0].value.elts[2].id if rets and isinstance(rets[0].value, ast.Tuple) and len(rets[0].value.elts) == 4 and isinstance(rets[0].value.elts[2], ast.Name) else None
    rows = [s for s in S if R and s.op == "=" and isinstance(s.tnode, ast.Subscript) and unparse(s.tnode.value) == R and isinstance(s.vnode, ast.Name)]
    ok_e, why_e, ED = False, "row copy into the map not found", None
    if len(rows) == 1 and isinstance(rows[0].tnode.slice, ast.Tuple) and isinstance(rows[0].tnode.slice.elts[0], ast.Name):
        buf, e = rows[0].vnode.id, rows[0].tnode.slice.elts[0].id
        real = [s for s in S if s.op == "=" and isinstance(s.tnode, ast.Subscript) and unparse(s.tnode.value) == buf and isinstance(s.tnode.slice, ast.Name)
                and not (isinstance(s.vnode, ast.Subscript) and unparse(s.vnode.value) == buf)]
        if len(real) == 1:
            l = real[0].tnode.slice.id
            val = roles.canon(real[0].vnode, defs).replace(" ", "")
            m_ = re.fullmatch(r"(\w+)\[(.+)\]", val)
            edge = roles.expect("EE[L, E]", defs, real[0].node.lineno, lv=False, EE="element_edges" if "element_edges" in pa else pa[3], L=l, E=e)
            if m_ and m_.group(2) == edge:
                ok_e, ED = True, m_.group(1)
            why_e = "the dof stored at (element, local) is `%s`: expected <edge dof table>[element_edges[local, element]]" % val
    r.check(ok_e, "RWG map = edge_dofs[edge at (element, local)]", MS, fn.name, rows[0].node.lineno if rows else fn.lineno, "rwg dof by edge", why_e)
    if ok_e:
        est = [s for s in S if s.op == "=" and isinstance(s.tnode, ast.Subscript) and unparse(s.tnode.value) == ED]
        cnts = [c for c in S if c.op == "Add=" and isinstance(c.tnode, ast.Name) and c.value == "1"]
        fresh = bool(est)
        for s in est:
            same_block = any(c.target == unparse(s.vnode) and c.guards == s.guards and c.loops == s.loops and c.node.lineno > s.node.lineno for c in cnts)
            fresh = fresh and same_block
        r.check(fresh, "RWG edge dofs are fresh counter values (injective)", MS, fn.name, est[0].node.lineno if est else fn.lineno, "rwg dof numbering", "an edge dof is not the running counter incremented right after the assignment")


def builder_chains(fn):
    """[(grid argument, {setter: argument node}, build call)] of every SpaceBuilder(...).set_x(...)...build() chain."""
    out = []
    for n in ast.walk(fn):
        if isinstance(n, ast.Call) and isinstance(n.func, ast.Attribute) and n.func.attr == "build":
            d, cur = {}, n.func.value
            while isinstance(cur, ast.Call) and isinstance(cur.func, ast.Attribute):
                d[cur.func.attr] = cur.args[0] if cur.args else None
                cur = cur.func.value
            if isinstance(cur, ast.Call) and unparse(cur.func) == "SpaceBuilder" and cur.args:
                out.append((cur.args[0], d, n))
    return out


def localised_inherit(ctx):
    """make_localised_space(space): the element-local companion every assembler integrates on.  It must carry the space's
    own geometry-side tables (support, normal multipliers, shapeset, evaluators ...) and the identity dof map."""
    SPC = "bempp_cl/api/space/space.py"
    r = ctx.rule("LOCALISED-INHERIT", "the localised space (what dense / potential assemblers integrate on) has the parent's grid, codomain dimension, support, normal multipliers, order, shapeset, evaluator, surface gradient / curl and barycentric flag, "
                 "and the identity dof map with unit multipliers on the support", 3)
    fn = ctx.repo.mod(SPC).fn("make_localised_space")
    S = arg_names(fn)[0]
    cs = builder_chains(fn)
    if len(cs) != 1:
        raise AnalysisError("make_localised_space: no single SpaceBuilder chain")
    g, d, node = cs[0]
    defs = roles.Defs(fn)
    ex = lambda src: roles.expect(src, defs, node.lineno, lv=False, S=S)
    can = lambda n: roles.canon(n, defs).replace(" ", "") if n is not None else None
    want = {
        "set_codomain_dimension": ["S.codomain_dimension"], "set_support": ["S.support"], "set_normal_multipliers": ["S.normal_multipliers"], "set_order": ["S.order"],
        "set_shapeset": ["S.shapeset.identifier"], "set_is_localised": ["True"], "set_numba_evaluator": ["S.numba_evaluate"], "set_is_barycentric": ["S.is_barycentric"],
        "set_numba_surface_gradient": ["S.numba_surface_gradient if S.has_surface_gradient else None", "S.numba_surface_gradient"],
        "set_numba_surface_curl": ["S.numba_surface_curl if S.has_surface_curl else None", "S.numba_surface_curl"],
    }
    bad = []
    if can(g) != ex("S.grid"):
        bad.append("built on `%s`, expected the parent's grid" % can(g))
    for setter, alts in want.items():
        if setter not in d:
            bad.append("%s is not set: the builder's default (%s) replaces the parent's value" % (setter[4:], "all normal multipliers 1" if setter == "set_normal_multipliers" else "default"))
        elif can(d[setter]) not in [ex(a) for a in alts]:
            bad.append("%s is `%s`, expected `%s`" % (setter[4:], (can(d[setter]) or "")[:70], alts[0].replace("S.", S + ".")))
    r.check(not bad, "inherited tables", SPC, fn.name, node.lineno, "localised space inherits the parent's tables", "; ".join(bad))
    # identity dof map on the support
    St = roles.stores(fn.body, defs, lv=False)
    n_loc, n_sup = "S.number_of_shape_functions", "S.number_of_support_elements"
    ident = {ex("_np.arange(%s * %s).reshape((%s, %s))" % (n_loc, n_sup, n_sup, n_loc)), ex("_np.arange(%s * %s).reshape((%s, %s))" % (n_sup, n_loc, n_sup, n_loc)),
             ex("_np.arange(%s * %s).reshape(%s, %s)" % (n_loc, n_sup, n_sup, n_loc))}
    for setter, val_ok, what in (("set_local2global", lambda v: v in ident, "arange(shape functions x support elements) reshaped (support elements, shape functions)"), ("set_local_multipliers", lambda v: v in ("1", "1.0"), "1")):
        arr = d.get(setter)
        ok, why = False, "%s is not a local array" % setter[4:]
        if isinstance(arr, ast.Name):
            alloc = [s for s in St if s.op == "=" and s.target == arr.id and not s.loops and not s.guards]
            fills = [s for s in St if isinstance(s.tnode, ast.Subscript) and unparse(s.tnode.value) == arr.id]
            shape_ok = len(alloc) == 1 and isinstance(alloc[0].vnode, ast.Call) and unparse(alloc[0].vnode.func).split(".")[-1] == "zeros" and alloc[0].vnode.args \
                and can(alloc[0].vnode.args[0]) == ex("(S.grid.number_of_elements, %s)" % n_loc)
            fill_ok = len(fills) == 1 and fills[0].op == "=" and not fills[0].loops and not fills[0].guards and can(fills[0].tnode.slice) == ex("S.support") and val_ok(fills[0].value)
            ok = bool(shape_ok and fill_ok)
            why = "allocated zeros((elements, shape functions)): %s; rows of the support set to %s: %s (found %s)" % (bool(shape_ok), what, bool(fill_ok), [(s.target[-40:], s.value[:80]) for s in fills])
        r.check(ok, setter[4:], SPC, fn.name, node.lineno, "localised %s" % setter[4:], why)


# what each returned local of a dof-map builder is, by its name (the builders return bare tuples)
_ROLE_WORDS = (("local2global", "set_local2global"), ("multipliers", "set_local_multipliers"), ("support", "set_support"))


def builder_roles(ctx):
    """Constructor plumbing of the primal spaces: support and normal multipliers come from the same
    _process_segments(grid, support_elements, segments, swapped_normals) call; the three tables of a continuous space
    come from ONE call of its dof-map builder, each setter receiving the returned value of its own kind; all spaces
    with the same identifier use the same evaluator, codomain dimension and order."""
    DS = "bempp_cl/api/space/scalar_dual_spaces.py"
    r = ctx.rule("BUILDER-ROLES", "space constructors: support / normal multipliers from one _process_segments call on the caller's arguments; dof-map tables from one builder call, each to the setter of its kind; one evaluator, dimension and order per identifier", 8)
    by_ident = {}
    n = 0
    for rel in (SS, DS, MS):
        m = ctx.repo.mod(rel)
        for qn, fn in m.functions.items():
            if "." in qn or "<" in qn:
                continue
            cs = builder_chains(fn)
            if len(cs) != 1:
                continue
            g, d, node = cs[0]
            defs = roles.Defs(fn)
            can = {k: (roles.canon(v, defs).replace(" ", "") if v is not None else None) for k, v in d.items()}
            ident = can.get("set_identifier")
            by_ident.setdefault(ident, []).append((rel, qn, node.lineno, can))
            gg = roles.canon(g, defs).replace(" ", "")
            if gg.endswith(".barycentric_refinement"):
                continue  # barycentric constructors: rule BARY-INHERIT
            n += 1
            pa = arg_names(fn)
            bad = []
            seg = "_process_segments(%s,support_elements,segments,swapped_normals)" % pa[0] if {"support_elements", "segments", "swapped_normals"} <= set(pa) else None
            if seg is None:
                bad.append("constructor lacks the support_elements / segments / swapped_normals arguments")
            else:
                if can.get("set_normal_multipliers") != seg + "[1]":
                    bad.append("normal multipliers are `%s`, expected %s[1]" % ((can.get("set_normal_multipliers") or "")[:80], seg))
                sup = can.get("set_support") or ""
                mcall = re.match(r"(_compute_\w+)\((.*)\)\[(\d+)\]$", sup)
                if sup == seg + "[0]":
                    pass
                elif mcall:
                    callee = m.fn(mcall.group(1)) if m.has_fn(mcall.group(1)) else None
                    rets = [s for s in callee.body if isinstance(s, ast.Return)] if callee else []
                    if not callee or len(rets) != 1 or not isinstance(rets[0].value, ast.Tuple):
                        bad.append("dof-map builder %s does not return a tuple" % mcall.group(1))
                    else:
                        names = [unparse(e) for e in rets[0].value.elts]
                        for word, setter in _ROLE_WORDS:
                            got = can.get(setter) or ""
                            mm = re.match(r"%s\((.*)\)\[(\d+)\]$" % re.escape(mcall.group(1)), got)
                            if not mm or mm.group(1) != mcall.group(2):
                                bad.append("%s does not come from the same %s call as the support" % (setter[4:], mcall.group(1)))
                            elif word not in names[int(mm.group(2))]:
                                bad.append("%s receives returned value #%s `%s` of %s" % (setter[4:], mm.group(2), names[int(mm.group(2))], mcall.group(1)))
                        # the builder is fed the support of the same _process_segments call
                        if (seg + "[0]") not in mcall.group(2):
                            bad.append("%s is not given the support of %s" % (mcall.group(1), seg))
                else:
                    bad.append("support is `%s`" % sup[:80])
            r.check(not bad, "%s::%s" % (rel.split("/")[-1], qn), rel, qn, node.lineno, "builder roles of " + qn, "; ".join(bad))
    if n < 5:
        raise AnalysisError("only %d primal space constructors with a SpaceBuilder chain found (p0, dp1, p1, rwg0, snc0)" % n)
    for ident, lst in sorted(by_ident.items(), key=lambda kv: str(kv[0])):
        if ident is None or len(lst) < 2:
            continue
        keys = ("set_codomain_dimension", "set_numba_evaluator")
        ref = {k: lst[0][3].get(k) for k in keys}
        diff = ["%s: %s=%s (vs %s in %s)" % (qn, k[4:], can.get(k), ref[k], lst[0][1]) for rel, qn, ln, can in lst[1:] for k in keys if can.get(k) != ref[k]]
        r.check(not diff, "identifier %s (%d constructors)" % (ident, len(lst)), lst[0][0], lst[0][1], lst[0][2], "siblings with identifier %s" % ident, "; ".join(diff))


def paired_defaults(ctx):
    """RWG / SNC and BC / RBC are one space and its rotation by the normal: the Maxwell operators pair them with the same
    keywords, and their matrices are symmetric only if the two spaces are built from the same options.  The public
    `function_space(grid, kind, degree, **kwargs)` hands its keywords through, so the constructors' own defaults ARE the
    defaults: the two constructors of a pair must agree in parameter names, order and default values."""
    rel = "bempp_cl/api/space/maxwell_spaces.py"
    m = ctx.repo.mod(rel)
    r = ctx.rule("SPACE-PAIR-DEFAULTS", "the constructors of a div-conforming space and of its rotated (curl-conforming) twin - rwg0 / snc0, bc / rbc - have the same parameters with the same defaults", 2)
    for a, b in (("rwg0_function_space", "snc0_function_space"), ("bc_function_space", "rbc_function_space")):
        fa, fb = m.fn(a), m.fn(b)

        def sig(f):
            names = [x.arg for x in f.args.args]
            d = f.args.defaults
            return [(n, unparse(v) if v is not None else None) for n, v in zip(names, [None] * (len(names) - len(d)) + list(d))]

        sa_, sb_ = sig(fa), sig(fb)
        diff = [(x, y) for x, y in zip(sa_, sb_) if x != y] + ([("length", len(sa_), len(sb_))] if len(sa_) != len(sb_) else [])
        r.check(not diff, "%s / %s" % (a, b), rel, b, fb.lineno, "signature of %s vs %s" % (b, a),
                "%s and %s differ in %s: the same keywords build two different spaces (support, truncation or boundary dofs), and operators that pair them are no longer symmetric" % (
                    a, b, "; ".join("%s=%s vs %s=%s" % (x[0], x[1], y[0], y[1]) for x, y in diff if isinstance(x, tuple) and len(x) == 2) or diff))
