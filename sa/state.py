"""C18: process-wide mutable state and the completeness of memo keys.

"The matrix of an operator is determined by the spaces, wavenumber, assembler, precision and parameter object given at
construction" fails as soon as a value computed from those inputs is kept in module-level state under a key that omits
one of them: a later request that differs only in the omitted input is served the stale value.

Two parts:
* inventory: every function that writes module-level mutable state (subscript store, mutating method, `global` rebind)
  is enumerated from the tree and must be one of the sites reviewed by hand (table STATE_SITES, one reason each);
* for a dict store `TABLE[key] = value` that is *not* in the table (a memo added later) the rule decides key
  completeness by a dependency analysis: the constructor / function parameters the value is computed from
  (through locals, `self` attributes, properties and `self` methods, transitively) must all occur among the parameters the
  key is computed from.  Other kinds of unreviewed state are an analysis error (the inventory needs review), never a guess.
"""

import ast

from .core import AnalysisError
from .src import unparse

MUTATORS = ("append", "update", "setdefault", "add", "pop", "clear", "extend", "remove", "insert", "popitem", "appendleft")

# (module, module-level name) -> why writes to it cannot change what an operator computes / where that is decided
STATE_SITES = {
    ("bempp_cl/api/__init__.py", "CONSOLE_LOGGING_HANDLER"): "logging handler; no numerical code reads it",
    ("bempp_cl/api/fmm/exafmm.py", "FMM_TMP_DIR"): "scratch directory for exafmm's files, created once",
    ("bempp_cl/api/fmm/fmm_assembler.py", "_FMM_CACHE"): "FMM interface cache: key completeness is rule FX-CACHE-KEY",
    ("bempp_cl/api/fmm/fmm_assembler.py", "_FMM_POTENTIAL_CACHE"): "FMM interface cache: key completeness is rule FX-CACHE-KEY",
    ("bempp_cl/api/utils/remote_operator.py", "_REMOTE_MANAGER"): "MPI remote-operator manager singleton (not on the assembly path of the properties)",
    ("bempp_cl/core/opencl_kernels.py", "_DEFAULT_CPU_CONTEXT"): "OpenCL default device selection (device choice, not a computed value)",
    ("bempp_cl/core/opencl_kernels.py", "_DEFAULT_CPU_DEVICE"): "OpenCL default device selection",
    ("bempp_cl/core/opencl_kernels.py", "_DEFAULT_GPU_CONTEXT"): "OpenCL default device selection",
    ("bempp_cl/core/opencl_kernels.py", "_DEFAULT_GPU_DEVICE"): "OpenCL default device selection",
}


def _container_kind(v):
    if isinstance(v, (ast.Dict, ast.List, ast.Set)):
        return type(v).__name__.lower()
    if isinstance(v, ast.Call):
        f = v.func
        n = f.attr if isinstance(f, ast.Attribute) else getattr(f, "id", None)
        if n in ("dict", "list", "set", "OrderedDict", "defaultdict", "deque", "WeakValueDictionary", "WeakKeyDictionary"):
            return n
    if isinstance(v, ast.Constant) and v.value is None:
        return "none"
    return None


def module_state(tree):
    """{name: (kind, line)} of module-level names bound to a mutable container or to None."""
    out = {}
    for st in tree.body:
        if isinstance(st, (ast.Assign, ast.AnnAssign)):
            tg = st.targets[0] if isinstance(st, ast.Assign) else st.target
            if isinstance(tg, ast.Name) and st.value is not None:
                k = _container_kind(st.value)
                if k:
                    out[tg.id] = (k, st.lineno)
    return out


def writes(tree):
    """[(function node, class node or None, statement/call node, state name, how, key node, value node)]."""
    mods = module_state(tree)
    out = []
    if not mods:
        return out

    def visit(node, cls):
        for ch in ast.iter_child_nodes(node):
            if isinstance(ch, ast.ClassDef):
                visit(ch, ch)
            elif isinstance(ch, (ast.FunctionDef, ast.AsyncFunctionDef)):
                scan(ch, cls)
                visit(ch, cls)
            else:
                visit(ch, cls)

    def scan(fn, cls):
        globs = {n for s in ast.walk(fn) if isinstance(s, ast.Global) for n in s.names}
        local = {a.arg for a in fn.args.args + fn.args.kwonlyargs} | {n.id for n in ast.walk(fn) if isinstance(n, ast.Name) and isinstance(n.ctx, ast.Store) and n.id not in globs}
        for n in ast.walk(fn):
            if isinstance(n, (ast.Assign, ast.AugAssign)):
                tgs = n.targets if isinstance(n, ast.Assign) else [n.target]
                for tg in tgs:
                    if isinstance(tg, ast.Subscript) and isinstance(tg.value, ast.Name) and tg.value.id in mods and tg.value.id not in local:
                        out.append((fn, cls, n, tg.value.id, "store", tg.slice, n.value))
                    elif isinstance(tg, ast.Name) and tg.id in mods and tg.id in globs:
                        out.append((fn, cls, n, tg.id, "rebind", None, n.value))
            elif isinstance(n, ast.Call) and isinstance(n.func, ast.Attribute) and n.func.attr in MUTATORS and isinstance(n.func.value, ast.Name) and n.func.value.id in mods and n.func.value.id not in local:
                key = n.args[0] if n.func.attr == "setdefault" and len(n.args) == 2 else None
                val = n.args[1] if key is not None else None
                out.append((fn, cls, n, n.func.value.id, "store" if key is not None else n.func.attr, key, val))
            elif isinstance(n, ast.Delete):
                for tg in n.targets:
                    if isinstance(tg, ast.Subscript) and isinstance(tg.value, ast.Name) and tg.value.id in mods and tg.value.id not in local:
                        out.append((fn, cls, n, tg.value.id, "del", None, None))

    visit(tree, None)
    return out


class Deps:
    """Parameters a value is computed from, through locals, self attributes, properties and self methods."""

    def __init__(self, cls, tree):
        self.cls = cls
        self.methods = {}
        self.props = set()
        if cls is not None:
            for st in cls.body:
                if isinstance(st, (ast.FunctionDef, ast.AsyncFunctionDef)):
                    self.methods[st.name] = st
                    if any(unparse(d) in ("property", "functools.cached_property", "cached_property") for d in st.decorator_list):
                        self.props.add(st.name)
        self.module_names = {n.id for st in tree.body for n in ast.walk(st) if isinstance(n, ast.Name) and isinstance(n.ctx, ast.Store) and st in tree.body and not isinstance(st, (ast.FunctionDef, ast.ClassDef))}
        self.module_names |= {a.asname or a.name.split(".")[0] for st in ast.walk(tree) if isinstance(st, (ast.Import, ast.ImportFrom)) for a in st.names}
        self.module_names |= {st.name for st in tree.body if isinstance(st, (ast.FunctionDef, ast.ClassDef))}
        self._attr_memo = {}
        self._busy = set()

    def _params(self, fn):
        a = fn.args
        return [x.arg for x in a.posonlyargs + a.args + a.kwonlyargs] + ([a.vararg.arg] if a.vararg else []) + ([a.kwarg.arg] if a.kwarg else [])

    def attr(self, name):
        """Dependencies of self.<name>: union over every assignment to it (and to its items) in the class."""
        if name in self._attr_memo:
            return self._attr_memo[name]
        if ("attr", name) in self._busy:
            return set()
        self._busy.add(("attr", name))
        out = set()
        if name in self.props:
            out |= self.body(self.methods[name], {})
        elif name in self.methods:
            # a bound method mentioned without its call: its own parameters are supplied at the call, not an input here
            out |= {d for d in self.body(self.methods[name], {}) if not d.startswith(name + "(")}
        for m in self.methods.values():
            for st in ast.walk(m):
                if isinstance(st, (ast.Assign, ast.AugAssign, ast.AnnAssign)):
                    tgs = st.targets if isinstance(st, ast.Assign) else [st.target]
                    for tg in tgs:
                        base = tg
                        while isinstance(base, ast.Subscript):
                            base = base.value
                        if isinstance(base, ast.Attribute) and isinstance(base.value, ast.Name) and base.value.id == "self" and base.attr == name and st.value is not None:
                            out |= self.expr(st.value, m, {})
                            if isinstance(tg, ast.Subscript):
                                out |= self.expr(tg.slice, m, {})
        self._busy.discard(("attr", name))
        self._attr_memo[name] = out
        return out

    def body(self, m, bind):
        """Dependencies of everything a method reads (its returns and the self state it consults)."""
        if ("body", m.name) in self._busy:
            return set()
        self._busy.add(("body", m.name))
        out = set()
        for n in ast.walk(m):
            if isinstance(n, ast.Return) and n.value is not None:
                out |= self.expr(n.value, m, bind)
            elif isinstance(n, ast.Attribute) and isinstance(n.value, ast.Name) and n.value.id == "self" and isinstance(n.ctx, ast.Load):
                out |= self.expr(n, m, bind)
        self._busy.discard(("body", m.name))
        return out

    def local(self, name, fn, bind):
        if ("local", fn.name, name) in self._busy:
            return set()
        self._busy.add(("local", fn.name, name))
        out = set()
        for st in ast.walk(fn):
            if isinstance(st, (ast.Assign, ast.AugAssign, ast.AnnAssign)) and st.value is not None:
                tgs = st.targets if isinstance(st, ast.Assign) else [st.target]
                for tg in tgs:
                    names = [x.id for x in ast.walk(tg) if isinstance(x, ast.Name) and isinstance(x.ctx, ast.Store)]
                    base = tg
                    while isinstance(base, (ast.Subscript, ast.Attribute)):
                        base = base.value
                    if name in names or (isinstance(base, ast.Name) and base.id == name):
                        out |= self.expr(st.value, fn, bind)
            elif isinstance(st, (ast.For, ast.comprehension)):
                if any(isinstance(x, ast.Name) and x.id == name for x in ast.walk(st.target)):
                    out |= self.expr(st.iter, fn, bind)
            elif isinstance(st, ast.With):
                for it in st.items:
                    if it.optional_vars is not None and any(isinstance(x, ast.Name) and x.id == name for x in ast.walk(it.optional_vars)):
                        out |= self.expr(it.context_expr, fn, bind)
            elif isinstance(st, ast.Call) and isinstance(st.func, ast.Attribute) and st.func.attr in MUTATORS and isinstance(st.func.value, ast.Name) and st.func.value.id == name:
                for a in st.args:
                    out |= self.expr(a, fn, bind)
        self._busy.discard(("local", fn.name, name))
        return out

    def expr(self, e, fn, bind):
        out = set()
        params = self._params(fn)
        if isinstance(e, ast.Name):
            if e.id == "self":
                return out
            if e.id in bind:
                return set(bind[e.id])
            if e.id in params:
                return {e.id if (self.cls is None or fn.name == "__init__") else "%s(%s)" % (fn.name, e.id)}
            stored = any(isinstance(x, ast.Name) and x.id == e.id and isinstance(x.ctx, ast.Store) for x in ast.walk(fn))
            if stored:
                return self.local(e.id, fn, bind)
            return out  # module-level names, imports, builtins: not an input of the request
        if isinstance(e, ast.Attribute):
            if isinstance(e.value, ast.Name) and e.value.id == "self" and self.cls is not None:
                return set(self.attr(e.attr))
            if unparse(e).endswith("GLOBAL_PARAMETERS") or "GLOBAL_PARAMETERS." in unparse(e):
                return {"GLOBAL_PARAMETERS"}
            return self.expr(e.value, fn, bind)
        if isinstance(e, ast.Call):
            f = e.func
            args = list(e.args) + [k.value for k in e.keywords]
            if isinstance(f, ast.Attribute) and isinstance(f.value, ast.Name) and f.value.id == "self" and self.cls is not None and f.attr in self.methods:
                m = self.methods[f.attr]
                mp = [p for p in self._params(m) if p != "self"]
                b = {}
                for p, a in zip(mp, e.args):
                    b[p] = self.expr(a, fn, bind)
                for k in e.keywords:
                    if k.arg:
                        b[k.arg] = self.expr(k.value, fn, bind)
                got = self.body(m, b)
                # parameters left unbound (defaults) contribute nothing
                return {d for d in got if not d.startswith(m.name + "(")}
            for a in args:
                out |= self.expr(a, fn, bind)
            if isinstance(f, ast.Attribute):
                out |= self.expr(f.value, fn, bind)
            return out
        for ch in ast.iter_child_nodes(e):
            if isinstance(ch, ast.expr):
                out |= self.expr(ch, fn, bind)
            elif isinstance(ch, ast.comprehension):
                out |= self.expr(ch.iter, fn, bind)
                for c in ch.ifs:
                    out |= self.expr(c, fn, bind)
        return out


def memo_key_gap(tree, fn, cls, key, value, implied=()):
    """Parameters the memoised value depends on that the key does not (`implied`: inputs fixed by where the table lives)."""
    d = Deps(cls, tree)
    return sorted(d.expr(value, fn, {}) - d.expr(key, fn, {}) - set(implied))


# attributes of an argument that a reviewed other attribute of the same object determines (a key that contains the
# left-hand attribute covers the right-hand ones): FunctionSpace.identifier names the space kind, which fixes its
# shapeset, order and codomain dimension; grid_id and grid name the same grid
DETERMINED = {
    "identifier": {"order", "shapeset", "codomain_dimension", "number_of_shape_functions", "requires_dof_transformation", "has_surface_curl", "has_surface_gradient",
                   "is_barycentric", "numba_evaluate", "numba_surface_curl", "numba_surface_gradient", "is_localised"},
    "grid_id": {"grid"},
    "grid": {"grid_id"},
}


def memo_attr_gap(fn, key, value):
    """Finer than memo_key_gap, for a memo whose key and value are both computed from the SAME argument object: the
    attributes of that argument the stored value reads which the key neither reads nor determines (DETERMINED).  A key
    that contains the object itself (or id(object)) covers everything.  {parameter: [attributes]}"""
    from . import roles

    defs = roles.Defs(fn)
    a = fn.args
    params = {x.arg for x in a.posonlyargs + a.args + a.kwonlyargs} - {"self", "cls"}

    def reads(node):
        node = roles.inline(node, defs)
        parents = {}
        for n in ast.walk(node):
            for ch in ast.iter_child_nodes(n):
                parents[id(ch)] = n
        whole, attrs = set(), {}
        for n in ast.walk(node):
            if isinstance(n, ast.Name) and n.id in params:
                par = parents.get(id(n))
                if isinstance(par, ast.Attribute) and par.value is n:
                    attrs.setdefault(n.id, set()).add(par.attr)
                else:
                    whole.add(n.id)
        return whole, attrs

    kw, ka = reads(key)
    vw, va = reads(value)
    out = {}
    for p_ in sorted(set(va) | vw):
        if p_ in kw:
            continue
        if p_ in vw and p_ not in ka:
            continue  # (argument-level gaps are memo_key_gap's business)
        have = set(ka.get(p_, ()))
        covered = set(have)
        for h in have:
            covered |= DETERMINED.get(h, set())
        gap = sorted(set(va.get(p_, ())) - covered)
        if gap and have:
            out[p_] = gap
    return out


def object_state_writes(tree):
    """State kept on an object that was handed in (a grid, a space, a parameter object): such objects are shared between
    operators, so what is written there survives the call exactly like module-level state.

    [(function, class, node, holder parameter, how, key node, value node)] for: `p.attr = v`, `p.attr[k] = v`,
    `p.__dict__[...]`, `setattr(p, ...)`, and stores into a local that aliases `p.__dict__.setdefault(name, {})`,
    `p.__dict__[name]` or `getattr(p, name, ...)`, for a parameter p other than self / cls."""
    out = []

    def visit(node, cls):
        for ch in ast.iter_child_nodes(node):
            if isinstance(ch, ast.ClassDef):
                visit(ch, ch)
            elif isinstance(ch, (ast.FunctionDef, ast.AsyncFunctionDef)):
                scan(ch, cls)
                visit(ch, cls)
            else:
                visit(ch, cls)

    def holder_of(e, params):
        """The parameter whose state the expression reads (p.__dict__..., getattr(p, ...), p.attr), else None."""
        n = e
        while isinstance(n, (ast.Attribute, ast.Subscript, ast.Call)):
            if isinstance(n, ast.Call):
                if isinstance(n.func, ast.Name) and n.func.id == "getattr" and n.args and isinstance(n.args[0], ast.Name) and n.args[0].id in params:
                    return n.args[0].id
                n = n.func
            else:
                n = n.value
        return n.id if isinstance(n, ast.Name) and n.id in params else None

    def scan(fn, cls):
        a = fn.args
        params = {x.arg for x in a.posonlyargs + a.args + a.kwonlyargs} - {"self", "cls"}
        if not params:
            return
        alias = {}
        for n in ast.walk(fn):
            if isinstance(n, ast.Assign) and len(n.targets) == 1 and isinstance(n.targets[0], ast.Name):
                v = n.value
                txt = unparse(v)
                if "__dict__" in txt or (isinstance(v, ast.Call) and isinstance(v.func, ast.Name) and v.func.id == "getattr"):
                    h = holder_of(v, params)
                    if h:
                        alias[n.targets[0].id] = h
        for n in ast.walk(fn):
            if isinstance(n, (ast.Assign, ast.AugAssign)):
                tgs = n.targets if isinstance(n, ast.Assign) else [n.target]
                for tg in tgs:
                    if isinstance(tg, ast.Attribute) and isinstance(tg.value, ast.Name) and tg.value.id in params:
                        out.append((fn, cls, n, tg.value.id, "attribute", None, n.value))
                    elif isinstance(tg, ast.Subscript):
                        base = tg.value
                        if isinstance(base, ast.Name) and base.id in alias:
                            out.append((fn, cls, n, alias[base.id], "store", tg.slice, n.value))
                        elif isinstance(base, (ast.Attribute, ast.Subscript, ast.Call)) and holder_of(base, params) and not (isinstance(base, ast.Name)):
                            # p.attr[k] = v / p.__dict__[k] = v
                            if isinstance(base, ast.Attribute) and base.attr == "__dict__":
                                out.append((fn, cls, n, holder_of(base, params), "attribute", None, n.value))
                            elif isinstance(base, ast.Attribute) and isinstance(base.value, ast.Name):
                                out.append((fn, cls, n, holder_of(base, params), "store", tg.slice, n.value))
            elif isinstance(n, ast.Call):
                if isinstance(n.func, ast.Name) and n.func.id == "setattr" and n.args and isinstance(n.args[0], ast.Name) and n.args[0].id in params:
                    out.append((fn, cls, n, n.args[0].id, "attribute", None, n.args[2] if len(n.args) > 2 else None))
                elif isinstance(n.func, ast.Attribute) and n.func.attr == "setdefault" and isinstance(n.func.value, ast.Name) and n.func.value.id in alias and len(n.args) == 2:
                    out.append((fn, cls, n, alias[n.func.value.id], "store", n.args[0], n.args[1]))

    visit(tree, None)
    return out


def mutable_default_sites(tree):
    """[(function, parameter, default text, line, how)] for parameters whose default value is an object built ONCE at
    definition time (a list / dict / set display, a comprehension, a constructor call) and that the function lets
    escape (stores it on an object, returns it) or mutates: every call that relies on the default then shares that one
    object - two parameter objects share their option groups, two results share a list."""
    out = []
    for fn in ast.walk(tree):
        if not isinstance(fn, (ast.FunctionDef, ast.AsyncFunctionDef)):
            continue
        a = fn.args
        pos = a.posonlyargs + a.args
        pairs = list(zip(pos[len(pos) - len(a.defaults):], a.defaults)) + [(k, d) for k, d in zip(a.kwonlyargs, a.kw_defaults) if d is not None]
        for arg, d in pairs:
            if not (isinstance(d, (ast.List, ast.Dict, ast.Set, ast.ListComp, ast.DictComp, ast.SetComp)) or
                    (isinstance(d, ast.Call) and unparse(d.func).split(".")[-1] not in ("tuple", "frozenset", "int", "float", "complex", "str", "bool", "bytes", "dtype", "float64", "float32"))):
                continue
            nm = arg.arg
            rebound = any(isinstance(n, ast.Name) and n.id == nm and isinstance(n.ctx, ast.Store) for n in ast.walk(fn))
            if rebound:
                continue  # (`x = list(x)` style copies: the default object itself is not what is used afterwards)
            for n in ast.walk(fn):
                how = None
                if isinstance(n, ast.Assign) and isinstance(n.value, ast.Name) and n.value.id == nm and any(isinstance(t, (ast.Attribute, ast.Subscript)) for t in n.targets):
                    how = "stored as `%s`" % unparse(n.targets[0])
                elif isinstance(n, ast.Return) and isinstance(n.value, ast.Name) and n.value.id == nm:
                    how = "returned"
                elif isinstance(n, ast.Call) and isinstance(n.func, ast.Attribute) and isinstance(n.func.value, ast.Name) and n.func.value.id == nm and n.func.attr in MUTATORS + ("sort", "reverse", "fill"):
                    how = "mutated by `.%s(...)`" % n.func.attr
                elif isinstance(n, (ast.Assign, ast.AugAssign)):
                    tgs = n.targets if isinstance(n, ast.Assign) else [n.target]
                    for t in tgs:
                        b = t
                        while isinstance(b, (ast.Attribute, ast.Subscript)):
                            b = b.value
                        if isinstance(t, (ast.Attribute, ast.Subscript)) and isinstance(b, ast.Name) and b.id == nm:
                            how = "written through `%s`" % unparse(t)[:40]
                if how:
                    out.append((fn, nm, unparse(d)[:40], n.lineno, how))
                    break
    return out


def mutable_defaults(ctx, rule_id="FX-MUTABLE-DEFAULT"):
    r = ctx.rule(rule_id, "no parameter default that is an object built at definition time (list / dict / set display, constructor call) is stored on an object, returned or mutated: calls relying on the default would share that one object", 1)
    n = 0
    for rel in ctx.repo.py_files("bempp_cl"):
        m = ctx.repo.mod(rel)
        for fn, nm, dflt, line, how in mutable_default_sites(m.tree):
            n += 1
            r.fail("%s::%s(%s=%s)" % (rel.rsplit("/", 1)[-1], fn.name, nm, dflt), rel, fn.name, line, "default `%s=%s` of %s" % (nm, dflt, fn.name),
                   "the default `%s=%s` is evaluated once when %s is defined and is then %s: every call that does not pass `%s` shares that one object (what one caller changes, all others - and later calls - see)" % (nm, dflt, fn.name, how, nm))
    if not n:
        r.ok("no escaping or mutated definition-time default in the package")
    bad = ast.parse("class P:\n    def __init__(self, quadrature=_Quadrature(), names=[]):\n        self.quadrature = quadrature\n        names.append(1)\n")
    good = ast.parse("def cylinders(h=0.1, r=[0.5, 1, 1.5]):\n    for x in r:\n        use(x)\n    r2 = list(r)\n    return r2\n")
    r.must_fire(len(mutable_default_sites(bad)) == 2 and not mutable_default_sites(good), "option group built in the signature and stored on self")


def process_state(ctx, rule_id="FX-PROCESS-STATE"):
    mutable_defaults(ctx)
    r = ctx.rule(rule_id, "every write to module-level mutable state is a reviewed site; a memo table added elsewhere must key its entries by every constructor / function argument the stored value is computed from", 9)
    seen = set()
    for rel in ctx.repo.py_files("bempp_cl"):
        m = ctx.repo.mod(rel)
        for fn, cls, node, name, how, key, value in writes(m.tree):
            qn = "%s.%s" % (cls.name, fn.name) if cls is not None else fn.name
            if (rel, name) in STATE_SITES:
                if (rel, name) not in seen:
                    seen.add((rel, name))
                    r.ok("%s::%s (%s)" % (rel.rsplit("/", 1)[-1], name, STATE_SITES[(rel, name)][:60]))
                continue
            if how != "store" or key is None or value is None:
                raise AnalysisError("%s:%d %s writes module-level state `%s` (%s) that is not in the reviewed inventory (sa/state.py STATE_SITES): review what reads it and add it with a reason" % (rel, node.lineno, qn, name, how))
            gap = memo_key_gap(m.tree, fn, cls, key, value)
            if not gap:
                ag = memo_attr_gap(fn, key, value)
                gap = ["%s.%s" % (p_, x) for p_, xs in ag.items() for x in xs]
            r.check(not gap, "%s::%s[%s]" % (rel.rsplit("/", 1)[-1], name, unparse(key)[:40]), rel, qn, node.lineno, "memo table %s in %s" % (name, qn),
                    "`%s[%s] = %s` keeps a value computed from %s in process-wide state, but the key is computed without %s: a later request that differs only in %s is served the stale entry (results depend on what was assembled before)" % (
                        name, unparse(key)[:50], unparse(value)[:70], "the arguments " + ", ".join(gap) + " (among others)", ", ".join(gap), ", ".join(gap)))
        # containers bound in a class body are shared by all instances: none exists in the reviewed tree
        for c in ast.walk(m.tree):
            if isinstance(c, ast.ClassDef):
                for st in c.body:
                    if isinstance(st, (ast.Assign, ast.AnnAssign)) and st.value is not None and _container_kind(st.value) not in (None, "none"):
                        tgc = st.targets[0] if isinstance(st, ast.Assign) else st.target
                        if not isinstance(tgc, ast.Name):
                            raise AnalysisError("%s:%d class %s binds a mutable container in its body (`%s`)" % (rel, st.lineno, c.name, unparse(st)[:60]))
                        nm = tgc.id
                        meths = [f for f in c.body if isinstance(f, (ast.FunctionDef, ast.AsyncFunctionDef))]
                        # an instance attribute of the same name assigned in __init__ shadows the class-level container
                        shadowed = any(isinstance(a, ast.Assign) and any(unparse(t) == "self." + nm for t in a.targets) for f in meths if f.name == "__init__" for a in ast.walk(f))
                        muts = []
                        for f in meths:
                            for n in ast.walk(f):
                                if isinstance(n, ast.Call) and isinstance(n.func, ast.Attribute) and n.func.attr in MUTATORS and unparse(n.func.value) in ("self." + nm, "%s.%s" % (c.name, nm), "cls." + nm, "type(self)." + nm):
                                    muts.append((f.name, n.lineno, unparse(n)[:50]))
                                tg2 = n.target if isinstance(n, ast.AugAssign) else (n.targets[0] if isinstance(n, ast.Assign) and len(n.targets) == 1 else None)
                                if isinstance(tg2, ast.Subscript) and unparse(tg2.value) in ("self." + nm, "%s.%s" % (c.name, nm), "cls." + nm):
                                    muts.append((f.name, n.lineno, unparse(n)[:50]))
                        r.check(shadowed or not muts, "%s::%s.%s" % (rel.rsplit("/", 1)[-1], c.name, nm), rel, c.name, st.lineno, "class-level container %s.%s" % (c.name, nm),
                                "class %s binds the mutable container `%s` in its body and %s mutates it in place without __init__ giving each instance its own: every instance in the process shares one %s, so what one call leaves there is seen by the next (%s)" % (
                                    c.name, nm, ", ".join(sorted({m_[0] for m_ in muts})), _container_kind(st.value), "; ".join("%s line %d: %s" % m_ for m_ in muts[:3])))
        # state parked on objects that are handed in (grids, spaces, parameter objects are shared between operators)
        for fn, cls, node, holder, how, key, value in object_state_writes(m.tree):
            qn = "%s.%s" % (cls.name, fn.name) if cls is not None else fn.name
            if how != "store" or key is None or value is None:
                raise AnalysisError("%s:%d %s writes an attribute of its argument `%s`: state kept on a shared object is not in the reviewed inventory (sa/state.py); review what reads it" % (rel, node.lineno, qn, holder))
            gap = memo_key_gap(m.tree, fn, cls, key, value, implied=(holder,))
            r.check(not gap, "%s::%s state on `%s`" % (rel.rsplit("/", 1)[-1], qn, holder), rel, qn, node.lineno, "memo kept on the argument %s of %s" % (holder, qn),
                    "a value computed from the arguments %s is kept on the object `%s` under a key computed without %s: the object is shared by later operators, which are served the stale entry when they differ only in %s" % (
                        ", ".join(sorted(set(gap) | {holder})), holder, ", ".join(gap), ", ".join(gap)))
    missing = sorted(set(STATE_SITES) - seen)
    if missing:
        raise AnalysisError("reviewed state sites no longer found: %s" % missing)
    bad2 = ast.parse(
        "def rule_for(grid, order, sup):\n"
        "    rules = grid.__dict__.setdefault('_rules', {})\n"
        "    key = (sup.tobytes(),)\n"
        "    if key not in rules:\n"
        "        rules[key] = Rule(grid, order, sup)\n"
        "    return rules[key]\n")
    w2 = object_state_writes(bad2)
    r.must_fire(len(w2) == 1 and memo_key_gap(bad2, w2[0][0], w2[0][1], w2[0][5], w2[0][6], implied=(w2[0][3],)) == ["order"], "memo parked on the grid object, keyed without the order")
    bad = ast.parse(
        "_TAB = {}\n"
        "class R:\n"
        "    def __init__(self, grid, order):\n"
        "        self._order = order\n"
        "        self._key = (grid.id,)\n"
        "    def offsets(self):\n"
        "        return 6 * self._order ** 4\n"
        "    def get(self):\n"
        "        if self._key not in _TAB:\n"
        "            _TAB[self._key] = self.offsets()\n"
        "        return _TAB[self._key]\n")
    w = writes(bad)
    r.must_fire(len(w) == 1 and memo_key_gap(bad, w[0][0], w[0][1], w[0][5], w[0][6]) == ["order"], "memo keyed by the grid only, value depends on the order")
